"""Service-level harness shared by C01 C02 C04 C05 C06 C07 C10 C12.

* builders for request protos from a JSON-able call language,
* abstraction of responses / stored state into plain dicts (timestamps masked),
* the harness policy (``VVSTUB``) plugged in through PythiaServicer's documented
  ``policy_factory`` argument: deterministic suggestions, delivery shaping,
  fault injection, a persisted counter in study metadata, recording of what the
  algorithm was given,
* servicer factory for the three datastore backends,
* the datastore write monitor (invariant-at-a-hook on every stored trial write),
* classification of outcomes into abstract classes.
"""
import collections
import copy
import json
import threading

import grpc

from vizier import pythia
from vizier import pyvizier as vz
from vizier._src.service import custom_errors
from vizier._src.service import grpc_util
from vizier._src.service import key_value_pb2
from vizier._src.service import policy_factory as policy_factory_lib
from vizier._src.service import pythia_service
from vizier._src.service import study_pb2
from vizier._src.service import vizier_service
from vizier._src.service import vizier_service_pb2 as vsp
from vizier.service import pyvizier as svz
from google.longrunning import operations_pb2
from google.protobuf import any_pb2
from google.protobuf import duration_pb2  # noqa

TS = study_pb2.Trial.State
SS = study_pb2.Study.State
STUB = 'VVSTUB'
STUB_NS = 'vvstub'

OK, NOT_FOUND, FP, EXISTS, INVALID, CRASH = (
    'OK', 'NOT_FOUND', 'FAILED_PRECONDITION', 'ALREADY_EXISTS', 'INVALID', 'CRASH')


# ---------------------------------------------------------------------------
# names
# ---------------------------------------------------------------------------
def owner_name(o):
  return f'owners/{o}'


def study_name(o, s):
  return f'owners/{o}/studies/{s}'


def trial_name(o, s, t):
  return f'owners/{o}/studies/{s}/trials/{t}'


# ---------------------------------------------------------------------------
# study spec used by service level programs
# ---------------------------------------------------------------------------
SPACE_DESC = [
    {'name': 'x', 'kind': 'DOUBLE', 'lo': 0.0, 'hi': 1.0, 'scale': 'LINEAR', 'default': None},
    {'name': 'k', 'kind': 'INTEGER', 'lo': 0, 'hi': 9, 'scale': None, 'default': None},
    {'name': 'c', 'kind': 'CATEGORICAL', 'values': ['a', 'b'], 'scale': None, 'default': None},
]


def make_study_config(algorithm=STUB, metrics=(('obj', 'MAXIMIZE'),), endpoint=None):
  cfg = svz.StudyConfig(algorithm=algorithm)
  root = cfg.search_space.root
  root.add_float_param('x', 0.0, 1.0)
  root.add_int_param('k', 0, 9)
  root.add_categorical_param('c', ['a', 'b'])
  for name, goal in metrics:
    cfg.metric_information.append(
        vz.MetricInformation(name, goal=getattr(vz.ObjectiveMetricGoal, goal)))
  if endpoint:
    cfg.pythia_endpoint = endpoint
  return cfg


_SPEC_CACHE = {}


def study_spec(algorithm=STUB, metrics=(('obj', 'MAXIMIZE'),)):
  key = (algorithm, tuple(metrics))
  if key not in _SPEC_CACHE:
    _SPEC_CACHE[key] = make_study_config(algorithm, metrics).to_proto()
  return copy.deepcopy(_SPEC_CACHE[key])


def stub_params(n):
  """Deterministic feasible point #n of SPACE_DESC."""
  return {'x': ((n * 37) % 101) / 100.0, 'k': n % 10, 'c': 'ab'[n % 2]}


# ---------------------------------------------------------------------------
# proto builders
# ---------------------------------------------------------------------------
def params_to_protos(params):
  out = []
  for k, v in params.items():
    p = study_pb2.Trial.Parameter(parameter_id=k)
    if isinstance(v, str):
      p.value.string_value = v
    else:
      p.value.number_value = float(v)
    out.append(p)
  return out


def measurement_proto(m):
  """m = {'metrics': {name: value}, 'steps': int, 'secs': float}."""
  if m is None:
    return study_pb2.Measurement()
  out = study_pb2.Measurement()
  for k, v in m.get('metrics', {}).items():
    out.metrics.add(metric_id=k, value=float(v))
  if m.get('steps'):
    out.step_count = int(m['steps'])
  if m.get('secs'):
    secs = float(m['secs'])
    out.elapsed_duration.seconds = int(secs)
    out.elapsed_duration.nanos = int(round((secs - int(secs)) * 1e9))
  return out


def kv_proto(ns, key, value):
  kv = key_value_pb2.KeyValue(key=key, ns=ns)
  if isinstance(value, dict) and 'any' in value:
    a = any_pb2.Any(type_url='type.googleapis.com/vv.Blob', value=value['any'].encode())
    kv.proto.CopyFrom(a)
  else:
    kv.value = value
  return kv


def build_request(call):
  """call (dict) -> (rpc name, request proto)."""
  op = call['op']
  if op == 'CreateStudy':
    st = study_pb2.Study(display_name=call.get('display', ''),
                         study_spec=study_spec(call.get('algo', STUB),
                                               tuple(map(tuple, call.get('metrics', (('obj', 'MAXIMIZE'),))))))
    if call.get('name_set'):
      st.name = study_name(call['owner'], call.get('display', 'x'))
    if call.get('state'):
      st.state = getattr(SS, call['state'])
    return op, vsp.CreateStudyRequest(parent=call.get('raw_parent') or owner_name(call['owner']), study=st)
  if op == 'GetStudy':
    return op, vsp.GetStudyRequest(name=call['study'])
  if op == 'ListStudies':
    return op, vsp.ListStudiesRequest(parent=call.get('raw_parent') or owner_name(call['owner']))
  if op == 'DeleteStudy':
    return op, vsp.DeleteStudyRequest(name=call['study'])
  if op == 'SetStudyState':
    return op, vsp.SetStudyStateRequest(parent=call['study'], state=getattr(SS, call['state']))
  if op == 'CreateTrial':
    t = study_pb2.Trial()
    t.parameters.extend(params_to_protos(call.get('params', {})))
    if call.get('state'):
      t.state = getattr(TS, call['state'])
    if call.get('final') is not None:
      t.final_measurement.CopyFrom(measurement_proto(call['final']))
    for m in call.get('measurements', []):
      t.measurements.append(measurement_proto(m))
    if call.get('client_id'):
      t.client_id = call['client_id']
    for ns, key, value in call.get('metadata', []):
      t.metadata.append(kv_proto(ns, key, value))
    return op, vsp.CreateTrialRequest(parent=call['study'], trial=t)
  if op == 'SuggestTrials':
    return op, vsp.SuggestTrialsRequest(parent=call['study'], suggestion_count=call['count'],
                                        client_id=call['client'])
  if op == 'GetOperation':
    return op, operations_pb2.GetOperationRequest(name=call['name'])
  if op == 'GetTrial':
    return op, vsp.GetTrialRequest(name=call['trial'])
  if op == 'ListTrials':
    return op, vsp.ListTrialsRequest(parent=call['study'])
  if op == 'AddTrialMeasurement':
    return op, vsp.AddTrialMeasurementRequest(trial_name=call['trial'],
                                              measurement=measurement_proto(call['m']))
  if op == 'CompleteTrial':
    r = vsp.CompleteTrialRequest(name=call['trial'])
    if call.get('final') is not None:
      r.final_measurement.CopyFrom(measurement_proto(call['final']))
    if call.get('infeasible'):
      r.trial_infeasible = True
      r.infeasible_reason = call.get('reason', '')
    return op, r
  if op == 'StopTrial':
    return op, vsp.StopTrialRequest(name=call['trial'])
  if op == 'DeleteTrial':
    return op, vsp.DeleteTrialRequest(name=call['trial'])
  if op == 'CheckTrialEarlyStoppingState':
    return op, vsp.CheckTrialEarlyStoppingStateRequest(trial_name=call['trial'])
  if op == 'UpdateMetadata':
    r = vsp.UpdateMetadataRequest(name=call['study'])
    for tid, ns, key, value in call['delta']:
      u = r.delta.add()
      if tid is not None:
        u.trial_id = str(tid)
      u.metadatum.CopyFrom(kv_proto(ns, key, value))
    return op, r
  if op == 'ListOptimalTrials':
    return op, vsp.ListOptimalTrialsRequest(parent=call['study'])
  raise ValueError(op)


# ---------------------------------------------------------------------------
# abstraction of protos
# ---------------------------------------------------------------------------
def abs_measurement(m):
  secs = m.elapsed_duration.seconds + m.elapsed_duration.nanos * 1e-9
  return {'metrics': {x.metric_id: x.value for x in m.metrics},
          'steps': int(m.step_count), 'secs': round(secs, 9)}


def abs_metadata(container):
  out = {}
  for kv in container.metadata:
    if kv.HasField('proto'):
      v = 'any:' + kv.proto.type_url + ':' + kv.proto.value.decode('latin1')
    else:
      v = 'str:' + kv.value
    k = json.dumps([kv.ns, kv.key])
    if k in out:
      out[k + '#dup'] = v  # duplicate (ns,key) entries are an anomaly; keep visible
    else:
      out[k] = v
  return out


def abs_value(v):
  kind = v.WhichOneof('kind')
  if kind == 'number_value':
    return v.number_value
  if kind == 'string_value':
    return v.string_value
  return f'<{kind}>'


def abs_trial(t):
  has_final = t.HasField('final_measurement')
  return {
      'name': t.name, 'id': t.id, 'state': TS.Name(t.state), 'client_id': t.client_id,
      'params': {p.parameter_id: abs_value(p.value) for p in t.parameters},
      'n_params': len(t.parameters),
      'measurements': [abs_measurement(m) for m in t.measurements],
      'final': abs_measurement(t.final_measurement) if has_final else None,
      'infeasible_reason': t.infeasible_reason,
      'metadata': abs_metadata(t),
      'has_start': t.HasField('start_time'),
  }


def abs_study(s):
  return {'name': s.name, 'display': s.display_name, 'state': SS.Name(s.state),
          'algo': s.study_spec.algorithm,
          'metrics': [[m.metric_id, study_pb2.StudySpec.MetricSpec.GoalType.Name(m.goal)]
                      for m in s.study_spec.metrics],
          'n_params': len(s.study_spec.parameters),
          'metadata': abs_metadata(s.study_spec)}


def abs_operation(op):
  out = {'name': op.name, 'done': op.done, 'error': None, 'trials': None}
  if op.HasField('error'):
    out['error'] = {'code': op.error.code, 'message': op.error.message[:200]}
  if op.HasField('response'):
    r = vsp.SuggestTrialsResponse.FromString(op.response.value)
    out['trials'] = [abs_trial(t) for t in r.trials]
  return out


def abs_response(op, resp):
  if op in ('CreateStudy', 'GetStudy', 'SetStudyState'):
    return abs_study(resp)
  if op == 'ListStudies':
    return [abs_study(s) for s in resp.studies]
  if op in ('CreateTrial', 'GetTrial', 'AddTrialMeasurement', 'CompleteTrial', 'StopTrial'):
    return abs_trial(resp)
  if op == 'ListTrials':
    return [abs_trial(t) for t in resp.trials]
  if op == 'ListOptimalTrials':
    return [abs_trial(t) for t in resp.optimal_trials]
  if op in ('SuggestTrials', 'GetOperation'):
    return abs_operation(resp)
  if op == 'CheckTrialEarlyStoppingState':
    return {'should_stop': 'masked'}
  if op == 'UpdateMetadata':
    return {'error_details': bool(resp.error_details)}
  if op in ('DeleteStudy', 'DeleteTrial'):
    return {}
  raise ValueError(op)


# ---------------------------------------------------------------------------
# outcome classification
# ---------------------------------------------------------------------------
_CODE = {
    grpc.StatusCode.NOT_FOUND: NOT_FOUND,
    grpc.StatusCode.FAILED_PRECONDITION: FP,
    grpc.StatusCode.ALREADY_EXISTS: EXISTS,
    grpc.StatusCode.INVALID_ARGUMENT: INVALID,
}


def classify_exception(e):
  """Maps an exception escaping a servicer / stub call onto an outcome class."""
  if isinstance(e, grpc.RpcError):
    try:
      code = e.code()
    except Exception:  # pylint: disable=broad-except
      return CRASH
    if code in _CODE:
      return _CODE[code]
    if code == grpc.StatusCode.UNKNOWN:
      # handle_exception maps every non-custom error (ValueError for invalid
      # arguments) to UNKNOWN; the wrapped exception / details tell which.
      inner = e.args[0] if e.args else None
      if isinstance(inner, ValueError):
        return INVALID
      det = ''
      try:
        det = e.details() or ''
      except Exception:  # pylint: disable=broad-except
        pass
      if isinstance(inner, Exception):
        return CRASH
      return 'UNKNOWN:' + det[:80]
    return 'STATUS:' + str(code)
  if isinstance(e, custom_errors.NotFoundError):
    return NOT_FOUND
  if isinstance(e, custom_errors.AlreadyExistsError):
    return EXISTS
  if isinstance(e, (custom_errors.ImmutableStudyError, custom_errors.ImmutableTrialError)):
    return FP
  if isinstance(e, ValueError):
    return INVALID
  if type(e) is KeyError:  # pylint: disable=unidiomatic-typecheck
    # base class of the datastore's NotFoundError (e.g. RAM create_trial on a
    # study deleted a moment ago)
    return NOT_FOUND
  return CRASH


class _Abort(Exception):
  """What grpc's ServicerContext.abort raises inside a handler."""


class WireContext:
  """In-process stand-in for grpc.ServicerContext with the semantics a remote
  client observes: set_code/set_details record the status, abort() terminates
  the handler with that status, and any *other* exception escaping the handler
  reaches the client as StatusCode.UNKNOWN."""

  def __init__(self):
    self._code = None
    self._details = None

  def set_code(self, code):
    self._code = code

  def set_details(self, details):
    self._details = details

  def code(self):
    return self._code

  def details(self):
    return self._details

  def abort(self, code, details):
    self._code, self._details = code, details
    raise _Abort()

  def is_active(self):
    return True


def call_servicer(servicer, call, wire=False):
  """Executes one call. Returns (outcome class, abstract response | error text, raw).

  wire=True passes a WireContext, i.e. the handler runs as it would inside a gRPC
  server and the outcome class is the status a remote client would see.
  """
  op, req = build_request(call)
  if not wire:
    try:
      resp = getattr(servicer, op)(req)
    except Exception as e:  # pylint: disable=broad-except
      return classify_exception(e), f'{type(e).__name__}: {str(e)[:200]}', e
    return OK, abs_response(op, resp), resp
  ctx = WireContext()
  try:
    resp = getattr(servicer, op)(req, ctx)
  except _Abort:
    cls = _CODE.get(ctx.code(), 'STATUS:' + str(ctx.code()))
    if ctx.code() == grpc.StatusCode.UNKNOWN:
      cls = 'STATUS:UNKNOWN'
    return cls, f'aborted: {str(ctx.details())[:200]}', None
  except Exception as e:  # pylint: disable=broad-except
    # an uncaught handler exception: the client sees UNKNOWN whatever was raised
    return 'STATUS:UNKNOWN', f'{type(e).__name__}: {str(e)[:200]}', e
  if ctx.code() not in (None, grpc.StatusCode.OK):
    return _CODE.get(ctx.code(), 'STATUS:' + str(ctx.code())), f'status set: {ctx.details()}', resp
  return OK, abs_response(op, resp), resp


# ---------------------------------------------------------------------------
# harness policy
# ---------------------------------------------------------------------------
class StubFault(Exception):
  """Custom exception type raised by the harness policy."""


class Controller:
  """Shared between the harness and the policies it configures.

  plan: list consumed one entry per policy.suggest() call (default entry when
  exhausted): {'delta': int (deliver count+delta), 'raise': None|str,
               'trial_md': [(trial_id, ns, key, value)], 'study_md': [(ns,key,value)]}
  """

  def __init__(self):
    self.lock = threading.Lock()
    self.plan = collections.deque()
    self.default = {'delta': 0}
    self.suggest_calls = 0
    self.early_stop_calls = 0
    self.log = []          # what the algorithm was given / returned
    self.es_plan = collections.deque()
    # the service always asks algorithm 'RANDOM_SEARCH' for early stopping; for
    # studies listed here the harness algorithm answers instead.
    self.stub_studies = set()
    # fault sites outside policy.suggest(): consumed by the next factory call
    # ({'site': 'factory' | 'constructor', 'raise': <exception name>}).
    self.factory_faults = collections.deque()
    self.factory_fault_log = []

  def next_entry(self):
    with self.lock:
      self.suggest_calls += 1
      if self.plan:
        e = dict(self.plan.popleft())
        if int(e.get('repeat', 1)) > 1:
          # a persistent fault: the next policy.suggest() calls (e.g. retries inside one
          # request) meet it again
          self.plan.appendleft(dict(e, repeat=int(e['repeat']) - 1))
        return e
      return dict(self.default)

  def next_es_entry(self):
    with self.lock:
      self.early_stop_calls += 1
      if self.es_plan:
        e = dict(self.es_plan.popleft())
        if int(e.get('repeat', 1)) > 1:
          self.es_plan.appendleft(dict(e, repeat=int(e['repeat']) - 1))
        return e
      return {}


EXC_TYPES = {
    'ValueError': ValueError, 'KeyError': KeyError, 'RuntimeError': RuntimeError,
    'StubFault': StubFault, 'AssertionError': AssertionError, 'TypeError': TypeError,
    'ZeroDivisionError': ZeroDivisionError,
}


class _StubRpcError(grpc.RpcError):
  pass


EXC_TYPES['RpcError'] = _StubRpcError
# the error classes the Pythia interface itself documents for policies
from vizier._src.pythia import pythia_errors as _pe  # pylint: disable=g-import-not-at-top
for _n in ('TemporaryPythiaError', 'InactivateStudyError', 'PythiaFallbackError', 'LoadTooLargeError',
           'CancelComputeError', 'PythiaProtocolError', 'VizierDatabaseError'):
  if hasattr(_pe, _n):
    EXC_TYPES[_n] = getattr(_pe, _n)

# Shapes of the text an algorithm's exception may carry (exception texts are
# arbitrary: empty for a bare `assert` / `NotImplementedError()`, kilobytes of
# traceback, localised non-ASCII text). spec = None | ['empty'] | ['ascii', n] |
# ['utf8', ascii_prefix_len, char, n_chars].
MSG_CHARS = ['\u00e9', '\u6f22', '\U0001f642']


def gen_msg_spec(rng):
  r = rng.random()
  if r < 0.5:
    return None
  if r < 0.65:
    return ['empty']
  if r < 0.75:
    return ['ascii', rng.choice([200, 1100, 5000])]
  return ['utf8', rng.randint(0, 4), rng.choice(MSG_CHARS), rng.choice([300, 600, 1500])]


def fault_exception(name, default_text, spec=None):
  cls = EXC_TYPES[name]
  if not spec:
    return cls(default_text)
  if spec[0] == 'empty':
    return cls()
  if spec[0] == 'ascii':
    return cls('E' * int(spec[1]))
  return cls('x' * int(spec[1]) + spec[2] * int(spec[3]))


class StubPolicy(pythia.Policy):
  """Deterministic algorithm with state persisted in study metadata."""

  def __init__(self, controller, supporter, study_config, study_guid):
    self._c = controller
    self._supporter = supporter
    self._cfg = study_config
    self._guid = study_guid

  def suggest(self, request):
    entry = self._c.next_entry()
    if entry.get('sleep'):
      # a slow algorithm (the computation of one study overlaps other clients' calls)
      import time
      time.sleep(float(entry['sleep']))
    md = request.study_config.metadata.ns(STUB_NS)
    n = int(md.get('n', default='0'))
    calls = int(md.get('calls', default='0'))
    trials = None
    if entry.get('read_trials', True):
      trials = self._supporter.GetTrials(study_guid=request.study_guid)
    rec = {'kind': 'suggest', 'count': request.count, 'n': n, 'calls': calls,
           'max_trial_id': request.max_trial_id,
           'seen': None if trials is None else [(t.id, t.status.name) for t in trials]}
    with self._c.lock:
      self._c.log.append(rec)
    if entry.get('raise'):
      raise fault_exception(entry['raise'], f'injected {entry["raise"]}', entry.get('msg'))
    k = max(0, request.count + int(entry.get('delta', 0)))
    suggestions = []
    for i in range(k):
      suggestions.append(vz.TrialSuggestion(parameters=stub_params(n + i)))
    delta = vz.MetadataDelta()
    delta.on_study.ns(STUB_NS)['n'] = str(n + k)
    delta.on_study.ns(STUB_NS)['calls'] = str(calls + 1)
    for ns, key, value in entry.get('study_md', []):
      delta.on_study.ns(ns)[key] = value
    for tid, ns, key, value in entry.get('trial_md', []):
      delta.on_trials[int(tid)].ns(ns)[key] = value
    rec['delivered'] = k
    return pythia.SuggestDecision(suggestions, delta)

  def early_stop(self, request):
    entry = self._c.next_es_entry()
    with self._c.lock:
      self._c.log.append({'kind': 'early_stop', 'trial_ids': sorted(request.trial_ids or [])})
    if entry.get('raise'):
      raise fault_exception(entry['raise'], f'injected {entry["raise"]}', entry.get('msg'))
    decisions = [pythia.EarlyStopDecision(id=t, reason='stub', should_stop=bool(entry.get('stop')))
                 for t in sorted(request.trial_ids or [])]
    return pythia.EarlyStopDecisions(decisions, vz.MetadataDelta())


class _RoutingPolicy(pythia.Policy):
  """suggest -> the named algorithm, early_stop -> the harness algorithm."""

  def __init__(self, suggest_policy, es_policy):
    self._s, self._e = suggest_policy, es_policy

  def suggest(self, request):
    return self._s.suggest(request)

  def early_stop(self, request):
    return self._e.early_stop(request)


class HarnessPolicyFactory(pythia.PolicyFactory):
  """Routes studies whose algorithm is VVSTUB to the harness policy."""

  def __init__(self, controller, custom=None):
    self._c = controller
    self._default = policy_factory_lib.DefaultPolicyFactory()
    self._custom = custom or {}

  def __call__(self, problem_statement, algorithm, policy_supporter, study_name):
    study_algo = getattr(problem_statement, 'algorithm', None)
    if (algorithm == STUB or study_algo == STUB) and self._c.factory_faults:
      f = self._c.factory_faults.popleft()
      if int(f.get('repeat', 1)) > 1:
        self._c.factory_faults.appendleft(dict(f, repeat=int(f['repeat']) - 1))
      self._c.factory_fault_log.append(f)
      # the algorithm cannot even be built: the exception keeps its own type
      # (PythiaServicer only wraps what policy.suggest() raises)
      raise fault_exception(f['raise'], f'injected {f["raise"]} while building the policy ({f.get("site")})',
                            f.get('msg'))
    if algorithm == STUB or study_algo == STUB:
      return StubPolicy(self._c, policy_supporter, problem_statement, study_name)
    if algorithm == 'RANDOM_SEARCH' and study_name in self._c.stub_studies:
      return _RoutingPolicy(
          self._default(problem_statement, algorithm, policy_supporter, study_name),
          StubPolicy(self._c, policy_supporter, problem_statement, study_name))
    if algorithm in self._custom:
      return self._custom[algorithm](problem_statement, policy_supporter, study_name)
    if study_algo in self._custom:
      return self._custom[study_algo](problem_statement, policy_supporter, study_name)
    return self._default(problem_statement, algorithm, policy_supporter, study_name)


# ---------------------------------------------------------------------------
# servicer factory
# ---------------------------------------------------------------------------
def make_servicer(backend='ram', controller=None, monitor=None, custom_policies=None,
                  early_stop_recycle_s=0.0):
  """backend: 'ram' | 'sqlmem' | 'sqlite:////abs/path.db'."""
  import datetime
  if backend == 'ram':
    url = None
  elif backend == 'sqlmem':
    url = 'sqlite:///:memory:'
  else:
    url = backend
  controller = controller or Controller()
  servicer = vizier_service.VizierServicer(
      database_url=url,
      early_stop_recycle_period=datetime.timedelta(seconds=early_stop_recycle_s))
  servicer.default_pythia_service = pythia_service.PythiaServicer(
      vizier_service=servicer,
      policy_factory=HarnessPolicyFactory(controller, custom_policies))
  servicer.vv_controller = controller
  if monitor is not None:
    servicer.datastore = MonitoredDatastore(servicer.datastore, monitor)
  return servicer


def make_split(backend='ram', controller=None, monitor=None):
  """gRPC Vizier server whose algorithms run in a separate Pythia gRPC server."""
  from vizier._src.service import vizier_server
  import datetime
  url = None if backend == 'ram' else ('sqlite:///:memory:' if backend == 'sqlmem' else backend)
  controller = controller or Controller()
  server = vizier_server.DistributedPythiaVizierServer(
      database_url=url, policy_factory=HarnessPolicyFactory(controller),
      early_stop_recycle_period=datetime.timedelta(seconds=0))
  servicer = server._servicer  # pylint: disable=protected-access
  servicer.vv_controller = controller
  if monitor is not None:
    servicer.datastore = MonitoredDatastore(servicer.datastore, monitor)
  return server, servicer


def make_grpc(backend='ram', controller=None, monitor=None):
  """gRPC Vizier server with in-process Pythia."""
  from vizier._src.service import vizier_server
  import datetime
  url = None if backend == 'ram' else ('sqlite:///:memory:' if backend == 'sqlmem' else backend)
  controller = controller or Controller()
  server = vizier_server.DefaultVizierServer(
      database_url=url, policy_factory=HarnessPolicyFactory(controller),
      early_stop_recycle_period=datetime.timedelta(seconds=0))
  servicer = server._servicer  # pylint: disable=protected-access
  servicer.vv_controller = controller
  if monitor is not None:
    servicer.datastore = MonitoredDatastore(servicer.datastore, monitor)
  return server, servicer


def stop_server(server):
  for name in ('_server', '_pythia_server'):
    srv = getattr(server, name, None)
    if srv is not None:
      try:
        srv.stop(0)
      except Exception:  # pylint: disable=broad-except
        pass


# ---------------------------------------------------------------------------
# datastore write monitor
# ---------------------------------------------------------------------------
LEGAL = {
    ('REQUESTED', 'ACTIVE'), ('ACTIVE', 'STOPPING'), ('ACTIVE', 'SUCCEEDED'),
    ('ACTIVE', 'INFEASIBLE'), ('STOPPING', 'SUCCEEDED'), ('STOPPING', 'INFEASIBLE'),
}
COMPLETED = ('SUCCEEDED', 'INFEASIBLE')


class WriteMonitor:
  """Shadow of every stored trial; asserts lifecycle invariants on each write."""

  def __init__(self):
    self.lock = threading.RLock()
    self.shadow = {}          # trial name -> abstract trial as last stored
    self.created_serial = {}  # trial name -> creation ordinal
    self.serial = 0
    self.anomalies = []       # (kind, detail)
    self.transitions = collections.Counter()
    self.writes = 0
    self.completed_rewrites = 0

  def _anomaly(self, kind, detail):
    self.anomalies.append((kind, detail))

  def on_create(self, trial_proto, ids_present):
    with self.lock:
      self.writes += 1
      a = abs_trial(trial_proto)
      self.transitions[f'create:{a["state"]}'] += 1
      if a['state'] not in ('REQUESTED', 'ACTIVE', 'SUCCEEDED'):
        self._anomaly('created-in-illegal-state', {'trial': a['name'], 'state': a['state']})
      try:
        tid = int(a['id'])
      except ValueError:
        tid = None
      if tid is not None and ids_present and tid <= max(ids_present):
        self._anomaly('new-id-not-above-existing', {'trial': a['name'], 'present_max': max(ids_present)})
      self.shadow[a['name']] = a
      self.serial += 1
      self.created_serial[a['name']] = self.serial

  def check_pair(self, old, new, via):
    if old['params'] != new['params'] or old['n_params'] != new['n_params']:
      self._anomaly('parameters-changed', {'trial': new['name'], 'via': via,
                                           'old': old['params'], 'new': new['params']})
    s0, s1 = old['state'], new['state']
    if s0 != s1:
      self.transitions[f'{s0}->{s1}'] += 1
      if (s0, s1) not in LEGAL:
        self._anomaly('illegal-transition', {'trial': new['name'], 'via': via, 'from': s0, 'to': s1})
    else:
      self.transitions[f'{s0}=={s1}'] += 1
    if s0 in COMPLETED:
      self.completed_rewrites += 1
      keys = ('state', 'measurements', 'final', 'infeasible_reason', 'client_id')
      diff = [k for k in keys if old[k] != new[k]]
      if diff:
        self._anomaly('completed-trial-changed', {'trial': new['name'], 'via': via, 'fields': diff,
                                                  'old': {k: old[k] for k in diff},
                                                  'new': {k: new[k] for k in diff}})
    elif s0 == s1 and s0 in ('ACTIVE', 'STOPPING'):
      om, nm = old['measurements'], new['measurements']
      if nm[:len(om)] != om:
        self._anomaly('measurements-not-append-only', {'trial': new['name'], 'via': via})
    if s0 == 'ACTIVE' and s1 == 'ACTIVE' and old['client_id'] and new['client_id'] != old['client_id']:
      self._anomaly('active-trial-changed-owner', {'trial': new['name'], 'via': via,
                                                   'old': old['client_id'], 'new': new['client_id']})

  def on_update(self, trial_proto, via='update_trial'):
    with self.lock:
      self.writes += 1
      new = abs_trial(trial_proto)
      old = self.shadow.get(new['name'])
      if old is not None:
        self.check_pair(old, new, via)
      self.shadow[new['name']] = new

  def on_delete(self, name):
    with self.lock:
      self.writes += 1
      self.shadow.pop(name, None)
      self.transitions['delete'] += 1

  def on_delete_study(self, study):
    with self.lock:
      for k in [k for k in self.shadow if k.startswith(study + '/trials/')]:
        del self.shadow[k]


class MonitoredDatastore:
  """Transparent proxy around a DataStore reporting writes to a WriteMonitor.

  `yield_hook`, when set, is called on entry of every datastore method (used by
  the controlled scheduler of C04 as a pre-emption point).
  """

  def __init__(self, inner, monitor, yield_hook=None):
    self._inner = inner
    self._mon = monitor
    self._yield = yield_hook

  def __getattr__(self, name):
    attr = getattr(self._inner, name)
    if not callable(attr) or name.startswith('_'):
      return attr
    hook = self._yield

    def call(*a, **kw):
      if hook is not None:
        hook(name)
      return attr(*a, **kw)
    return call

  def create_trial(self, trial):
    if self._yield is not None:
      self._yield('create_trial')
    study = trial.name.rsplit('/trials/', 1)[0]
    with self._mon.lock:
      ids = [int(k.rsplit('/', 1)[1]) for k in self._mon.shadow if k.startswith(study + '/trials/')]
      out = self._inner.create_trial(trial)
      self._mon.on_create(trial, ids)
    return out

  def update_trial(self, trial):
    if self._yield is not None:
      self._yield('update_trial')
    with self._mon.lock:
      out = self._inner.update_trial(trial)
      self._mon.on_update(trial)
    return out

  def delete_trial(self, name):
    if self._yield is not None:
      self._yield('delete_trial')
    with self._mon.lock:
      out = self._inner.delete_trial(name)
      self._mon.on_delete(name)
    return out

  def delete_study(self, name):
    if self._yield is not None:
      self._yield('delete_study')
    with self._mon.lock:
      out = self._inner.delete_study(name)
      self._mon.on_delete_study(name)
    return out

  def update_metadata(self, study_name_, study_metadata, trial_metadata):
    if self._yield is not None:
      self._yield('update_metadata')
    trial_metadata = list(trial_metadata)
    study_metadata = list(study_metadata)
    with self._mon.lock:
      try:
        return self._inner.update_metadata(study_name_, study_metadata, trial_metadata)
      finally:
        # re-read every trial we shadow for that study: only metadata may differ
        for name in [k for k in self._mon.shadow if k.startswith(study_name_ + '/trials/')]:
          try:
            t = self._inner.get_trial(name)
          except Exception:  # pylint: disable=broad-except
            continue
          self._mon.on_update(t, via='update_metadata')


# ---------------------------------------------------------------------------
# snapshots
# ---------------------------------------------------------------------------
def snapshot(servicer, owners):
  """Abstract view of everything stored for the given owners (through RPCs)."""
  out = {}
  for o in sorted(owners):
    try:
      studies = servicer.ListStudies(vsp.ListStudiesRequest(parent=owner_name(o))).studies
    except Exception as e:  # pylint: disable=broad-except
      out[o] = classify_exception(e)
      continue
    od = {}
    for s in studies:
      try:
        trials = servicer.ListTrials(vsp.ListTrialsRequest(parent=s.name)).trials
        tl = [abs_trial(t) for t in trials]
      except Exception as e:  # pylint: disable=broad-except
        tl = 'ListTrials:' + classify_exception(e)
      od[s.name] = {'study': abs_study(s), 'trials': tl}
    out[o] = od
  return out


# ---------------------------------------------------------------------------
# committed == visible (SQLite file backends)
# ---------------------------------------------------------------------------
def table_dump(conn_execute):
  """{table: sorted rows} through `conn_execute(sql) -> rows`."""
  out = {}
  names = [r[0] for r in conn_execute("SELECT name FROM sqlite_master WHERE type='table' ORDER BY name")]
  for t in names:
    rows = conn_execute(f'SELECT * FROM "{t}"')
    out[t] = sorted(tuple(bytes(c) if isinstance(c, (bytes, memoryview)) else c for c in r) for r in rows)
  return out


def uncommitted_writes(servicer, db_path):
  """Tables whose content as seen by the server's own connection differs from what
  a second connection to the same file (i.e. a restarted server, another process)
  sees. After a call has been answered there must be none: an acknowledged change
  that is still pending on the connection is lost by a crash or by the next
  rollback. Returns a list of 'table: n_own vs n_committed rows' strings."""
  import sqlite3
  inner = getattr(servicer.datastore, '_inner', servicer.datastore)
  conn = inner._connection
  own = table_dump(lambda q: conn.exec_driver_sql(q).fetchall())
  other = sqlite3.connect(db_path, timeout=5)
  try:
    committed = table_dump(lambda q: other.execute(q).fetchall())
  finally:
    other.close()
  diffs = []
  for t in sorted(set(own) | set(committed)):
    a, b = own.get(t), committed.get(t)
    if a != b:
      n_diff = len(set(a or []) ^ set(b or []))
      diffs.append(f'{t}: {len(a or [])} rows visible to the server, {len(b or [])} committed, {n_diff} rows differ')
  return diffs
