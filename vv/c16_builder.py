"""C16 family 'builder': accept / reject table of the definition builders.

An *op* is {'builder': ..., 'cls': ..., 'args': {...}} (python values; encoded
with c16_util.enc for replay). Validity is decided by `is_valid(op)` from the
arguments alone. Every op runs against a fresh space that already contains
  'existing'  DOUBLE [0,1]
  'par'       CATEGORICAL ['u','v']  with child 'kid' (INTEGER 1..3) under 'u'
"""
import math

from vv.c16_util import enc, dec

INF, NAN = float('inf'), float('nan')
EXISTING = ['existing', 'par']


def _fin(x):
  return isinstance(x, (int, float)) and not isinstance(x, bool) and math.isfinite(x)


def _name(rng, cls):
  if cls == 'empty-name':
    return ''
  if cls == 'dup-name':
    return rng.choice(EXISTING)
  return rng.choice(['x', 'lr', 'é', 'a b', 'A.b', 'n_1']) + str(rng.randint(0, 99))


CLASSES = {
    'float': ['ok', 'ints', 'singleton', 'neg', 'huge', 'indexed', 'with-default',
              'empty-name', 'dup-name', 'reversed', 'lo-inf', 'hi-inf', 'lo-neginf', 'lo-nan',
              'hi-nan', 'neg-index', 'reversed-by-ulp'],
    'int': ['ok', 'singleton', 'neg', 'integral-floats', 'indexed', 'empty-name', 'dup-name',
            'reversed', 'lo-inf', 'hi-inf', 'hi-nan', 'fractional', 'neg-index'],
    'discrete': ['ok-unsorted', 'ints', 'mixed', 'single', 'tuple', 'no-autocast', 'indexed',
                 'empty-name', 'dup-name', 'dup-values', 'dup-int-float', 'inf', 'nan',
                 'neg-index'],
    'categorical': ['ok-unsorted', 'single', 'unicode', 'indexed', 'empty-name', 'dup-name',
                    'dup-values', 'non-str', 'neg-index'],
    'bool': ['default', 'tf', 'ft', 't', 'f', 'indexed', 'empty-name', 'dup-name',
             'dup-values', 'non-bool', 'neg-index'],
    'factory': ['int-bounds', 'float-bounds', 'numeric-feasible', 'str-feasible',
                'children-int', 'children-cat', 'children-discrete', 'empty-name', 'both',
                'mixed-bounds', 'mixed-feasible', 'reversed', 'nonfinite-bounds',
                'nonfinite-feasible', 'dup-feasible', 'children-under-double'],
    'select': ['under-int', 'under-cat', 'under-bool', 'under-discrete', 'under-double',
               'under-double-select_values'],
    'space-add': ['fresh', 'dup', 'dup-replace', 'dup-in-child-subspace',
                  'same-name-sibling-subspaces'],
}


def gen_op(rng, builder=None, cls=None):
  b = builder or rng.choice(list(CLASSES))
  c = cls or rng.choice(CLASSES[b])
  a = {'name': _name(rng, c), 'index': None}
  if c == 'indexed':
    a['index'] = rng.choice([0, 1, 2, 10, 11])
  if c == 'neg-index':
    a['index'] = -rng.randint(1, 3)
  if b == 'float':
    lo = rng.uniform(-50, 50)
    hi = lo + rng.uniform(0.01, 100)
    if c == 'ints':
      lo, hi = rng.randint(-5, 5), rng.randint(6, 20)
    elif c == 'singleton':
      hi = lo
    elif c == 'neg':
      lo, hi = -rng.uniform(10, 100), -rng.uniform(0.1, 9)
    elif c == 'huge':
      lo, hi = -1e300, 1e300
    elif c == 'reversed':
      lo, hi = hi, lo
    elif c == 'reversed-by-ulp':
      lo = math.nextafter(hi, INF)
    elif c == 'lo-inf':
      lo = INF
    elif c == 'lo-neginf':
      lo = -INF
    elif c == 'hi-inf':
      hi = INF
    elif c == 'lo-nan':
      lo = NAN
    elif c == 'hi-nan':
      hi = NAN
    a.update(lo=lo, hi=hi)
    if c == 'with-default':
      a['default'] = rng.choice([lo, hi, (lo + hi) / 2])
  elif b == 'int':
    lo = rng.randint(-20, 20)
    hi = lo + rng.randint(1, 50)
    if c == 'singleton':
      hi = lo
    elif c == 'neg':
      hi = -rng.randint(1, 5)
      lo = hi - rng.randint(1, 9)
    elif c == 'integral-floats':
      lo, hi = float(lo), float(hi)
    elif c == 'reversed':
      lo, hi = hi, lo
    elif c == 'lo-inf':
      lo = rng.choice([INF, -INF])
    elif c == 'hi-inf':
      hi = INF
    elif c == 'hi-nan':
      hi = NAN
    elif c == 'fractional':
      if rng.random() < 0.5:
        lo = lo + 0.5
      else:
        hi = hi + 0.25
    a.update(lo=lo, hi=hi)
  elif b == 'discrete':
    n = rng.randint(2, 6)
    vals = rng.sample([x / 4 for x in range(-20, 41)], n)
    a['auto_cast'] = True
    if c == 'ints':
      vals = rng.sample(range(-10, 30), n)
    elif c == 'mixed':
      vals = [int(v) if float(v).is_integer() else v for v in vals] + [100]
    elif c == 'single':
      vals = [rng.choice([0.0, 3, -2.5])]
    elif c == 'tuple':
      vals = tuple(vals)
    elif c == 'no-autocast':
      vals = [float(v) for v in rng.sample(range(-5, 9), n)]
      a['auto_cast'] = False
    elif c == 'dup-values':
      vals = vals + [vals[0]]
      rng.shuffle(vals)
    elif c == 'dup-int-float':
      vals = [1, 2.5, 1.0]
    elif c == 'inf':
      vals = vals + [rng.choice([INF, -INF])]
      a['auto_cast'] = rng.random() < 0.5
    elif c == 'nan':
      vals = vals + [NAN]
      a['auto_cast'] = rng.random() < 0.5
    a['values'] = vals
  elif b == 'categorical':
    pool = ['a', 'b', 'c', 'dd', 'True', 'False', '1', 'x y', 'Z', '0.5']
    vals = rng.sample(pool, rng.randint(2, 5))
    if c == 'single':
      vals = [rng.choice(pool)]
    elif c == 'unicode':
      vals = rng.sample(['é', 'é', 'ß', '日本', 'a'], 3)
    elif c == 'dup-values':
      vals = vals + [vals[-1]]
      rng.shuffle(vals)
    elif c == 'non-str':
      vals = vals + [rng.choice([1, 2.5, True])]
    a['values'] = vals
  elif b == 'bool':
    a['values'] = {'default': None, 'tf': (True, False), 'ft': [False, True], 't': (True,),
                   'f': [False], 'dup-values': (True, True),
                   'non-bool': rng.choice([('True',), ('yes', 'no'), (True, False, True), ()])
                   }.get(c, None)
  elif b == 'factory':
    lo = rng.randint(-9, 9)
    hi = lo + rng.randint(0, 9)
    fv = rng.sample([x / 2 for x in range(-8, 17)], rng.randint(1, 5))
    sv = rng.sample(['a', 'b', 'c', 'dd', 'Z'], rng.randint(1, 4))
    a.update(bounds=None, feasible=None, children=None)
    if c in ('int-bounds', 'children-int', 'empty-name'):
      a['bounds'] = (lo, hi)
    elif c in ('float-bounds', 'children-under-double'):
      a['bounds'] = (float(lo), float(hi))
    elif c in ('numeric-feasible', 'children-discrete'):
      a['feasible'] = fv
    elif c in ('str-feasible', 'children-cat'):
      a['feasible'] = sv
    elif c == 'both':
      a['bounds'], a['feasible'] = (lo, hi), fv
    elif c == 'mixed-bounds':
      a['bounds'] = rng.choice([(lo, float(hi)), (float(lo), hi)])
    elif c == 'mixed-feasible':
      a['feasible'] = fv + ['a']
    elif c == 'reversed':
      a['bounds'] = rng.choice([(hi + 1, lo), (float(hi + 1), float(lo))])
    elif c == 'nonfinite-bounds':
      a['bounds'] = rng.choice([(float(lo), INF), (-INF, float(hi)), (NAN, float(hi))])
    elif c == 'nonfinite-feasible':
      a['feasible'] = fv + [rng.choice([INF, NAN])]
    elif c == 'dup-feasible':
      a['feasible'] = rng.choice([fv + [fv[0]], sv + [sv[0]]])
    if c.startswith('children'):
      if a['bounds'] is not None:
        dom = [a['bounds'][0], a['bounds'][1]]
      else:
        dom = list(a['feasible'])
      k = rng.randint(1, min(2, len(set(dom))))
      a['children'] = sorted(set(dom), key=repr)[:k]
  elif b == 'select':
    a['parent'] = {'under-int': 'pi', 'under-cat': 'par', 'under-bool': 'pb',
                   'under-discrete': 'pq'}.get(c, 'existing')
    a['value'] = {'under-int': rng.choice([1, 2, 2.0]), 'under-cat': rng.choice(['u', 'v']),
                  'under-bool': rng.choice([True, 'True', 'False']),
                  'under-discrete': rng.choice([1, 2.5, 1.0])}.get(c, rng.choice([0.5, 0.0, 1.0]))
  elif b == 'space-add':
    a['name'] = {'fresh': a['name'], 'dup': 'existing', 'dup-replace': 'existing',
                 'dup-in-child-subspace': 'kid', 'same-name-sibling-subspaces': 'kid'}[c]
  return {'builder': b, 'cls': c, 'args': a}


def final_name(a):
  if a.get('index') is not None:
    return f'{a["name"]}[{a["index"]}]'
  return a['name']


def is_valid(op):
  """Independent validity predicate (from the property text + documented Raises)."""
  b, a = op['builder'], op['args']
  if b in ('float', 'int', 'discrete', 'categorical', 'bool'):
    if not a['name']:
      return False
    if a.get('index') is not None and a['index'] < 0:
      return False
    if final_name(a) in EXISTING:
      return False
  if b == 'float':
    return _fin(a['lo']) and _fin(a['hi']) and a['lo'] <= a['hi']
  if b == 'int':
    return (_fin(a['lo']) and _fin(a['hi']) and float(a['lo']).is_integer()
            and float(a['hi']).is_integer() and a['lo'] <= a['hi'])
  if b == 'discrete':
    vs = list(a['values'])
    return all(_fin(v) for v in vs) and len({float(v) for v in vs}) == len(vs)
  if b == 'categorical':
    vs = list(a['values'])
    return all(isinstance(v, str) for v in vs) and len(set(vs)) == len(vs)
  if b == 'bool':
    v = a['values']
    return v is None or (len(v) in (1, 2) and all(isinstance(x, bool) for x in v)
                         and len(set(v)) == len(v))
  if b == 'factory':
    if not a['name']:
      return False
    bd, fv = a['bounds'], a['feasible']
    if bd is not None and fv is not None:
      return False
    if bd is not None:
      lo, hi = bd
      if not (_fin(lo) and _fin(hi)) or type(lo) is not type(hi) or lo > hi:
        return False
      if a['children'] and isinstance(lo, float):
        return False
      return True
    if all(isinstance(v, str) for v in fv):
      return len(set(fv)) == len(fv)
    if all(_fin(v) for v in fv):
      return len({float(v) for v in fv}) == len(fv)
    return False
  if b == 'select':
    return a['parent'] != 'existing'
  if b == 'space-add':
    return op['cls'] in ('fresh', 'dup-replace', 'same-name-sibling-subspaces')
  raise ValueError(b)


def _base_space():
  from vizier import pyvizier as vz
  s = vz.SearchSpace()
  r = s.root
  r.add_float_param('existing', 0.0, 1.0)
  r.add_categorical_param('par', ['u', 'v'])
  r.select('par', ['u']).add_int_param('kid', 1, 3)
  return s


def _snapshot(space):
  out = []
  for pc in space.parameters:
    for q in pc.traverse(show_children=False):
      out.append((q.name, q.type.name, tuple(q.matching_parent_values)))
  return sorted(map(repr, out))


def _norm_problems(pc, op):
  """List of (aspect, detail) where the accepted definition is not normalised."""
  from vizier import pyvizier as vz
  b, a = op['builder'], op['args']
  T = vz.ParameterType
  bad = []
  want_name = final_name(a)
  if pc.name != want_name:
    bad.append(('name', f'{pc.name!r} != {want_name!r}'))
  kind = None
  if b == 'float' or (b == 'factory' and a['bounds'] and isinstance(a['bounds'][0], float)):
    kind = 'DOUBLE'
  elif b == 'int' or (b == 'factory' and a['bounds']):
    kind = 'INTEGER'
  elif b == 'discrete' or (b == 'factory' and not isinstance(a['feasible'][0], str)):
    kind = 'DISCRETE'
  else:
    kind = 'CATEGORICAL'
  if pc.type != getattr(T, kind):
    bad.append(('inferred-type', f'{pc.type} != {kind}'))
    return bad
  if kind in ('DOUBLE', 'INTEGER'):
    lo, hi = (a['lo'], a['hi']) if b != 'factory' else a['bounds']
    bd = pc.bounds
    want_t = float if kind == 'DOUBLE' else int
    if not (isinstance(bd, tuple) and len(bd) == 2):
      bad.append(('bounds-shape', repr(bd)))
    elif not (bd[0] == lo and bd[1] == hi):
      bad.append(('bounds-value', f'{bd} != ({lo}, {hi})'))
    elif not all(isinstance(x, want_t) and not isinstance(x, bool) for x in bd):
      bad.append(('bounds-type', f'{[type(x).__name__ for x in bd]} for {kind}'))
    elif not (math.isfinite(bd[0]) and math.isfinite(bd[1]) and bd[0] <= bd[1]):
      bad.append(('bounds-order', repr(bd)))
  else:
    if b == 'bool':
      given = ['True', 'False'] if a['values'] is None else [
          'True' if x else 'False' for x in a['values']]
      if pc.external_type != vz.ExternalType.BOOLEAN:
        bad.append(('bool-external-type', str(pc.external_type)))
    else:
      given = list(a['values'] if b != 'factory' else a['feasible'])
    fv = list(pc.feasible_values)
    want = sorted(given)
    if len(fv) != len(set(fv)):
      bad.append(('feasible-duplicates', repr(fv)))
    elif any(not (x < y) for x, y in zip(fv, fv[1:])):
      bad.append(('feasible-unsorted', repr(fv)))
    elif fv != want:
      bad.append(('feasible-set', f'{fv} != {want}'))
    if kind == 'DISCRETE' and not bad:
      if tuple(pc.bounds) != (want[0], want[-1]):
        bad.append(('discrete-bounds', f'{pc.bounds} != ({want[0]}, {want[-1]})'))
  if a.get('default') is not None and pc.default_value != a['default']:
    bad.append(('default', f'{pc.default_value} != {a["default"]}'))
  return bad


def _run(op, space):
  """Executes the op; returns the created/selected ParameterConfig (or None)."""
  from vizier import pyvizier as vz
  b, a, c = op['builder'], op['args'], op['cls']
  r = space.root
  kw = {}
  if a.get('index') is not None:
    kw['index'] = a['index']
  if b == 'float':
    if a.get('default') is not None:
      kw['default_value'] = a['default']
    sel = r.add_float_param(a['name'], a['lo'], a['hi'], **kw)
  elif b == 'int':
    sel = r.add_int_param(a['name'], a['lo'], a['hi'], **kw)
  elif b == 'discrete':
    sel = r.add_discrete_param(a['name'], a['values'], auto_cast=a['auto_cast'], **kw)
  elif b == 'categorical':
    sel = r.add_categorical_param(a['name'], a['values'], **kw)
  elif b == 'bool':
    sel = r.add_bool_param(a['name'], a['values'], **kw)
  elif b == 'factory':
    children = None
    if a['children']:
      kid = vz.ParameterConfig.factory('kid2', bounds=(0.0, 1.0))
      children = [(list(a['children']), kid)]
    return vz.ParameterConfig.factory(a['name'], bounds=a['bounds'],
                                      feasible_values=a['feasible'], children=children)
  elif b == 'select':
    r.add_int_param('pi', 1, 3)
    r.add_bool_param('pb')
    r.add_discrete_param('pq', [1, 2.5])
    if c == 'under-double-select_values':
      sub = r.select(a['parent']).select_values([a['value']])
    else:
      sub = r.select(a['parent'], [a['value']])
    sub.add_float_param('newkid', 0.0, 1.0)
    return space.get(a['parent'])
  elif b == 'space-add':
    new = vz.ParameterConfig.factory(a['name'], bounds=(5, 9))
    if c in ('fresh', 'dup'):
      space.add(new)
    elif c == 'dup-replace':
      space.add(new, replace=True)
    elif c == 'dup-in-child-subspace':
      r.select('par', ['u']).add_float_param('kid', 0.0, 1.0)
    else:
      r.select('par', ['v']).add_float_param('kid', 0.0, 1.0)
    return new
  sel = list(sel)
  if len(sel) != 1:
    raise AssertionError(f'selector returned {len(sel)} configs')
  return sel[0]


def exec_builder(ctx, op):
  from vizier import pyvizier as vz
  b, c, a = op['builder'], op['cls'], op['args']
  case = {'family': 'builder', 'op': {'builder': b, 'cls': c, 'args': enc(a)}}
  valid = is_valid(op)
  ctx.case(['builder', b, c, valid], True)
  space = _base_space()
  before = _snapshot(space)
  try:
    pc = _run(op, space)
    err = None
  except Exception as e:  # pylint: disable=broad-except
    pc, err = None, e
  ctx.count('definitions_checked')
  if not valid:
    if err is None:
      ctx.violation(f'builder:accepted-invalid:{b}:{c}',
                    f'{b} builder accepted an invalid definition ({c}): {a!r}', case)
      return
    ctx.count('invalid_definitions_rejected')
    if not isinstance(err, (ValueError, TypeError)):
      ctx.count(f'rejected_with_unusual_exception:{b}:{c}:{type(err).__name__}')
    if b != 'select' and b != 'factory':
      if _snapshot(space) != before:
        ctx.violation(f'builder:rejected-but-space-changed:{b}:{c}',
                      'the definition was rejected but the space changed', case,
                      {'before': before, 'after': _snapshot(space)})
    if b == 'select' and space.is_conditional and any(
        p.name == 'existing' and p.child_parameter_configs for p in space.parameters):
      ctx.violation('builder:child-added-under-double', 'a DOUBLE parameter got a child', case)
    return
  if err is not None:
    ctx.violation(f'builder:rejected-valid:{b}:{c}:{type(err).__name__}',
                  f'{b} builder rejected a valid definition ({c}): {type(err).__name__}: {err}',
                  case)
    return
  ctx.count('valid_definitions_accepted')
  if b == 'select':
    kids = [k.name for k in pc.child_parameter_configs]
    ctx.count('children_added_checked')
    if kids.count('newkid') != 1:
      ctx.violation(f'builder:child-not-attached:{c}', f'children {kids}', case)
    return
  if b == 'space-add':
    names = [p.name for p in space.parameters]
    ctx.count('space_add_checked')
    if c in ('fresh', 'dup-replace'):
      if names.count(a['name']) != 1 or space.get(a['name']).type != vz.ParameterType.INTEGER:
        ctx.violation(f'builder:space-add-not-applied:{c}', f'names {names}', case)
    else:
      got = sorted((k.name, tuple(k.matching_parent_values))
                   for k in space.get('par').child_parameter_configs)
      if got != [('kid', ('u',)), ('kid', ('v',))]:
        ctx.violation('builder:sibling-subspace-child-lost', repr(got), case)
    return
  if b != 'factory':
    names = [p.name for p in space.parameters]
    if names.count(final_name(a)) != 1 or len(names) != len(EXISTING) + 1:
      ctx.violation(f'builder:not-added-once:{b}', f'names after add: {names}', case)
      return
  for aspect, detail in _norm_problems(pc, op):
    ctx.violation(f'builder:not-normalised:{b}:{aspect}',
                  f'{b}({c}) accepted but not normalised: {aspect}: {detail}', case)
  ctx.count('normalisations_checked')
  if b == 'factory' and a['children']:
    ctx.count('factory_children_checked')
    kids = pc.child_parameter_configs
    if len(kids) != len(a['children']) or any(k.name != 'kid2' for k in kids):
      ctx.violation('builder:factory-children-lost', f'{[k.name for k in kids]}', case)


def replay_builder(ctx, case):
  o = case['op']
  exec_builder(ctx, {'builder': o['builder'], 'cls': o['cls'], 'args': dec(o['args'])})
