"""Boot self-test: proto hook serves all five files, a servicer answers an RPC."""
import sys
import vv.boot  # noqa
from vizier._src.service import (key_value_pb2, study_pb2, vizier_oss_pb2,  # noqa
                                 vizier_service_pb2, pythia_service_pb2,
                                 vizier_service_pb2_grpc, pythia_service_pb2_grpc)
from vizier._src.service import vizier_service
from vizier.service import pyvizier as vz

s = vizier_service.VizierServicer(database_url='sqlite:///:memory:')
cfg = vz.StudyConfig(algorithm='RANDOM_SEARCH')
cfg.search_space.root.add_float_param('x', 0.0, 1.0)
cfg.metric_information.append(vz.MetricInformation('obj', goal=vz.ObjectiveMetricGoal.MAXIMIZE))
st = s.CreateStudy(vizier_service_pb2.CreateStudyRequest(
    parent='owners/o', study=study_pb2.Study(display_name='d', study_spec=cfg.to_proto())))
op = s.SuggestTrials(vizier_service_pb2.SuggestTrialsRequest(parent=st.name, suggestion_count=1, client_id='w'))
assert op.done, op
import icontract, deal  # noqa
print('selftest ok')
