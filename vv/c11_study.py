"""C11 helper: study histories -> optimal trials, against the literal definition.

A history spec is JSON-able:

  {'kind': 'history', 'goals': ['MAX','MIN',..], 'names': [objective metric names],
   'safeties': [{'name','goal','thr'}, ...]   (0..3 safety metrics),
   'cfg': [every configured metric name, in the order of the study configuration],
   'trials': [{'k': kind, 'v': [float|None per objective] | None,
               'ss': [float|None per safety metric],
               'ord': [metric names in the order this trial reports them] (optional),
               'zn'/'zz': name / value of an unconfigured metric, 'near': {name: value}
               unconfigured metrics whose names nearly match a configured one}, ...],
   'mode': 'direct' | 'rpc', 'count': None | int, 'index': j}

(the older form with 'safety': None | {'goal','thr'} and a per trial 's' is still
accepted, see norm_spec.) Metrics are identified by *name*: neither the order in
which a trial lists its metrics, nor the order / spelling of the names in the
study configuration, nor unconfigured metrics may change the answer.

kinds: ok, extra (ok + an unconfigured metric), missing (SUCCEEDED but an
objective metric absent), nan (SUCCEEDED, an objective is NaN), infeasible
(with or without a measurement), active, stopping, requested.
"""
import math

KINDS = ['ok', 'extra', 'missing', 'nan', 'infeasible', 'active', 'stopping', 'requested']
QUALIFYING = ('ok', 'extra')
STATE_OF = {'ok': 'SUCCEEDED', 'extra': 'SUCCEEDED', 'missing': 'SUCCEEDED',
            'nan': 'SUCCEEDED', 'infeasible': 'INFEASIBLE', 'active': 'ACTIVE',
            'stopping': 'STOPPING', 'requested': 'REQUESTED'}
INF = float('inf')


def _f(x):
  return None if x is None else float(x)


# ---------------------------------------------------------------------------
# generator
# ---------------------------------------------------------------------------
NAME_SETS = [
    # (objective names, safety names); within a set all names are distinct
    (['m0', 'm1', 'm2'], ['s', 's1', 's2']),
    (['zeta', 'alpha', 'mid'], ['temp', 'margin', 'a_limit']),   # config order != sorted
    (['b', 'a', 'ab'], ['ba', 'B', 'z']),                        # prefixes, case
    (['loss', 'Loss', 'acc'], ['zz_safe', 'loss_limit', 'ACC']),  # differ by case only
]


def near_names(configured, name):
  """Unconfigured metric names that nearly match the configured `name`."""
  cand = [name + '_', name.swapcase(), name[:-1], name + '0', ' ' + name]
  return [c for c in cand if c and c.strip() and c not in configured]


def canonical_cfg(spec):
  return list(spec['names']) + [s['name'] for s in spec['safeties']]


def norm_spec(spec):
  """Older recorded cases (single 'safety', per trial 's') -> current form."""
  if 'safeties' in spec and 'names' in spec and 'cfg' in spec:
    return spec
  spec = dict(spec)
  spec.setdefault('names', [f'm{i}' for i in range(len(spec['goals']))])
  if 'safeties' not in spec:
    old = spec.get('safety')
    spec['safeties'] = [dict(old, name='s')] if old else []
  trials = []
  for t in spec['trials']:
    t = dict(t)
    if 'ss' not in t:
      t['ss'] = [t.get('s')] if spec['safeties'] else []
    trials.append(t)
  spec['trials'] = trials
  spec.setdefault('cfg', canonical_cfg(spec))
  return spec


def gen_history(rng, tier, j):
  n_obj = rng.choice([1, 1, 2, 2, 2, 3])
  goals = [rng.choice(['MAX', 'MIN']) for _ in range(n_obj)]
  obj_names, saf_names = NAME_SETS[rng.choice([0, 0, 1, 2, 3])]
  names = list(obj_names[:n_obj])
  if rng.random() < 0.3:
    rng.shuffle(names)
  n_saf = rng.choice([0] * 14 + [1, 1, 2, 2, 2, 3])
  safeties = [{'name': saf_names[i], 'goal': rng.choice(['MAX', 'MIN']),
               'thr': rng.choice([1.0, 1.0, 1.0, 0.0, 2.0, 0.5])} for i in range(n_saf)]
  cfg = names + [s['name'] for s in safeties]
  if rng.random() < 0.5:
    rng.shuffle(cfg)        # e.g. a safety metric configured before / between objectives
  p_report = rng.choice([1.0, 0.85, 0.85, 0.6])
  hi = 14 if tier == 'quick' else 24
  n = rng.choice([0, 1, 1, 2, 2, 3, 3, 4, 5, 6, 7, 8, 10, 12, hi])
  profile = rng.choice(['clean', 'mixed', 'mixed', 'hostile', 'none-qualify'])
  lattice = rng.choice([1, 2, 2, 3])
  # value profile of the history: small integers, or values that differ from each
  # other by far less than their magnitude / than any "defensive" tolerance (near
  # ties: close is not equal, the definition compares numbers exactly). All but
  # 'f64' are exactly representable in float32 (GetBestTrials computes in float32).
  vprof = rng.choice(['lattice', 'lattice', 'lattice', 'lattice', 'near-large', 'near-large',
                      'near-one', 'near-one', 'tiny', 'f64'])
  bases, step = value_profile(rng, vprof, n_obj)
  # how trials list their metrics: all in configuration order / all in one other
  # order / every trial in its own order (two generations of a training script)
  order_profile = rng.choice(['config', 'config', 'consistent', 'shuffled', 'shuffled',
                              'shuffled'])

  def val(d):
    if rng.random() < 0.06:
      return rng.choice([INF, -INF])
    if vprof == 'tiny':
      return rng.randint(-lattice, lattice) * step
    return bases[d] + rng.randint(0, lattice) * step

  def tempting():
    # at least as good as anything val() produces (for the near-tie profiles: only
    # just better)
    if vprof == 'lattice':
      return [(3.0 if g == 'MAX' else -3.0) for g in goals]
    return [b + ((lattice + 1) * step if g == 'MAX' else -(lattice + 1) * step)
            for g, b in zip(goals, bases)]

  def violates(t):
    for s, x in zip(safeties, t['ss']):
      if x is not None and not (x >= s['thr'] if s['goal'] == 'MAX' else x <= s['thr']):
        return True
    return False

  trials = []
  for _ in range(n):
    if profile == 'clean':
      k = 'ok'
    elif profile == 'mixed':
      k = rng.choice(['ok'] * 6 + ['extra', 'missing', 'nan', 'infeasible', 'active',
                                   'stopping', 'requested'])
    elif profile == 'hostile':
      k = rng.choice(['ok', 'ok'] + KINDS)
    else:
      k = rng.choice(KINDS[2:])
    t = {'k': k, 'v': None, 'ss': [None] * n_saf}
    if k in ('ok', 'extra', 'missing', 'nan') or (
        k in ('infeasible', 'active', 'stopping') and rng.random() < 0.6):
      # non-qualifying trials get tempting values: at least as good as anything
      t['v'] = [val(d) for d in range(n_obj)]
      if k in ('infeasible', 'active', 'stopping', 'missing', 'nan') and rng.random() < 0.5:
        t['v'] = tempting()
      t['ss'] = [float(rng.randint(0, 2)) if rng.random() < p_report else None
                 for _ in safeties]
      if vprof != 'lattice':
        # safety values within a hair of their threshold (on it / just within / just
        # beyond); 2**-20 steps (2**-40 at 0) are float32-exact next to thresholds 0.5, 1, 2
        t['ss'] = [x if x is None or rng.random() < 0.4
                   else s['thr'] + rng.randint(-1, 1) * (2.0 ** -20 if s['thr'] else 2.0 ** -40)
                   for s, x in zip(safeties, t['ss'])]
      if k in ('ok', 'extra') and violates(t) and rng.random() < 0.4:
        # so do trials that break a safety threshold: whether they are seen as
        # unsafe then decides the answer
        t['v'] = tempting()
    if k == 'extra':
      # the unconfigured metric may itself be not-a-number / infinite (a diverged
      # auxiliary loss): it must not disqualify a trial that reports every
      # configured metric as a number. 'extra' trials also get tempting values.
      t['zz'] = rng.choice(['7.0', 'nan', 'nan', 'inf', '-inf', '0.0'])
      if rng.random() < 0.4:
        t['zn'] = rng.choice(near_names(cfg, rng.choice(cfg)))
      if rng.random() < 0.5:
        t['v'] = tempting()
    if k == 'missing':
      drop = rng.sample(range(n_obj), rng.randint(1, max(1, n_obj - 1)))
      for d in drop:
        t['v'][d] = None
        if rng.random() < 0.4:
          # the absent objective is "almost" there: reported under a similar name
          t.setdefault('near', {})[rng.choice(near_names(cfg, names[d]))] = (
              3.0 if goals[d] == 'MAX' else -3.0)
    if k == 'nan':
      for d in rng.sample(range(n_obj), rng.randint(1, n_obj)):
        t['v'][d] = float('nan')
    trials.append(t)
  if profile != 'none-qualify' and n >= 2 and rng.random() < 0.3:
    # an exact duplicate of a qualifying trial (ties on every coordinate)
    oks = [t for t in trials if t['k'] == 'ok']
    if oks:
      src = rng.choice(oks)
      trials[rng.randrange(n)] = {'k': 'ok', 'v': list(src['v']), 'ss': list(src['ss'])}
  spec = {'kind': 'history', 'goals': goals, 'names': names, 'safeties': safeties,
          'cfg': cfg, 'trials': trials, 'order_profile': order_profile, 'vprof': vprof,
          'mode': 'rpc' if j % 4 == 0 else 'direct',
          'count': rng.choice([None, None, None, 1, 2, 3, 5]), 'index': j}
  # reporting order of every trial
  if order_profile != 'config':
    common = None
    for t in trials:
      reported = list(_metrics(spec, dict(t, ord=None)))
      if order_profile == 'consistent':
        if common is None:
          pool = list(cfg) + ['\x00other']
          rng.shuffle(pool)
          common = {name: r for r, name in enumerate(pool)}
        reported.sort(key=lambda name: common.get(name, common['\x00other']))
      else:
        rng.shuffle(reported)
      t['ord'] = reported
  return spec


def value_profile(rng, vprof, n_obj):
  """(base value per objective, step between neighbouring values)."""
  if vprof == 'near-large':     # e.g. a latency in ns: unit steps on ~1e6
    return [rng.choice([2.0 ** 20, -2.0 ** 20, 2.0 ** 22, 1000000.0])
            for _ in range(n_obj)], 1.0
  if vprof == 'near-one':       # e.g. accuracies agreeing in the first 6 digits
    return [rng.choice([1.0, -1.0, 0.5, 2.0, -0.75]) for _ in range(n_obj)], 2.0 ** -20
  if vprof == 'tiny':           # several values far below 1e-8, both signs and zero
    return [0.0] * n_obj, 2.0 ** -40
  if vprof == 'f64':            # distinctions only float64 can hold
    return [rng.choice([1.0, -1.0, 1000000.0, 0.1]) for _ in range(n_obj)], 2.0 ** -30
  return [0.0] * n_obj, 1.0


def float32_exact(spec):
  import numpy as np
  for t in spec['trials']:
    for x in list(t['v'] or []) + list(t['ss']):
      if x is not None and x == x and float(np.float32(x)) != float(x):
        return False
  return True


def near(a, b):
  """Different numbers that a tolerance of ~1e-4 relative / 1e-7 absolute would
  take for equal."""
  if a == b or a != a or b != b or math.isinf(a) or math.isinf(b):
    return False
  return abs(a - b) <= 1e-7 + 1e-4 * max(abs(a), abs(b))


def near_tied(p, q):
  """Vectors p != q whose coordinates are pairwise equal or near."""
  return p != q and all(a == b or near(a, b) for a, b in zip(p, q))


# ---------------------------------------------------------------------------
# oracle
# ---------------------------------------------------------------------------
def _dominates(p, q):
  ge = True
  gt = False
  for a, b in zip(p, q):
    if not a >= b:
      return False
    if a > b:
      gt = True
  return ge and gt


def _front(vectors):
  """{idx: vector} -> set of idx not dominated by another one."""
  out = set()
  for i, q in vectors.items():
    if not any(_dominates(p, q) for j, p in vectors.items() if j != i):
      out.add(i)
  return out


def _signed(goals, v):
  return [x if g == 'MAX' else -x for g, x in zip(goals, v)]


def objectives_ok(t):
  """SUCCEEDED, every objective present and a number."""
  return (t['k'] in QUALIFYING and t['v'] is not None
          and all(x is not None and x == x for x in t['v']))


def safety_pattern(spec, t):
  """One letter per safety metric, in configuration order: 'v' reported and beyond
  its threshold, 'o' reported and within it, '-' not reported."""
  by_name = {}
  for s, x in zip(spec['safeties'], t['ss']):
    if x is None:
      by_name[s['name']] = '-'
    else:
      ok = x >= s['thr'] if s['goal'] == 'MAX' else x <= s['thr']
      by_name[s['name']] = 'o' if ok else 'v'
  return ''.join(by_name[n] for n in spec['cfg'] if n in by_name)


def unsafe(spec, t):
  """Some *reported* safety metric is beyond its threshold (an unreported one is
  assumed to be fine, as documented by SafetyChecker)."""
  return 'v' in safety_pattern(spec, t)


def unsafe_condition(spec, t):
  """Shape of an unsafe trial's safety report (for mechanism ids)."""
  pat = safety_pattern(spec, t)
  if len(pat) == 1:
    return 'single-safety-metric'
  first, last = pat.index('v'), pat.rindex('v')
  if '-' in pat[:first]:
    return 'an-earlier-safety-metric-unreported'
  if 'o' in pat[:first]:
    return 'an-earlier-safety-metric-within-threshold'
  if 'o' in pat[last + 1:]:
    return 'a-later-safety-metric-within-threshold'
  if '-' in pat[last + 1:]:
    return 'a-later-safety-metric-unreported'
  return 'every-safety-metric-violated'


def interpretations(spec):
  """name -> (set of qualifying idx, {idx: sign-normalised vector})."""
  goals = spec['goals']
  T = [dict(t, v=None if t['v'] is None else [_f(x) for x in t['v']],
            ss=[_f(x) for x in t['ss']])
       for t in spec['trials']]
  q_obj = [i for i, t in enumerate(T) if objectives_ok(t)]
  out = {}
  if not spec['safeties']:
    out['plain'] = (set(q_obj), {i: _signed(goals, T[i]['v']) for i in q_obj})
    return out, T
  q_all = [i for i in q_obj if all(x is not None for x in T[i]['ss'])]
  sg = [s['goal'] for s in spec['safeties']]
  out['safety-as-objective'] = (set(q_all), {
      i: _signed(goals + sg, T[i]['v'] + T[i]['ss']) for i in q_all})
  worst = [-INF] * len(goals)
  for name, q in (('warp-unsafe', q_obj), ('warp-unsafe:safety-required', q_all)):
    out[name] = (set(q), {i: (worst if unsafe(spec, T[i]) else _signed(goals, T[i]['v']))
                          for i in q})
  for name, q in (('drop-unsafe', q_obj), ('drop-unsafe:safety-required', q_all)):
    qq = [i for i in q if not unsafe(spec, T[i])]
    out[name] = (set(qq), {i: _signed(goals, T[i]['v']) for i in qq})
  return out, T


def expected_fronts(spec):
  interp, T = interpretations(spec)
  return {name: _front(vec) for name, (q, vec) in interp.items()}, interp, T


# ---------------------------------------------------------------------------
# subjects
# ---------------------------------------------------------------------------
class Services:
  """One RAM-backed and one in-memory-SQL-backed servicer per process."""

  def __init__(self):
    from vizier._src.service import vizier_service
    self.ram = vizier_service.VizierServicer(database_url=None)
    self.sql = vizier_service.VizierServicer(database_url='sqlite:///:memory:')
    self.k = 0

  def fresh_name(self):
    self.k += 1
    return f'c11s{self.k}'

  def close(self):
    try:
      self.sql.datastore._engine.dispose()  # pylint: disable=protected-access
    except Exception:  # pylint: disable=broad-except
      pass


def _study_config(spec):
  from vizier import pyvizier as vz
  from vizier.service import pyvizier as svz
  sc = svz.StudyConfig()
  sc.search_space.root.add_float_param('x', 0.0, 1.0)
  goal_of = dict(zip(spec['names'], spec['goals']))
  safety_of = {s['name']: s for s in spec['safeties']}
  for name in spec['cfg']:
    if name in goal_of:
      sc.metric_information.append(vz.MetricInformation(
          name=name, goal=getattr(vz.ObjectiveMetricGoal, goal_of[name] + 'IMIZE')))
    else:
      s = safety_of[name]
      sc.metric_information.append(vz.MetricInformation(
          name=name, goal=getattr(vz.ObjectiveMetricGoal, s['goal'] + 'IMIZE'),
          safety_threshold=float(s['thr'])))
  sc.algorithm = 'RANDOM_SEARCH'
  return sc


def _metrics(spec, t):
  """metric name -> value of the (final or intermediate) measurement of a spec
  trial, as a dict in the order in which the trial reports them (t['ord'], default:
  the order of the study configuration, unconfigured metrics last)."""
  m = {}
  if t['v'] is not None:
    for name, x in zip(spec['names'], t['v']):
      if x is not None:
        m[name] = float(x)
  for s, x in zip(spec['safeties'], t['ss']):
    if x is not None:
      m[s['name']] = float(x)
  m = {name: m[name] for name in spec['cfg'] if name in m}
  for name, x in (t.get('near') or {}).items():
    m[name] = float(x)
  if t['k'] == 'extra' or (t['k'] == 'missing' and not m):
    m[t.get('zn', 'zz')] = float(t.get('zz', '7.0'))
  if t.get('ord'):
    ordered = {name: m[name] for name in t['ord'] if name in m}
    ordered.update(m)
    m = ordered
  return m


def report_orders(spec, metric_lists):
  """Number of different relative orders in which the configured metrics appear in
  the given lists of metric names (only lists naming >= 2 configured metrics)."""
  cfg = set(spec['cfg'])
  orders = set()
  for names in metric_lists:
    rel = tuple(n for n in names if n in cfg)
    if len(rel) >= 2:
      # compare as ranks of the names both lists share: normalise pairwise
      orders.add(rel)
  differ = False
  L = list(orders)
  for a in range(len(L)):
    for b in range(a + 1, len(L)):
      common = set(L[a]) & set(L[b])
      if len(common) >= 2 and ([n for n in L[a] if n in common]
                               != [n for n in L[b] if n in common]):
        differ = True
  return differ


def build_direct(servicer, study_name, spec, T):
  """Writes the trials straight into the datastore in spec order; ids 1..n."""
  from vizier._src.service import study_pb2
  for i, t in enumerate(T):
    tp = study_pb2.Trial(name=f'{study_name}/trials/{i + 1}', id=str(i + 1),
                         state=getattr(study_pb2.Trial.State, STATE_OF[t['k']]))
    tp.parameters.add(parameter_id='x').value.number_value = 0.5
    m = _metrics(spec, t)
    if t['k'] in ('active', 'stopping'):
      if m:
        mm = tp.measurements.add(step_count=1)
        for k, v in m.items():
          mm.metrics.add(metric_id=k, value=v)
    elif t['k'] != 'requested' and (m or t['k'] != 'infeasible'):
      for k, v in m.items():
        tp.final_measurement.metrics.add(metric_id=k, value=v)
      if not m:
        tp.final_measurement.SetInParent()
    if t['k'] == 'infeasible':
      tp.infeasible_reason = 'infeasible'
    servicer.datastore.create_trial(tp)
  return {i + 1: i for i in range(len(T))}


def build_rpc(servicer, study_name, spec, T):
  """Drives the client API; returns {trial id: spec index}."""
  from vizier import pyvizier as vz
  from vizier._src.service import clients, vizier_client
  study = clients.Study(vizier_client.VizierClient(study_name, 'c11', servicer))
  idmap = {}
  order = [i for i, t in enumerate(T) if t['k'] != 'requested'] + [
      i for i, t in enumerate(T) if t['k'] == 'requested']
  for i in order:
    t = T[i]
    m = _metrics(spec, t)
    meas = vz.Measurement(metrics=m)
    if t['k'] == 'requested':
      tc = study.request(vz.TrialSuggestion({'x': 0.25}))
      idmap[tc.id] = i
      continue
    if t['k'] in ('ok', 'extra', 'missing', 'nan') and i % 2 == 0:
      tc = study.add_trial(vz.Trial(parameters={'x': 0.75}, final_measurement=meas))
      idmap[tc.id] = i
      continue
    req = study.request(vz.TrialSuggestion({'x': 0.5}))
    got = study.suggest(count=1, client_id=f'w{i}')
    if len(got) != 1 or got[0].id != req.id:
      raise RuntimeError(f'harness: suggest returned {[g.id for g in got]} for {req.id}')
    tc = got[0]
    idmap[tc.id] = i
    if t['k'] in ('ok', 'extra', 'missing', 'nan'):
      tc.complete(meas)
    elif t['k'] == 'infeasible':
      tc.complete(meas if m else None, infeasible_reason='infeasible')
    elif t['k'] in ('active', 'stopping'):
      if m:
        tc.add_measurement(vz.Measurement(metrics=m, steps=1))
      if t['k'] == 'stopping':
        tc.stop()
  return idmap


def _classify_set(prefix, got_idx, primary_front, primary_q, T, vec=None):
  """Shape of the disagreement with the subject's own reading of the property."""
  mechs = []
  nonq = sorted({T[i]['k'] for i in got_idx if T[i]['k'] not in QUALIFYING})
  for k in nonq:
    mechs.append(f'{prefix}:non-qualifying-reported:{k}')
  # qualifying by kind but not by that reading (e.g. safety metric absent)
  if any(T[i]['k'] in QUALIFYING and i not in primary_q for i in got_idx):
    mechs.append(f'{prefix}:non-qualifying-reported:safety-reading')
  dom = [i for i in got_idx if i in primary_q and i not in primary_front]
  if dom:
    # every dominated trial reported is within a hair of an optimal one: "close to
    # the best" was taken for "attains the best"
    if vec and all(any(near_tied(vec[i], vec[j]) for j in primary_front) for i in dom):
      mechs.append(f'{prefix}:dominated-reported:near-tie-with-an-optimal-trial')
    else:
      mechs.append(f'{prefix}:dominated-reported')
  miss = [i for i in primary_front if i not in got_idx]
  if miss:
    if vec and got_idx and all(
        any(near_tied(vec[i], vec[j]) for j in got_idx if j in vec) for i in miss):
      mechs.append(f'{prefix}:optimal-missing:near-tie-with-a-reported-trial')
    else:
      mechs.append(f'{prefix}:optimal-missing')
  return mechs or [f'{prefix}:unclassified']


def ask_service(servicer, S, spec, T):
  """Builds the history in a fresh study, asks ListOptimalTrials and the client.

  Returns None when the built history is not what the spec says (harness problem,
  reported by the caller), else a dict."""
  from vizier._src.service import study_pb2, vizier_service_pb2, resources
  from vizier._src.service import clients, vizier_client
  sid = S.fresh_name()
  study = study_pb2.Study(display_name=sid, study_spec=_study_config(spec).to_proto())
  st = servicer.CreateStudy(vizier_service_pb2.CreateStudyRequest(
      parent=resources.OwnerResource('c11').name, study=study))
  try:
    if spec['mode'] == 'rpc':
      idmap = build_rpc(servicer, st.name, spec, T)
    else:
      idmap = build_direct(servicer, st.name, spec, T)
    # harness self check: the history really is what the spec says
    listed = servicer.ListTrials(vizier_service_pb2.ListTrialsRequest(parent=st.name)).trials
    states = {int(t.id): study_pb2.Trial.State.Name(t.state) for t in listed}
    want = {tid: STATE_OF[T[i]['k']] for tid, i in idmap.items()}
    if states != want:
      return {'harness': f'built history has states {states}, wanted {want} '
                         f'(mode {spec["mode"]}, index {spec["index"]})'}
    stored_cfg = [m.metric_id for m in servicer.GetStudy(
        vizier_service_pb2.GetStudyRequest(name=st.name)).study_spec.metrics]
    resp = servicer.ListOptimalTrials(
        vizier_service_pb2.ListOptimalTrialsRequest(parent=st.name))
    ids = [int(t.id) for t in resp.optimal_trials]
    cl = clients.Study(vizier_client.VizierClient(st.name, 'c11', servicer))
    cids = [t.id for t in cl.optimal_trials()]
    cids2 = [t.id for t in cl.optimal_trials().get()]
    try:
      cl.optimal_trials(count=2)
      count_refused = False
    except ValueError:
      count_refused = True
    return {'ids': ids, 'idmap': idmap, 'client': cids, 'client_get': cids2,
            'count_refused': count_refused, 'stored_cfg': stored_cfg,
            'final_metric_lists': [
                [m.metric_id for m in t.final_measurement.metrics] for t in listed
                if t.state == study_pb2.Trial.State.SUCCEEDED]}
  finally:
    servicer.DeleteStudy(vizier_service_pb2.DeleteStudyRequest(name=st.name))


def presentation_variants(spec):
  """The same history, presented differently: (tag, spec) pairs.

  The answer is a function of {metric name: value} per trial and of
  {metric name: goal / threshold}; neither the order in which a trial lists its
  metrics, nor the order of the study configuration, nor the spelling of the
  names carries meaning. Used to *name* a disagreement (mechanism id), the
  verdict itself comes from the definition."""
  out = []
  if any(t.get('ord') for t in spec['trials']):
    out.append(('metric-report-order', dict(
        spec, trials=[{k: v for k, v in t.items() if k != 'ord'} for t in spec['trials']])))
  base = out[-1][1] if out else spec
  if spec['cfg'] != canonical_cfg(spec):
    out.append(('metric-config-order', dict(base, cfg=canonical_cfg(spec))))
  base = out[-1][1] if out else spec
  plain = [f'm{i}' for i in range(len(spec['goals']))]
  plain_s = ['s', 's1', 's2'][:len(spec['safeties'])]
  if spec['names'] != plain or [s['name'] for s in spec['safeties']] != plain_s:
    ren = dict(zip(spec['names'], plain))
    ren.update(zip([s['name'] for s in spec['safeties']], plain_s))
    trials = []
    for t in base['trials']:
      t = {k: v for k, v in t.items() if k not in ('zn', 'near')}
      trials.append(t)
    out.append(('metric-names', dict(
        base, names=plain, cfg=[ren[n] for n in base['cfg']],
        safeties=[dict(s, name=ren[s['name']]) for s in spec['safeties']], trials=trials)))
  return out


def presentation_suffix(spec, agrees):
  """':depends-on-<what>' when the disagreement vanishes for a re-presentation."""
  for tag, spec2 in presentation_variants(spec):
    try:
      if agrees(spec2):
        return ':depends-on-' + tag
    except Exception:  # pylint: disable=broad-except
      return ''
  return ''


def check_service(ctx, spec, S, fronts, interp, T):
  for dsname, servicer in (('ram', S.ram), ('sql', S.sql)):
    ans = ask_service(servicer, S, spec, T)
    if 'harness' in ans:
      ctx.inconclusive_reason('harness: ' + ans['harness'])
      continue
    if spec['mode'] == 'rpc':
      ctx.count('hist:rpc_mode')
    if ans['stored_cfg'] != spec['cfg']:
      ctx.inconclusive_reason(f'harness: study stores metrics {ans["stored_cfg"]}, '
                              f'configured {spec["cfg"]}')
      continue
    # what the datastore really holds (not what the generator intended)
    if report_orders(spec, ans['final_metric_lists']):
      ctx.count('hist:service_report_orders_differ')
    ids, idmap = ans['ids'], ans['idmap']
    ctx.count('hist:service_' + dsname)
    case = dict(spec, datastore=dsname)

    def agrees(spec2, servicer=servicer):
      fr2, _, T2 = expected_fronts(spec2)
      a2 = ask_service(servicer, S, spec2, T2)
      if 'harness' in a2:
        return False
      got2 = {a2['idmap'][i] for i in a2['ids'] if i in a2['idmap']}
      return len(got2) == len(a2['ids']) and any(fr == got2 for fr in fr2.values())
    decide(ctx, case, 'service:ListOptimalTrials', ids, idmap, fronts, interp, T,
           primary='safety-as-objective', agrees=agrees)
    # the client must hand through exactly that answer
    ctx.count('hist:client')
    if sorted(ans['client']) != sorted(ids) or sorted(ans['client_get']) != sorted(ids):
      ctx.violation('client:optimal_trials:differs-from-ListOptimalTrials',
                    'clients.Study.optimal_trials returned other trials than the RPC',
                    case, {'rpc': ids, 'client': ans['client'],
                           'client_get': ans['client_get']})
    ctx.count('client_count_refused_documented' if ans['count_refused']
              else 'client_count_accepted')


def decide(ctx, case, prefix, ids, idmap, fronts, interp, T, primary, agrees=None):
  """ids: reported trial ids (count=None semantics: the whole front)."""
  if len(set(ids)) != len(ids):
    ctx.violation(f'{prefix}:duplicate-trial-in-answer', f'{prefix} reported a trial twice',
                  case, {'ids': ids})
  unknown = [i for i in ids if i not in idmap]
  if unknown:
    ctx.violation(f'{prefix}:unknown-trial-id', f'{prefix} reported ids not in the study',
                  case, {'ids': ids})
    return
  got = {idmap[i] for i in ids}
  matched = [name for name, fr in fronts.items() if fr == got]
  if matched:
    ctx.count('hist:answers_matching_definition')
    if len(fronts) > 1:
      for name in matched:
        ctx.count(f'safety_reading_matched:{prefix}:{name}')
    return
  pname = primary if primary in fronts else 'plain'
  mechs = []
  nan_reported = {i for i in got if T[i]['k'] == 'nan'}
  rest = got - nan_reported
  if nan_reported:
    mechs.append(f'{prefix}:nan-objective-trial-reported')
  if not (nan_reported and any(fr == rest for fr in fronts.values())):
    mechs += [m for m in _classify_set(prefix, rest, fronts[pname], interp[pname][0], T,
                                       interp[pname][1])
              if m not in mechs]
  suffix = presentation_suffix(case, agrees) if agrees else ''
  for mech in mechs:
    ctx.violation(mech + suffix,
                  f'{prefix} disagrees with the definition of optimal trials '
                  f'(under every accepted reading; classified against "{pname}")', case,
                  {'elapsed_s': round(ctx.elapsed(), 1), 'reported_spec_indices': sorted(got),
                   'expected_by_reading': {k: sorted(v) for k, v in fronts.items()},
                   'reported_kinds': [T[i]['k'] for i in sorted(got)]})


def ask_getbest(spec, T, count):
  """Fresh InRamPolicySupporter holding the history -> dict (ids or the exception)."""
  from vizier import pyvizier as vz
  from vizier._src.pythia import local_policy_supporters as lps
  problem = _study_config(spec).to_problem()
  sup = lps.InRamPolicySupporter(problem)
  trials = []
  for t in T:
    m = _metrics(spec, t)
    tr = vz.Trial(parameters={'x': 0.5})
    if t['k'] in ('ok', 'extra', 'missing', 'nan'):
      tr.complete(vz.Measurement(metrics=m))
    elif t['k'] == 'infeasible':
      tr.complete(vz.Measurement(metrics=m), infeasibility_reason='infeasible')
    elif t['k'] in ('active', 'stopping'):
      if m:
        tr.measurements.append(vz.Measurement(metrics=m, steps=1))
      if t['k'] == 'stopping':
        tr.stopping_reason = 'stop'
    else:
      tr.is_requested = True
    trials.append(tr)
  sup.AddTrials(trials)
  if [t.id for t in sup.trials] != list(range(1, len(T) + 1)):
    return {'harness': 'InRamPolicySupporter did not number trials 1..n'}
  out = {'final_metric_lists': [
      list(t.final_measurement.metrics) for t in sup.trials
      if t.final_measurement is not None and not t.infeasible], 'answers': {}}
  for c in count:
    try:
      out['answers'][c] = [t.id for t in sup.GetBestTrials(count=c)]
    except Exception as e:  # pylint: disable=broad-except
      out['answers'][c] = e
  return out


def check_getbest(ctx, spec, fronts, interp, T):
  counts = [None] if spec['count'] is None else [None, spec['count']]
  ans = ask_getbest(spec, T, counts)
  if 'harness' in ans:
    ctx.inconclusive_reason('harness: ' + ans['harness'])
    return
  if report_orders(spec, ans['final_metric_lists']):
    ctx.count('hist:getbest_report_orders_differ')
  idmap = {i + 1: i for i in range(len(T))}
  single = len(spec['goals']) == 1
  so = 'single' if single else 'multi'
  prefix = f'getbest:{so}'
  case = dict(spec, subject='GetBestTrials')
  pname = 'warp-unsafe' if spec['safeties'] else 'plain'
  for count in counts:
    ids = ans['answers'][count]
    if isinstance(ids, Exception):
      e = ids
      ctx.violation(f'{prefix}:raised:{type(e).__name__}',
                    f'GetBestTrials(count={count}) raised {type(e).__name__}: {e}',
                    dict(case, count=count))
      continue
    ctx.count('hist:getbest')
    if count is not None:
      ctx.count('hist:getbest_count')
    if any(i not in idmap for i in ids):
      ctx.violation(f'{prefix}:unknown-trial-id', 'GetBestTrials returned an unknown id',
                    dict(case, count=count), {'ids': ids})
      continue
    got = {idmap[i] for i in ids}
    mechs = classify_getbest(spec, so, got, ids, fronts, interp, T, count, pname)
    if not mechs:
      ctx.count('hist:answers_matching_definition')
      continue

    def agrees(spec2, count=count):
      fr2, in2, T2 = expected_fronts(spec2)
      a2 = ask_getbest(spec2, T2, [count])
      ids2 = a2.get('answers', {}).get(count)
      if not isinstance(ids2, list) or any(i not in idmap for i in ids2):
        return False
      return not classify_getbest(spec2, so, {idmap[i] for i in ids2}, ids2, fr2, in2, T2,
                                  count, pname)
    suffix = presentation_suffix(case, agrees)
    for mech in mechs:
      ctx.violation(mech + suffix,
                    f'InRamPolicySupporter.GetBestTrials(count={count}) disagrees '
                    'with the definition of optimal trials', dict(case, count=count),
                    {'elapsed_s': round(ctx.elapsed(), 1),
                     'reported_spec_indices': [idmap.get(i) for i in ids],
                     'expected_by_reading': {k: sorted(v) for k, v in fronts.items()},
                     'reported_kinds': [T[idmap[i]]['k'] for i in ids if i in idmap],
                     'safety_patterns_of_reported': [
                         safety_pattern(spec, T[idmap[i]]) for i in ids if i in idmap]})


def labelled(T, i, spec):
  """Does the code under test see a fully numeric label row for trial i?

  (final measurement present with every objective a number: qualifying trials
  and INFEASIBLE trials that were completed with a measurement.)"""
  t = T[i]
  if t['k'] in QUALIFYING:
    return objectives_ok(t)
  return (t['k'] == 'infeasible' and t['v'] is not None
          and all(x is not None and x == x for x in t['v']))


def classify_getbest(spec, so, got, ids, fronts, interp, T, count, pname):
  """Mechanism ids for a GetBestTrials answer; [] when it agrees with a reading.

  Shapes that have their own id (each must explain the whole answer, otherwise
  a generic id is added):
    * single objective, count unset, one of several tied best trials returned;
    * an INFEASIBLE trial that carries a measurement is ranked like a completed
      one (the rest of the answer is then judged with those trials admitted);
    * single objective: trials without a numeric label fill the answer when
      fewer labelled trials than `count` (unset = 1) exist;
    * multi objective: optimal trials are missing (nothing dominated is reported)
      and the study holds a trial without a full numeric label row;
    * a NaN objective overwritten by the safety warp (unsafe trial).
  """
  prefix = f'getbest:{so}'
  if len(set(ids)) != len(ids):
    return [f'{prefix}:duplicate-trial-in-answer']
  # 1. agreement with any accepted reading
  def agrees_with(q, vec, fr):
    if count is None:
      return got == fr
    if so == 'single':
      want = min(count, len(q))
      if len(got) == want and got <= q:
        best = sorted((vec[i][0] for i in q), reverse=True)[:want]
        return best == sorted((vec[i][0] for i in got), reverse=True)
      return False
    return got <= fr and len(got) == min(count, len(fr))
  for name, (q, vec) in interp.items():
    if agrees_with(q, vec, fronts[name]):
      return []
  # 2. shape of the disagreement, against the subject's own reading
  q, vec = interp[pname]
  fr = fronts[pname]
  mechs = []
  goals = spec['goals']
  worst = [-INF] * len(goals)

  def admitted_vector(i):
    """Label row the code under test computes for a non-qualifying trial, when
    that row is fully numeric (None otherwise)."""
    t = T[i]
    if t['k'] == 'infeasible' and labelled(T, i, spec):
      return worst if unsafe(spec, t) else _signed(goals, t['v'])
    if (t['k'] == 'nan' and unsafe(spec, t)
        and all(x is not None for x in t['v'])):
      return worst          # the safety warp overwrites the NaN objective
    return None
  extra = {i: admitted_vector(i) for i in range(len(T)) if T[i]['k'] not in QUALIFYING}
  extra = {i: v for i, v in extra.items() if v is not None}
  inf_meas = {i for i in got if i in extra and T[i]['k'] == 'infeasible'}
  nan_warped = {i for i in got if i in extra and T[i]['k'] == 'nan'}
  unlabelled = {i for i in got if T[i]['k'] not in QUALIFYING and i not in extra}
  study_unlabelled = any(T[i]['k'] not in QUALIFYING and i not in extra
                         for i in range(len(T)))
  if inf_meas:
    mechs.append('getbest:infeasible-trial-with-measurement-reported')
  if nan_warped:
    mechs.append('getbest:nan-objective-trial-reported:unsafe-warp-overwrites-nan')
  if inf_meas or nan_warped:
    # judge the rest of the answer with those trials admitted
    q = set(q) | set(extra)
    vec = dict(vec)
    vec.update(extra)
    fr = _front(vec)
  # reported trials that break a safety threshold: is the answer the one the
  # definition gives when exactly those are taken to be safe?
  unsafe_rep = sorted(i for i in got if i in interp[pname][0] and unsafe(spec, T[i]))
  if unsafe_rep and not mechs:
    vec2 = dict(vec)
    for i in unsafe_rep:
      vec2[i] = _signed(goals, T[i]['v'])
    if agrees_with(q, vec2, _front(vec2)):
      return ['getbest:unsafe-trial-ranked-as-if-safe:'
              + unsafe_condition(spec, T[unsafe_rep[0]])]
  eff = 1 if count is None else count
  if so == 'single':
    if unlabelled:
      if len(q) < eff:
        mechs.append('getbest:single:unlabelled-trial-reported:fewer-labelled-than-count')
      else:
        mechs.append('getbest:single:unlabelled-trial-reported:enough-labelled-trials')
    rest = got - unlabelled
    want = min(eff, len(q))
    if count is None and len(rest) == 1 and rest <= fr and len(fr) > 1 and not unlabelled:
      mechs.append('getbest:single:count-unset:tied-best-truncated-to-one')
    elif count is None and rest == fr:
      pass
    elif count is None and not (unlabelled and not q):
      mechs.append('getbest:single:not-the-best-trials')
    elif count is not None:
      best = sorted((vec[i][0] for i in q), reverse=True)[:want]
      if (len(rest) != want or not rest <= q
          or best != sorted((vec[i][0] for i in rest), reverse=True)):
        mechs.append('getbest:single:count-set:not-the-top-values')
  else:
    if unlabelled:
      mechs.append('getbest:multi:unlabelled-trial-reported')
    rest = got - unlabelled
    if not rest <= fr:
      mechs.append('getbest:multi:dominated-reported')
    want = len(fr) if count is None else min(count, len(fr))
    if len(rest & fr) < want:
      if study_unlabelled:
        # a label row holding a NaN that is still alive when the naive algorithm
        # reaches it eliminates every candidate that does not exceed it in one
        # of its numeric coordinates (all candidates, if the row is all NaN)
        mechs.append('getbest:multi:optimal-missing:study-has-unlabelled-trial')
      else:
        mechs.append('getbest:multi:optimal-missing')
    elif len(rest) > want:
      mechs.append('getbest:multi:count-set:too-many')
  return mechs or [f'{prefix}:unclassified']


def check_history(ctx, spec, S):
  spec = norm_spec(spec)
  fronts, interp, T = expected_fronts(spec)
  goals = spec['goals']
  kinds = sorted(t['k'] for t in T)
  pname = 'safety-as-objective' if spec['safeties'] else 'plain'
  front = fronts[pname]
  n_q = len(interp[pname][0])
  nontrivial = len(T) >= 2 and (len(front) < len(T))
  cfg = spec['cfg']
  cfg_shape = ''.join('o' if n in spec['names'] else 's' for n in cfg)
  ctx.case(['history', goals, cfg_shape, cfg == sorted(cfg), kinds, len(front),
            spec['mode'], spec['count'], spec.get('order_profile'), spec.get('vprof')],
           nontrivial=nontrivial)
  if any(k not in QUALIFYING for k in kinds):
    ctx.count('hist:with_nonqualifying')
  for k in set(kinds):
    ctx.count('hist_kind:' + k)
  if spec['safeties']:
    ctx.count('hist:with_safety')
    if len(spec['safeties']) >= 2:
      ctx.count('hist:multi_safety')
    q_obj = interp['warp-unsafe'][0]
    pats = {safety_pattern(spec, T[i]) for i in q_obj}
    if any('-' in p and p.strip('-') for p in pats):
      ctx.count('hist:safety_partially_reported')
    for i in q_obj:
      if unsafe(spec, T[i]):
        ctx.count('hist_unsafe:' + unsafe_condition(spec, T[i]))
    # histories in which the safety verdicts decide the answer: it differs from
    # the one obtained when every trial is taken to be safe
    raw = {i: _signed(goals, T[i]['v']) for i in q_obj}
    if _front(raw) != fronts['warp-unsafe']:
      ctx.count('hist:safety_verdict_decides_answer')
  ctx.count('hist:single_objective' if len(goals) == 1 else 'hist:multi_objective')
  if len(set(goals)) > 1:
    ctx.count('hist:mixed_goals')
  if len(cfg) >= 2 and cfg != sorted(cfg):
    ctx.count('hist:config_order_not_alphabetical')
  if 's' in cfg_shape.rstrip('s'):
    ctx.count('hist:safety_configured_before_an_objective')
  if any(t.get('near') or t.get('zn') for t in T):
    ctx.count('hist:unconfigured_metric_with_similar_name')
  if len(front) >= 2:
    ctx.count('hist:with_ties' if len(goals) == 1 else 'hist:front_of_two_or_more')
  if n_q > len(front):
    ctx.count('hist:with_dominated_qualifying')
  vecs = list(interp[pname][1].values())
  if len({tuple(v) for v in vecs}) < len(vecs):
    ctx.count('hist:with_duplicate_vectors')
  # near ties: a dominated qualifying trial within a hair of an optimal one, so
  # that "close" taken for "equal" changes the answer
  vec = interp[pname][1]
  if any(near_tied(vec[i], vec[j]) for i in vec if i not in front for j in front):
    ctx.count('hist:near_tie_decides_answer')
    ctx.count('hist:near_tie_decides_answer:' + ('single' if len(goals) == 1 else 'multi'))
  f32 = float32_exact(spec)
  if not f32:
    ctx.count('hist:values_only_float64_holds')
  for s, thr_i in zip(spec['safeties'], range(len(spec['safeties']))):
    if any(t['ss'][thr_i] is not None and near(t['ss'][thr_i], s['thr']) for t in T):
      ctx.count('hist:safety_value_near_threshold')
      break
  try:
    check_service(ctx, spec, S, fronts, interp, T)
  except Exception as e:  # pylint: disable=broad-except
    import traceback
    ctx.inconclusive_reason(f'harness/service error on history {spec["index"]}: '
                            f'{type(e).__name__}: {e} :: ' + traceback.format_exc()[-600:])
  if f32:
    check_getbest(ctx, spec, fronts, interp, T)
  else:
    ctx.count('hist:getbest_skipped_values_not_float32_exact')
