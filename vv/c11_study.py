"""C11 helper: study histories -> optimal trials, against the literal definition.

A history spec is JSON-able:

  {'kind': 'history', 'goals': ['MAX','MIN',..], 'safety': None | {'goal','thr'},
   'trials': [{'k': kind, 'v': [float|None per objective] | None, 's': float|None}, ...],
   'mode': 'direct' | 'rpc', 'count': None | int, 'index': j}

kinds: ok, extra (ok + an unconfigured metric), missing (SUCCEEDED but an
objective metric absent), nan (SUCCEEDED, an objective is NaN), infeasible
(with or without a measurement), active, stopping, requested.
"""
import math

KINDS = ['ok', 'extra', 'missing', 'nan', 'infeasible', 'active', 'stopping', 'requested']
QUALIFYING = ('ok', 'extra')
STATE_OF = {'ok': 'SUCCEEDED', 'extra': 'SUCCEEDED', 'missing': 'SUCCEEDED',
            'nan': 'SUCCEEDED', 'infeasible': 'INFEASIBLE', 'active': 'ACTIVE',
            'stopping': 'STOPPING', 'requested': 'REQUESTED'}
INF = float('inf')


def _f(x):
  return None if x is None else float(x)


# ---------------------------------------------------------------------------
# generator
# ---------------------------------------------------------------------------
def gen_history(rng, tier, j):
  n_obj = rng.choice([1, 1, 2, 2, 2, 3])
  goals = [rng.choice(['MAX', 'MIN']) for _ in range(n_obj)]
  safety = None
  if rng.random() < 0.25:
    safety = {'goal': rng.choice(['MAX', 'MIN']), 'thr': 1.0}
  hi = 14 if tier == 'quick' else 24
  n = rng.choice([0, 1, 1, 2, 2, 3, 3, 4, 5, 6, 7, 8, 10, 12, hi])
  profile = rng.choice(['clean', 'mixed', 'mixed', 'hostile', 'none-qualify'])
  lattice = rng.choice([1, 2, 2, 3])

  def val():
    if rng.random() < 0.06:
      return rng.choice([INF, -INF])
    return float(rng.randint(0, lattice))

  trials = []
  for _ in range(n):
    if profile == 'clean':
      k = 'ok'
    elif profile == 'mixed':
      k = rng.choice(['ok'] * 6 + ['extra', 'missing', 'nan', 'infeasible', 'active',
                                   'stopping', 'requested'])
    elif profile == 'hostile':
      k = rng.choice(['ok', 'ok'] + KINDS)
    else:
      k = rng.choice(KINDS[2:])
    t = {'k': k, 'v': None, 's': None}
    if k in ('ok', 'extra', 'missing', 'nan') or (
        k in ('infeasible', 'active', 'stopping') and rng.random() < 0.6):
      # non-qualifying trials get tempting values: at least as good as anything
      t['v'] = [val() for _ in goals]
      if k in ('infeasible', 'active', 'stopping', 'missing', 'nan') and rng.random() < 0.5:
        t['v'] = [(3.0 if g == 'MAX' else -3.0) for g in goals]
      if safety and rng.random() < 0.85:
        t['s'] = float(rng.randint(0, 2))
    if k == 'extra':
      # the unconfigured metric may itself be not-a-number / infinite (a diverged
      # auxiliary loss): it must not disqualify a trial that reports every
      # configured metric as a number. 'extra' trials also get tempting values.
      t['zz'] = rng.choice(['7.0', 'nan', 'nan', 'inf', '-inf', '0.0'])
      if rng.random() < 0.5:
        t['v'] = [(3.0 if g == 'MAX' else -3.0) for g in goals]
    if k == 'missing':
      drop = rng.sample(range(n_obj), rng.randint(1, max(1, n_obj - 1)))
      for d in drop:
        t['v'][d] = None
    if k == 'nan':
      for d in rng.sample(range(n_obj), rng.randint(1, n_obj)):
        t['v'][d] = float('nan')
    trials.append(t)
  if profile != 'none-qualify' and n >= 2 and rng.random() < 0.3:
    # an exact duplicate of a qualifying trial (ties on every coordinate)
    oks = [t for t in trials if t['k'] == 'ok']
    if oks:
      src = rng.choice(oks)
      trials[rng.randrange(n)] = {'k': 'ok', 'v': list(src['v']), 's': src['s']}
  return {'kind': 'history', 'goals': goals, 'safety': safety, 'trials': trials,
          'mode': 'rpc' if j % 4 == 0 else 'direct',
          'count': rng.choice([None, None, None, 1, 2, 3, 5]), 'index': j}


# ---------------------------------------------------------------------------
# oracle
# ---------------------------------------------------------------------------
def _dominates(p, q):
  ge = True
  gt = False
  for a, b in zip(p, q):
    if not a >= b:
      return False
    if a > b:
      gt = True
  return ge and gt


def _front(vectors):
  """{idx: vector} -> set of idx not dominated by another one."""
  out = set()
  for i, q in vectors.items():
    if not any(_dominates(p, q) for j, p in vectors.items() if j != i):
      out.add(i)
  return out


def _signed(goals, v):
  return [x if g == 'MAX' else -x for g, x in zip(goals, v)]


def objectives_ok(t):
  """SUCCEEDED, every objective present and a number."""
  return (t['k'] in QUALIFYING and t['v'] is not None
          and all(x is not None and x == x for x in t['v']))


def unsafe(spec, t):
  s = spec['safety']
  if s is None or t['s'] is None:
    return False
  return not (t['s'] >= s['thr'] if s['goal'] == 'MAX' else t['s'] <= s['thr'])


def interpretations(spec):
  """name -> (set of qualifying idx, {idx: sign-normalised vector})."""
  goals = spec['goals']
  T = [dict(t, v=None if t['v'] is None else [_f(x) for x in t['v']], s=_f(t['s']))
       for t in spec['trials']]
  q_obj = [i for i, t in enumerate(T) if objectives_ok(t)]
  out = {}
  if spec['safety'] is None:
    out['plain'] = (set(q_obj), {i: _signed(goals, T[i]['v']) for i in q_obj})
    return out, T
  q_all = [i for i in q_obj if T[i]['s'] is not None]
  sg = spec['safety']['goal']
  out['safety-as-objective'] = (set(q_all), {
      i: _signed(goals + [sg], T[i]['v'] + [T[i]['s']]) for i in q_all})
  worst = [-INF] * len(goals)
  for name, q in (('warp-unsafe', q_obj), ('warp-unsafe:safety-required', q_all)):
    out[name] = (set(q), {i: (worst if unsafe(spec, T[i]) else _signed(goals, T[i]['v']))
                          for i in q})
  for name, q in (('drop-unsafe', q_obj), ('drop-unsafe:safety-required', q_all)):
    qq = [i for i in q if not unsafe(spec, T[i])]
    out[name] = (set(qq), {i: _signed(goals, T[i]['v']) for i in qq})
  return out, T


def expected_fronts(spec):
  interp, T = interpretations(spec)
  return {name: _front(vec) for name, (q, vec) in interp.items()}, interp, T


# ---------------------------------------------------------------------------
# subjects
# ---------------------------------------------------------------------------
class Services:
  """One RAM-backed and one in-memory-SQL-backed servicer per process."""

  def __init__(self):
    from vizier._src.service import vizier_service
    self.ram = vizier_service.VizierServicer(database_url=None)
    self.sql = vizier_service.VizierServicer(database_url='sqlite:///:memory:')
    self.k = 0

  def fresh_name(self):
    self.k += 1
    return f'c11s{self.k}'

  def close(self):
    try:
      self.sql.datastore._engine.dispose()  # pylint: disable=protected-access
    except Exception:  # pylint: disable=broad-except
      pass


def _study_config(spec):
  from vizier import pyvizier as vz
  from vizier.service import pyvizier as svz
  sc = svz.StudyConfig()
  sc.search_space.root.add_float_param('x', 0.0, 1.0)
  for i, g in enumerate(spec['goals']):
    sc.metric_information.append(vz.MetricInformation(
        name=f'm{i}', goal=getattr(vz.ObjectiveMetricGoal, g + 'IMIZE')))
  if spec['safety']:
    sc.metric_information.append(vz.MetricInformation(
        name='s', goal=getattr(vz.ObjectiveMetricGoal, spec['safety']['goal'] + 'IMIZE'),
        safety_threshold=float(spec['safety']['thr'])))
  sc.algorithm = 'RANDOM_SEARCH'
  return sc


def _metrics(t):
  """metric name -> value of the (final or intermediate) measurement of a spec trial."""
  m = {}
  if t['v'] is not None:
    for i, x in enumerate(t['v']):
      if x is not None:
        m[f'm{i}'] = float(x)
  if t['s'] is not None:
    m['s'] = float(t['s'])
  if t['k'] == 'extra' or (t['k'] == 'missing' and not m):
    m['zz'] = float(t.get('zz', '7.0'))
  return m


def build_direct(servicer, study_name, T):
  """Writes the trials straight into the datastore in spec order; ids 1..n."""
  from vizier._src.service import study_pb2
  for i, t in enumerate(T):
    tp = study_pb2.Trial(name=f'{study_name}/trials/{i + 1}', id=str(i + 1),
                         state=getattr(study_pb2.Trial.State, STATE_OF[t['k']]))
    tp.parameters.add(parameter_id='x').value.number_value = 0.5
    m = _metrics(t)
    if t['k'] in ('active', 'stopping'):
      if m:
        mm = tp.measurements.add(step_count=1)
        for k, v in m.items():
          mm.metrics.add(metric_id=k, value=v)
    elif t['k'] != 'requested' and (m or t['k'] != 'infeasible'):
      for k, v in m.items():
        tp.final_measurement.metrics.add(metric_id=k, value=v)
      if not m:
        tp.final_measurement.SetInParent()
    if t['k'] == 'infeasible':
      tp.infeasible_reason = 'infeasible'
    servicer.datastore.create_trial(tp)
  return {i + 1: i for i in range(len(T))}


def build_rpc(servicer, study_name, T):
  """Drives the client API; returns {trial id: spec index}."""
  from vizier import pyvizier as vz
  from vizier._src.service import clients, vizier_client
  study = clients.Study(vizier_client.VizierClient(study_name, 'c11', servicer))
  idmap = {}
  order = [i for i, t in enumerate(T) if t['k'] != 'requested'] + [
      i for i, t in enumerate(T) if t['k'] == 'requested']
  for i in order:
    t = T[i]
    m = _metrics(t)
    meas = vz.Measurement(metrics=m)
    if t['k'] == 'requested':
      tc = study.request(vz.TrialSuggestion({'x': 0.25}))
      idmap[tc.id] = i
      continue
    if t['k'] in ('ok', 'extra', 'missing', 'nan') and i % 2 == 0:
      tc = study.add_trial(vz.Trial(parameters={'x': 0.75}, final_measurement=meas))
      idmap[tc.id] = i
      continue
    req = study.request(vz.TrialSuggestion({'x': 0.5}))
    got = study.suggest(count=1, client_id=f'w{i}')
    if len(got) != 1 or got[0].id != req.id:
      raise RuntimeError(f'harness: suggest returned {[g.id for g in got]} for {req.id}')
    tc = got[0]
    idmap[tc.id] = i
    if t['k'] in ('ok', 'extra', 'missing', 'nan'):
      tc.complete(meas)
    elif t['k'] == 'infeasible':
      tc.complete(meas if m else None, infeasible_reason='infeasible')
    elif t['k'] in ('active', 'stopping'):
      if m:
        tc.add_measurement(vz.Measurement(metrics=m, steps=1))
      if t['k'] == 'stopping':
        tc.stop()
  return idmap


def _classify_set(prefix, got_idx, primary_front, primary_q, T):
  """Shape of the disagreement with the subject's own reading of the property."""
  mechs = []
  nonq = sorted({T[i]['k'] for i in got_idx if T[i]['k'] not in QUALIFYING})
  for k in nonq:
    mechs.append(f'{prefix}:non-qualifying-reported:{k}')
  # qualifying by kind but not by that reading (e.g. safety metric absent)
  if any(T[i]['k'] in QUALIFYING and i not in primary_q for i in got_idx):
    mechs.append(f'{prefix}:non-qualifying-reported:safety-reading')
  if any(i in primary_q and i not in primary_front for i in got_idx):
    mechs.append(f'{prefix}:dominated-reported')
  if any(i not in got_idx for i in primary_front):
    mechs.append(f'{prefix}:optimal-missing')
  return mechs or [f'{prefix}:unclassified']


def check_service(ctx, spec, S, fronts, interp, T):
  from vizier._src.service import study_pb2, vizier_service_pb2, resources
  from vizier._src.service import clients, vizier_client
  for dsname, servicer in (('ram', S.ram), ('sql', S.sql)):
    sid = S.fresh_name()
    study = study_pb2.Study(display_name=sid, study_spec=_study_config(spec).to_proto())
    st = servicer.CreateStudy(vizier_service_pb2.CreateStudyRequest(
        parent=resources.OwnerResource('c11').name, study=study))
    try:
      if spec['mode'] == 'rpc':
        idmap = build_rpc(servicer, st.name, T)
        ctx.count('hist:rpc_mode')
      else:
        idmap = build_direct(servicer, st.name, T)
      # harness self check: the history really is what the spec says
      listed = servicer.ListTrials(vizier_service_pb2.ListTrialsRequest(parent=st.name)).trials
      states = {int(t.id): study_pb2.Trial.State.Name(t.state) for t in listed}
      want = {tid: STATE_OF[T[i]['k']] for tid, i in idmap.items()}
      if states != want:
        ctx.inconclusive_reason(f'harness: built history has states {states}, wanted {want} '
                                f'(mode {spec["mode"]}, index {spec["index"]})')
        continue
      resp = servicer.ListOptimalTrials(
          vizier_service_pb2.ListOptimalTrialsRequest(parent=st.name))
      ids = [int(t.id) for t in resp.optimal_trials]
      ctx.count('hist:service_' + dsname)
      case = dict(spec, datastore=dsname)
      decide(ctx, case, 'service:ListOptimalTrials', ids, idmap, fronts, interp, T,
             primary='safety-as-objective')
      # the client must hand through exactly that answer
      cl = clients.Study(vizier_client.VizierClient(st.name, 'c11', servicer))
      cids = [t.id for t in cl.optimal_trials()]
      cids2 = [t.id for t in cl.optimal_trials().get()]
      ctx.count('hist:client')
      if sorted(cids) != sorted(ids) or sorted(cids2) != sorted(ids):
        ctx.violation('client:optimal_trials:differs-from-ListOptimalTrials',
                      'clients.Study.optimal_trials returned other trials than the RPC',
                      case, {'rpc': ids, 'client': cids, 'client_get': cids2})
      try:
        cl.optimal_trials(count=2)
        ctx.count('client_count_accepted')
      except ValueError:
        ctx.count('client_count_refused_documented')
    finally:
      servicer.DeleteStudy(vizier_service_pb2.DeleteStudyRequest(name=st.name))


def decide(ctx, case, prefix, ids, idmap, fronts, interp, T, primary):
  """ids: reported trial ids (count=None semantics: the whole front)."""
  if len(set(ids)) != len(ids):
    ctx.violation(f'{prefix}:duplicate-trial-in-answer', f'{prefix} reported a trial twice',
                  case, {'ids': ids})
  unknown = [i for i in ids if i not in idmap]
  if unknown:
    ctx.violation(f'{prefix}:unknown-trial-id', f'{prefix} reported ids not in the study',
                  case, {'ids': ids})
    return
  got = {idmap[i] for i in ids}
  matched = [name for name, fr in fronts.items() if fr == got]
  if matched:
    ctx.count('hist:answers_matching_definition')
    if len(fronts) > 1:
      for name in matched:
        ctx.count(f'safety_reading_matched:{prefix}:{name}')
    return
  pname = primary if primary in fronts else 'plain'
  mechs = []
  nan_reported = {i for i in got if T[i]['k'] == 'nan'}
  rest = got - nan_reported
  if nan_reported:
    mechs.append(f'{prefix}:nan-objective-trial-reported')
  if not (nan_reported and any(fr == rest for fr in fronts.values())):
    mechs += [m for m in _classify_set(prefix, rest, fronts[pname], interp[pname][0], T)
              if m not in mechs]
  for mech in mechs:
    ctx.violation(mech, f'{prefix} disagrees with the definition of optimal trials '
                  f'(under every accepted reading; classified against "{pname}")', case,
                  {'reported_spec_indices': sorted(got),
                   'expected_by_reading': {k: sorted(v) for k, v in fronts.items()},
                   'reported_kinds': [T[i]['k'] for i in sorted(got)]})


def check_getbest(ctx, spec, fronts, interp, T):
  from vizier import pyvizier as vz
  from vizier._src.pythia import local_policy_supporters as lps
  problem = _study_config(spec).to_problem()
  sup = lps.InRamPolicySupporter(problem)
  trials = []
  for t in T:
    m = _metrics(t)
    tr = vz.Trial(parameters={'x': 0.5})
    if t['k'] in ('ok', 'extra', 'missing', 'nan'):
      tr.complete(vz.Measurement(metrics=m))
    elif t['k'] == 'infeasible':
      tr.complete(vz.Measurement(metrics=m), infeasibility_reason='infeasible')
    elif t['k'] in ('active', 'stopping'):
      if m:
        tr.measurements.append(vz.Measurement(metrics=m, steps=1))
      if t['k'] == 'stopping':
        tr.stopping_reason = 'stop'
    else:
      tr.is_requested = True
    trials.append(tr)
  sup.AddTrials(trials)
  if [t.id for t in sup.trials] != list(range(1, len(T) + 1)):
    ctx.inconclusive_reason('harness: InRamPolicySupporter did not number trials 1..n')
    return
  idmap = {i + 1: i for i in range(len(T))}
  single = len(spec['goals']) == 1
  so = 'single' if single else 'multi'
  prefix = f'getbest:{so}'
  case = dict(spec, subject='GetBestTrials')
  pname = 'warp-unsafe' if spec['safety'] else 'plain'
  for count in ([None] if spec['count'] is None else [None, spec['count']]):
    try:
      res = sup.GetBestTrials(count=count)
    except Exception as e:  # pylint: disable=broad-except
      ctx.violation(f'{prefix}:raised:{type(e).__name__}',
                    f'GetBestTrials(count={count}) raised {type(e).__name__}: {e}',
                    dict(case, count=count))
      continue
    ids = [t.id for t in res]
    ctx.count('hist:getbest')
    if count is not None:
      ctx.count('hist:getbest_count')
    if any(i not in idmap for i in ids):
      ctx.violation(f'{prefix}:unknown-trial-id', 'GetBestTrials returned an unknown id',
                    dict(case, count=count), {'ids': ids})
      continue
    got = {idmap[i] for i in ids}
    mechs = classify_getbest(spec, so, got, ids, fronts, interp, T, count, pname)
    if not mechs:
      ctx.count('hist:answers_matching_definition')
      continue
    for mech in mechs:
      ctx.violation(mech, f'InRamPolicySupporter.GetBestTrials(count={count}) disagrees '
                    'with the definition of optimal trials', dict(case, count=count),
                    {'reported_spec_indices': [idmap.get(i) for i in ids],
                     'expected_by_reading': {k: sorted(v) for k, v in fronts.items()},
                     'reported_kinds': [T[idmap[i]]['k'] for i in ids if i in idmap]})


def labelled(T, i, spec):
  """Does the code under test see a fully numeric label row for trial i?

  (final measurement present with every objective a number: qualifying trials
  and INFEASIBLE trials that were completed with a measurement.)"""
  t = T[i]
  if t['k'] in QUALIFYING:
    return objectives_ok(t)
  return (t['k'] == 'infeasible' and t['v'] is not None
          and all(x is not None and x == x for x in t['v']))


def classify_getbest(spec, so, got, ids, fronts, interp, T, count, pname):
  """Mechanism ids for a GetBestTrials answer; [] when it agrees with a reading.

  Shapes that have their own id (each must explain the whole answer, otherwise
  a generic id is added):
    * single objective, count unset, one of several tied best trials returned;
    * an INFEASIBLE trial that carries a measurement is ranked like a completed
      one (the rest of the answer is then judged with those trials admitted);
    * single objective: trials without a numeric label fill the answer when
      fewer labelled trials than `count` (unset = 1) exist;
    * multi objective: optimal trials are missing (nothing dominated is reported)
      and the study holds a trial without a full numeric label row;
    * a NaN objective overwritten by the safety warp (unsafe trial).
  """
  prefix = f'getbest:{so}'
  if len(set(ids)) != len(ids):
    return [f'{prefix}:duplicate-trial-in-answer']
  # 1. agreement with any accepted reading
  for name, (q, vec) in interp.items():
    fr = fronts[name]
    if count is None:
      if got == fr:
        return []
    elif so == 'single':
      want = min(count, len(q))
      if len(got) == want and got <= q:
        best = sorted((vec[i][0] for i in q), reverse=True)[:want]
        if best == sorted((vec[i][0] for i in got), reverse=True):
          return []
    elif got <= fr and len(got) == min(count, len(fr)):
      return []
  # 2. shape of the disagreement, against the subject's own reading
  q, vec = interp[pname]
  fr = fronts[pname]
  mechs = []
  goals = spec['goals']
  worst = [-INF] * len(goals)

  def admitted_vector(i):
    """Label row the code under test computes for a non-qualifying trial, when
    that row is fully numeric (None otherwise)."""
    t = T[i]
    if t['k'] == 'infeasible' and labelled(T, i, spec):
      return worst if unsafe(spec, t) else _signed(goals, t['v'])
    if (t['k'] == 'nan' and unsafe(spec, t)
        and all(x is not None for x in t['v'])):
      return worst          # the safety warp overwrites the NaN objective
    return None
  extra = {i: admitted_vector(i) for i in range(len(T)) if T[i]['k'] not in QUALIFYING}
  extra = {i: v for i, v in extra.items() if v is not None}
  inf_meas = {i for i in got if i in extra and T[i]['k'] == 'infeasible'}
  nan_warped = {i for i in got if i in extra and T[i]['k'] == 'nan'}
  unlabelled = {i for i in got if T[i]['k'] not in QUALIFYING and i not in extra}
  study_unlabelled = any(T[i]['k'] not in QUALIFYING and i not in extra
                         for i in range(len(T)))
  if inf_meas:
    mechs.append('getbest:infeasible-trial-with-measurement-reported')
  if nan_warped:
    mechs.append('getbest:nan-objective-trial-reported:unsafe-warp-overwrites-nan')
  if inf_meas or nan_warped:
    # judge the rest of the answer with those trials admitted
    q = set(q) | set(extra)
    vec = dict(vec)
    vec.update(extra)
    fr = _front(vec)
  eff = 1 if count is None else count
  if so == 'single':
    if unlabelled:
      if len(q) < eff:
        mechs.append('getbest:single:unlabelled-trial-reported:fewer-labelled-than-count')
      else:
        mechs.append('getbest:single:unlabelled-trial-reported:enough-labelled-trials')
    rest = got - unlabelled
    want = min(eff, len(q))
    if count is None and len(rest) == 1 and rest <= fr and len(fr) > 1 and not unlabelled:
      mechs.append('getbest:single:count-unset:tied-best-truncated-to-one')
    elif count is None and rest == fr:
      pass
    elif count is None and not (unlabelled and not q):
      mechs.append('getbest:single:not-the-best-trials')
    elif count is not None:
      best = sorted((vec[i][0] for i in q), reverse=True)[:want]
      if (len(rest) != want or not rest <= q
          or best != sorted((vec[i][0] for i in rest), reverse=True)):
        mechs.append('getbest:single:count-set:not-the-top-values')
  else:
    if unlabelled:
      mechs.append('getbest:multi:unlabelled-trial-reported')
    rest = got - unlabelled
    if not rest <= fr:
      mechs.append('getbest:multi:dominated-reported')
    want = len(fr) if count is None else min(count, len(fr))
    if len(rest & fr) < want:
      if study_unlabelled:
        # a label row holding a NaN that is still alive when the naive algorithm
        # reaches it eliminates every candidate that does not exceed it in one
        # of its numeric coordinates (all candidates, if the row is all NaN)
        mechs.append('getbest:multi:optimal-missing:study-has-unlabelled-trial')
      else:
        mechs.append('getbest:multi:optimal-missing')
    elif len(rest) > want:
      mechs.append('getbest:multi:count-set:too-many')
  return mechs or [f'{prefix}:unclassified']


def check_history(ctx, spec, S):
  fronts, interp, T = expected_fronts(spec)
  goals = spec['goals']
  kinds = sorted(t['k'] for t in T)
  pname = 'safety-as-objective' if spec['safety'] else 'plain'
  front = fronts[pname]
  n_q = len(interp[pname][0])
  nontrivial = len(T) >= 2 and (len(front) < len(T))
  ctx.case(['history', goals, bool(spec['safety']), kinds, len(front), spec['mode'],
            spec['count']], nontrivial=nontrivial)
  if any(k not in QUALIFYING for k in kinds):
    ctx.count('hist:with_nonqualifying')
  for k in set(kinds):
    ctx.count('hist_kind:' + k)
  if spec['safety']:
    ctx.count('hist:with_safety')
  ctx.count('hist:single_objective' if len(goals) == 1 else 'hist:multi_objective')
  if len(set(goals)) > 1:
    ctx.count('hist:mixed_goals')
  if len(front) >= 2:
    ctx.count('hist:with_ties' if len(goals) == 1 else 'hist:front_of_two_or_more')
  if n_q > len(front):
    ctx.count('hist:with_dominated_qualifying')
  vecs = list(interp[pname][1].values())
  if len({tuple(v) for v in vecs}) < len(vecs):
    ctx.count('hist:with_duplicate_vectors')
  try:
    check_service(ctx, spec, S, fronts, interp, T)
  except Exception as e:  # pylint: disable=broad-except
    import traceback
    ctx.inconclusive_reason(f'harness/service error on history {spec["index"]}: '
                            f'{type(e).__name__}: {e} :: ' + traceback.format_exc()[-600:])
  check_getbest(ctx, spec, fronts, interp, T)
