"""Sequential reference model of the Vizier service API (DESIGN.md Appendix A).

Written from the documentation (vizier_service.proto / study.proto comments,
servicer docstrings, client_abc.py); it does not import the code under test.
It works on the abstract (dict) views produced by vv.service.abs_*.

`step(call, observed_class, observed_resp)` advances the model *following the
observed choice wherever the documentation leaves a choice* (which REQUESTED
trial is handed out, parameters chosen by a real algorithm) and returns a list
of discrepancy strings (empty = the observation is one the model allows).
"""
import copy
import json
import re

OK, NOT_FOUND, FP, EXISTS, INVALID = (
    'OK', 'NOT_FOUND', 'FAILED_PRECONDITION', 'ALREADY_EXISTS', 'INVALID')
MUTABLE_TRIAL = ('ACTIVE', 'STOPPING')
STUB = 'VVSTUB'
STUB_NS = 'vvstub'

# a trial id has one spelling (the one the service hands out): ASCII digits, no sign,
# no padding, nothing after it ('$' would let a trailing newline through)
_STUDY_RE = re.compile(r'^owners/([^/]+)/studies/([^/]+)\Z')
_TRIAL_RE = re.compile(r'^owners/([^/]+)/studies/([^/]+)/trials/(0|[1-9][0-9]*)\Z')
_OP_RE = re.compile(r'^owners/([^/]+)/studies/([^/]+)/suggestion_operations|^owners/')


def stub_params(n):
  return {'x': ((n * 37) % 101) / 100.0, 'k': float(n % 10), 'c': 'ab'[n % 2]}


def algo_ns(ns):
  """Wire encoding of a one-component namespace written through pyvizier."""
  return ':' + ns


def _md_key(ns, key):
  return json.dumps([ns, key])


def _md_val(value):
  if isinstance(value, dict) and 'any' in value:
    return 'any:type.googleapis.com/vv.Blob:' + value['any']
  return 'str:' + value


def _clean_m(m):
  if m is None:
    return None
  return {'metrics': {k: float(v) for k, v in m.get('metrics', {}).items()},
          'steps': int(m.get('steps') or 0), 'secs': round(float(m.get('secs') or 0.0), 9)}


def dominates(a, b):
  """a dominates b (maximisation, vectors of equal length)."""
  return all(x >= y for x, y in zip(a, b)) and any(x > y for x, y in zip(a, b))


class ServiceModel:

  def __init__(self, space_member=None):
    self.owners = set()
    self.studies = {}      # name -> {'study': abs, 'trials': {id:int -> abs trial}, 'order': [ids], 'ops': {client: [op abs]}}
    self.space_member = space_member  # callable(params) -> bool for real-algorithm suggestions
    self.policy_calls = 0
    self.events = {}

  def _ev(self, k):
    self.events[k] = self.events.get(k, 0) + 1

  # ---- helpers --------------------------------------------------------------
  def _immutable(self, st):
    return st['study']['state'] not in ('ACTIVE', 'STATE_UNSPECIFIED')

  def _study(self, name):
    return self.studies.get(name)

  @staticmethod
  def _wellformed_study(name):
    return bool(_STUDY_RE.match(name))

  @staticmethod
  def _wellformed_trial(name):
    return bool(_TRIAL_RE.match(name))

  def snapshot(self, owners):
    out = {}
    for o in sorted(owners):
      if o not in self.owners:
        out[o] = NOT_FOUND
        continue
      od = {}
      for name, st in self.studies.items():
        if name.startswith(f'owners/{o}/studies/'):
          od[name] = {'study': copy.deepcopy(st['study']),
                      'trials': [copy.deepcopy(st['trials'][i]) for i in sorted(st['trials'])]}
      out[o] = od
    return out

  # ---- the transition function ------------------------------------------------
  def step(self, call, ocls, oresp):
    """Returns (allowed outcome classes, discrepancies)."""
    op = call['op']
    fn = getattr(self, '_' + op)
    allowed, expected, follow = fn(call, ocls, oresp)
    disc = []
    if ocls not in allowed:
      disc.append(f'outcome {ocls} not in allowed {sorted(allowed)} ({str(oresp)[:160]})')
      return allowed, disc
    if ocls == OK and expected is not None:
      d = diff(expected, oresp)
      if d:
        disc.append(f'response differs from model at {d}')
    return allowed, disc

  # Each handler returns (allowed classes, expected abstract response or None,
  # unused). Handlers mutate the model only for the OK outcome they predict.

  def _CreateStudy(self, c, ocls, oresp):
    if c.get('raw_parent') is not None and not re.match(r'^owners/[^/]+$', c['raw_parent']):
      return {INVALID, NOT_FOUND}, None, None
    if c.get('name_set') or not c.get('display'):
      return {INVALID}, None, None
    owner = c['owner']
    name = f'owners/{owner}/studies/{c["display"]}'
    if name in self.studies:
      return {OK}, copy.deepcopy(self.studies[name]['study']), None
    if '/' in c['display']:
      # a display name that cannot form a resource name
      return {INVALID}, None, None
    study = {'name': name, 'display': c['display'], 'state': c.get('state') or 'STATE_UNSPECIFIED',
             'algo': c.get('algo', STUB),
             'metrics': [list(m) for m in c.get('metrics', (('obj', 'MAXIMIZE'),))],
             'n_params': 3, 'metadata': {}}
    if ocls == OK:
      self.owners.add(owner)
      self.studies[name] = {'study': study, 'trials': {}, 'ops': {}, 'es': set()}
    return {OK}, copy.deepcopy(study), None

  def _GetStudy(self, c, ocls, oresp):
    if not self._wellformed_study(c['study']):
      return {INVALID, NOT_FOUND}, None, None
    st = self._study(c['study'])
    if st is None:
      return {NOT_FOUND}, None, None
    return {OK}, copy.deepcopy(st['study']), None

  def _ListStudies(self, c, ocls, oresp):
    if c.get('raw_parent') is not None and not re.match(r'^owners/[^/]+$', c['raw_parent']):
      return {INVALID, NOT_FOUND}, None, None
    o = c['owner']
    if o not in self.owners:
      return {NOT_FOUND}, None, None
    exp = [copy.deepcopy(st['study']) for n, st in self.studies.items()
           if n.startswith(f'owners/{o}/studies/')]
    return {OK}, exp, None

  def _DeleteStudy(self, c, ocls, oresp):
    if not self._wellformed_study(c['study']):
      return {INVALID, NOT_FOUND}, None, None
    if c['study'] not in self.studies:
      return {NOT_FOUND}, None, None
    if ocls == OK:
      del self.studies[c['study']]
    return {OK}, {}, None

  def _SetStudyState(self, c, ocls, oresp):
    if not self._wellformed_study(c['study']):
      return {INVALID, NOT_FOUND}, None, None
    st = self._study(c['study'])
    if st is None:
      return {NOT_FOUND}, None, None
    exp = copy.deepcopy(st['study'])
    exp['state'] = c['state']
    if ocls == OK:
      st['study']['state'] = c['state']
    return {OK}, exp, None

  def _guard(self, study_name, mutating=True):
    """Common precondition: study exists (else NOT_FOUND) and is mutable (else FP)."""
    st = self._study(study_name)
    if st is None:
      return None, {NOT_FOUND}
    if mutating and self._immutable(st):
      return None, {FP}
    return st, None

  def _CreateTrial(self, c, ocls, oresp):
    if not self._wellformed_study(c['study']):
      return {INVALID, NOT_FOUND}, None, None
    st, err = self._guard(c['study'])
    if err:
      return err, None, None
    tid = (max(st['trials']) if st['trials'] else 0) + 1
    state = 'SUCCEEDED' if c.get('state') == 'SUCCEEDED' else 'REQUESTED'
    t = {'name': f'{c["study"]}/trials/{tid}', 'id': str(tid), 'state': state, 'client_id': '',
         'params': {k: (float(v) if not isinstance(v, str) else v) for k, v in c.get('params', {}).items()},
         'n_params': len(c.get('params', {})),
         'measurements': [_clean_m(m) for m in c.get('measurements', [])],
         'final': _clean_m(c.get('final')), 'infeasible_reason': '',
         'metadata': {_md_key(ns, k): _md_val(v) for ns, k, v in c.get('metadata', [])},
         'has_start': True}
    if ocls == OK:
      st['trials'][tid] = copy.deepcopy(t)
    return {OK}, t, None

  def _SuggestTrials(self, c, ocls, oresp):
    if not self._wellformed_study(c['study']):
      return {INVALID, NOT_FOUND}, None, None
    st, err = self._guard(c['study'])
    if err:
      return err, None, None
    if ocls != OK:
      return {OK}, None, None
    # ---- follow the observation, checking it against the documented rules ----
    disc = self._follow_suggest(c, st, oresp)
    if disc:
      return {OK}, {'__model_discrepancies__': disc}, None
    return {OK}, None, None

  def _follow_suggest(self, c, st, oresp):
    disc = []
    client, n = c['client'], c['count']
    ops = st['ops'].setdefault(client, [])
    exp_name_tail = f'/{client}/{len(ops) + 1}'
    if not oresp['name'].endswith(exp_name_tail) or not oresp['name'].startswith('owners/'):
      disc.append(f'operation name {oresp["name"]} does not end with {exp_name_tail}')
    plan = c.get('_stub_entry') or {}
    algo = st['study']['algo']
    own_active = [t for i, t in sorted(st['trials'].items())
                  if t['state'] == 'ACTIVE' and t['client_id'] == client]
    pool = [t for i, t in sorted(st['trials'].items()) if t['state'] == 'REQUESTED']
    need_policy = max(0, n - len(own_active) - len(pool))
    if own_active:
      self._ev('suggests_with_own_active')
    if len(own_active) >= n:
      self._ev('sticky_reasks_fully_covered')
    if pool and len(own_active) < n:
      self._ev('suggests_from_pool')
    if need_policy:
      self._ev('suggests_reaching_algorithm')
      if algo == STUB and not plan.get('raise'):
        d_ = int(plan.get('delta', 0))
        self._ev('over_deliveries' if d_ > 0 else ('under_deliveries' if d_ < 0 else 'exact_deliveries'))
    fault = plan.get('raise') if (need_policy and algo == STUB) else None
    if need_policy and algo == STUB and c.get('_factory_fault'):
      fault = 'factory:' + c['_factory_fault']['raise']
    if fault:
      # documented: failure reported as finished operation carrying an error
      if not (oresp['done'] and oresp['error']):
        disc.append(f'algorithm raised {fault} but operation is done={oresp["done"]} error={oresp["error"]}')
      # REQUESTED trials handed to the worker before the failure stay ACTIVE: follow datastore
      ops.append({'name': oresp['name'], 'done': oresp['done']})
      if not str(fault).startswith('factory:'):
        self.policy_calls += 1
      # the pool trials were assigned before the algorithm ran
      self._assign_pool(st, pool, own_active, n, client, None, disc, partial=True)
      return disc
    if not oresp['done']:
      disc.append('operation returned not done')
    if oresp['error']:
      disc.append(f'operation carries error {oresp["error"]} although nothing failed')
      ops.append({'name': oresp['name'], 'done': oresp['done']})
      return disc
    got = oresp['trials'] or []
    # 1. own ACTIVE trials first, truncated to N
    exp_first = own_active[:n]
    if [t['id'] for t in got[:len(exp_first)]] != [t['id'] for t in exp_first]:
      disc.append(f'own ACTIVE trials {[t["id"] for t in exp_first]} not returned first: got {[t["id"] for t in got]}')
      ops.append({'name': oresp['name'], 'done': oresp['done']})
      return disc
    rest = got[len(exp_first):]
    # 2. REQUESTED pool
    take_pool = min(len(pool), max(0, n - len(exp_first)))
    pool_ids = {t['id'] for t in pool}
    from_pool = rest[:take_pool]
    if any(t['id'] not in pool_ids for t in from_pool) or len({t['id'] for t in from_pool}) != len(from_pool):
      disc.append(f'expected {take_pool} trials from the REQUESTED pool {sorted(pool_ids)}, got {[t["id"] for t in from_pool]}')
    for t in from_pool:
      if t['id'] in pool_ids:
        mt = st['trials'][int(t['id'])]
        mt['state'] = 'ACTIVE'
        mt['client_id'] = client
        mt['has_start'] = True
    new = rest[take_pool:]
    # 3. algorithm
    if need_policy:
      self.policy_calls += 1
      if algo == STUB:
        base = int(self._stub_counter(st))
        delivered = max(0, need_policy + int(plan.get('delta', 0)))
        used = min(delivered, need_policy)
        if len(new) != used:
          disc.append(f'algorithm delivered {delivered} for shortfall {need_policy}: expected {used} new trials, got {len(new)}')
        max_id = max(st['trials']) if st['trials'] else 0
        # every delivered suggestion becomes a trial: the first `used` ACTIVE, the surplus REQUESTED;
        # which suggestion gets which id is unspecified: match new trials by parameter multiset.
        all_sugg = [stub_params(base + i) for i in range(delivered)]
        remaining = [json.dumps(p, sort_keys=True) for p in all_sugg]
        for k, t in enumerate(new):
          key = json.dumps(t['params'], sort_keys=True)
          if key in remaining:
            remaining.remove(key)
          else:
            disc.append(f'new trial {t["id"]} has parameters {t["params"]} the algorithm did not deliver')
          if int(t['id']) <= max_id:
            disc.append(f'new trial id {t["id"]} not larger than existing max {max_id}')
          self._add_new(st, t, client, 'ACTIVE')
          max_id = max(max_id, int(t['id']))
        self._pending_surplus = remaining  # verified against the stored state by the snapshot comparison
        # model: surplus REQUESTED trials with fresh increasing ids
        for key in remaining:
          max_id += 1
          st['trials'][max_id] = {
              'name': f'{c["study"]}/trials/{max_id}', 'id': str(max_id), 'state': 'REQUESTED',
              'client_id': '', 'params': json.loads(key), 'n_params': 3, 'measurements': [],
              'final': None, 'infeasible_reason': '', 'metadata': {}, 'has_start': False,
              '_params_any_of': list(remaining)}
        # persisted algorithm state + metadata the algorithm wrote
        md = st['study']['metadata']
        md[_md_key(algo_ns(STUB_NS), 'n')] = 'str:' + str(base + delivered)
        md[_md_key(algo_ns(STUB_NS), 'calls')] = 'str:' + str(int(self._stub_calls(st)) + 1)
        for ns, key, value in plan.get('study_md', []):
          md[_md_key(algo_ns(ns), key)] = _md_val(value)
        for tid, ns, key, value in plan.get('trial_md', []):
          if int(tid) in st['trials']:
            st['trials'][int(tid)]['metadata'][_md_key(algo_ns(ns), key)] = _md_val(value)
      else:
        if len(new) > need_policy:
          disc.append(f'{len(new)} new trials for a shortfall of {need_policy}')
        max_id = max(st['trials']) if st['trials'] else 0
        for t in new:
          if self.space_member is not None and not self.space_member(t['params']):
            disc.append(f'suggested parameters outside the space: {t["params"]}')
          if int(t['id']) <= max_id:
            disc.append(f'new trial id {t["id"]} not larger than existing max {max_id}')
          self._add_new(st, t, client, 'ACTIVE')
          max_id = max(max_id, int(t['id']))
        st['_follow_state'] = True  # real algorithms may queue surplus / write metadata: follow the store
    elif new:
      disc.append(f'{len(new)} trials created although own ACTIVE + REQUESTED covered the request')
    for t in got:
      if t['state'] != 'ACTIVE' or t['client_id'] != client:
        disc.append(f'returned trial {t["id"]} is {t["state"]} owned by {t["client_id"]!r}, not ACTIVE/{client}')
    if len({t['id'] for t in got}) != len(got):
      disc.append('a trial is returned twice')
    ops.append({'name': oresp['name'], 'done': True})
    return disc

  def _assign_pool(self, st, pool, own_active, n, client, got, disc, partial=False):
    # when the algorithm fails after pool trials were assigned, the store decides
    # which of them stayed REQUESTED; reconcile() adopts the observation.
    take = min(len(pool), max(0, n - len(own_active)))
    if take:
      for t in pool:
        st['trials'][int(t['id'])]['_either'] = {'client': client, 'take': take}

  # ---- following the store where the documentation leaves a choice -----------
  def reconcile(self, obs_snap):
    """Adopts observed values for fields the model marked as unspecified."""
    for o, od in obs_snap.items():
      if isinstance(od, str):
        continue
      for name, ob in od.items():
        st = self.studies.get(name)
        if st is None or isinstance(ob['trials'], str):
          continue
        obs_by_id = {int(t['id']): t for t in ob['trials']}
        turned = 0
        for tid, t in st['trials'].items():
          e = t.pop('_either', None)
          if e and tid in obs_by_id:
            otr = obs_by_id[tid]
            if otr['state'] == 'ACTIVE' and otr['client_id'] == e['client']:
              t['state'], t['client_id'], t['has_start'] = 'ACTIVE', e['client'], otr['has_start']
              turned += 1
          any_of = t.get('_params_any_of')
          if any_of is not None and tid in obs_by_id:
            key = json.dumps(obs_by_id[tid]['params'], sort_keys=True)
            if key in any_of:
              any_of.remove(key)
              t['params'] = copy.deepcopy(obs_by_id[tid]['params'])
            t.pop('_params_any_of', None)
        if st.pop('_follow_state', None):
          # real algorithm: surplus suggestions may be queued, algorithm
          # namespaces of the study metadata may change. User namespace ('')
          # entries must not.
          mx = max(st['trials']) if st['trials'] else 0
          for tid, otr in sorted(obs_by_id.items()):
            if tid > mx and otr['state'] == 'REQUESTED' and (
                self.space_member is None or self.space_member(otr['params'])):
              st['trials'][tid] = copy.deepcopy(otr)
          new_md = {}
          for k, v in ob['study']['metadata'].items():
            ns = json.loads(k.split('#')[0])[0]
            if ns != '':
              new_md[k] = v
          for k, v in st['study']['metadata'].items():
            if json.loads(k.split('#')[0])[0] == '':
              new_md[k] = v
          st['study']['metadata'] = new_md

  def adopt(self, obs_snap):
    """Resynchronises the stored part of the model with the observation."""
    for o, od in obs_snap.items():
      if isinstance(od, str):
        continue
      self.owners.add(o)
      for name in [n for n in self.studies if n.startswith(f'owners/{o}/studies/') and n not in od]:
        del self.studies[name]
      for name, ob in od.items():
        st = self.studies.setdefault(name, {'study': None, 'trials': {}, 'ops': {}, 'es': set()})
        st['study'] = copy.deepcopy(ob['study'])
        if not isinstance(ob['trials'], str):
          st['trials'] = {int(t['id']): copy.deepcopy(t) for t in ob['trials']}

  def _add_new(self, st, t, client, state):
    st['trials'][int(t['id'])] = {
        'name': t['name'], 'id': t['id'], 'state': state, 'client_id': client,
        'params': copy.deepcopy(t['params']), 'n_params': t['n_params'], 'measurements': [],
        'final': None, 'infeasible_reason': '', 'metadata': copy.deepcopy(t.get('metadata', {})),
        'has_start': True}

  def _stub_counter(self, st):
    v = st['study']['metadata'].get(_md_key(algo_ns(STUB_NS), 'n'), 'str:0')
    return v[4:]

  def _stub_calls(self, st):
    v = st['study']['metadata'].get(_md_key(algo_ns(STUB_NS), 'calls'), 'str:0')
    return v[4:]

  def _GetOperation(self, c, ocls, oresp):
    m = re.match(r'^owners/([^/]+)/studies/([^/]+)/suggestion_operations/([^/]+)/(\d+)$', c['name']) \
        or re.match(r'^owners/([^/]+)/operations/suggestion/([^/]+)/([^/]+)/(\d+)$', c['name'])
    known = {o['name'] for st in self.studies.values() for ops in st['ops'].values() for o in ops}
    if c['name'] in known:
      return {OK}, None, None
    return {NOT_FOUND, INVALID}, None, None

  def _GetTrial(self, c, ocls, oresp):
    m = _TRIAL_RE.match(c['trial'])
    if not m:
      return {INVALID, NOT_FOUND}, None, None
    st = self._study(c['trial'].rsplit('/trials/', 1)[0])
    if st is None or int(m.group(3)) not in st['trials']:
      return {NOT_FOUND}, None, None
    return {OK}, self._view(st['trials'][int(m.group(3))]), None

  def _ListTrials(self, c, ocls, oresp):
    if not self._wellformed_study(c['study']):
      return {INVALID, NOT_FOUND}, None, None
    st = self._study(c['study'])
    if st is None:
      return {NOT_FOUND}, None, None
    return {OK}, {'__id_sorted__': [self._view(st['trials'][i]) for i in sorted(st['trials'])]}, None

  @staticmethod
  def _view(t):
    return {k: v for k, v in t.items()}

  def _trial_guard(self, name, mutating=True):
    m = _TRIAL_RE.match(name)
    if not m:
      return None, None, {INVALID, NOT_FOUND}
    sname = name.rsplit('/trials/', 1)[0]
    st = self._study(sname)
    if st is None:
      return None, None, {NOT_FOUND}
    if mutating and self._immutable(st):
      return None, None, {FP}
    t = st['trials'].get(int(m.group(3)))
    if t is None:
      return st, None, {NOT_FOUND}
    return st, t, None

  def _AddTrialMeasurement(self, c, ocls, oresp):
    st, t, err = self._trial_guard(c['trial'])
    if err:
      return err, None, None
    if t['state'] == 'INFEASIBLE':
      return {OK, FP}, (self._view(t) if ocls == OK else None), None
    if t['state'] not in MUTABLE_TRIAL:
      return {FP}, None, None
    exp = copy.deepcopy(t)
    exp['measurements'].append(_clean_m(c['m']))
    if ocls == OK:
      t['measurements'].append(_clean_m(c['m']))
    return {OK}, exp, None

  def _CompleteTrial(self, c, ocls, oresp):
    st, t, err = self._trial_guard(c['trial'])
    if err:
      return err, None, None
    if t['state'] not in MUTABLE_TRIAL:
      return {FP}, None, None
    exp = copy.deepcopy(t)
    final = _clean_m(c.get('final'))
    if final is not None and final['metrics']:
      exp['final'] = final
    elif not c.get('infeasible'):
      if not t['measurements']:
        return {INVALID}, None, None
      exp['final'] = copy.deepcopy(t['measurements'][-1])
    if c.get('infeasible'):
      exp['state'] = 'INFEASIBLE'
      exp['infeasible_reason'] = c.get('reason', '')
    else:
      exp['state'] = 'SUCCEEDED'
    if ocls == OK:
      st['trials'][int(t['id'])] = copy.deepcopy(exp)
    return {OK}, exp, None

  def _StopTrial(self, c, ocls, oresp):
    st, t, err = self._trial_guard(c['trial'])
    if err:
      return err, None, None
    if t['state'] == 'ACTIVE':
      exp = copy.deepcopy(t)
      exp['state'] = 'STOPPING'
      if ocls == OK:
        t['state'] = 'STOPPING'
      return {OK}, exp, None
    if t['state'] in ('STOPPING', 'SUCCEEDED'):
      return {OK}, self._view(t), None
    if t['state'] == 'INFEASIBLE':
      return {OK, FP}, (self._view(t) if ocls == OK else None), None
    return {FP}, None, None

  def _DeleteTrial(self, c, ocls, oresp):
    st, t, err = self._trial_guard(c['trial'])
    if err:
      return err, None, None
    if ocls == OK:
      del st['trials'][int(t['id'])]
    return {OK}, {}, None

  def _CheckTrialEarlyStoppingState(self, c, ocls, oresp):
    st, t, err = self._trial_guard(c['trial'])
    if err:
      return err, None, None
    if t['state'] not in MUTABLE_TRIAL:
      return {FP}, None, None
    if (c.get('_es_entry') or {}).get('raise'):
      # a failing early-stopping algorithm is reported as an error of any class
      # (or answered from a recent record without reaching the algorithm)
      return {OK, ocls}, None, None
    return {OK}, {'should_stop': 'masked'}, None

  def _UpdateMetadata(self, c, ocls, oresp):
    if not self._wellformed_study(c['study']):
      return {INVALID, NOT_FOUND}, None, None
    st, err = self._guard(c['study'])
    if err:
      return err, None, None
    # a trial id that is not a positive integer is an invalid argument (nothing is changed)
    if any(tid is not None and not (str(tid).isascii() and str(tid).isdigit() and int(tid) > 0)
           for tid, _, _, _ in c['delta']):
      return {INVALID}, None, None
    missing = [tid for tid, _, _, _ in c['delta'] if tid is not None and int(tid) not in st['trials']]
    if missing:
      return {OK}, {'error_details': True}, None
    if ocls == OK:
      for tid, ns, key, value in c['delta']:
        target = st['study'] if tid is None else st['trials'][int(tid)]
        target['metadata'][_md_key(ns, key)] = _md_val(value)
    return {OK}, {'error_details': False}, None

  def _ListOptimalTrials(self, c, ocls, oresp):
    if not self._wellformed_study(c['study']):
      return {INVALID, NOT_FOUND}, None, None
    st = self._study(c['study'])
    if st is None:
      return {NOT_FOUND}, None, None
    metrics = st['study']['metrics']
    cand = []
    for i in sorted(st['trials']):
      t = st['trials'][i]
      if t['state'] != 'SUCCEEDED' or t['final'] is None:
        continue
      vals = t['final']['metrics']
      if not all(name in vals for name, _ in metrics):
        continue
      vec = [vals[name] if goal == 'MAXIMIZE' else -vals[name] for name, goal in metrics]
      if any(v != v for v in vec):
        continue
      cand.append((t, vec))
    opt = [t for t, v in cand if not any(dominates(w, v) for _, w in cand)]
    return {OK}, {'__id_set__': sorted(t['id'] for t in opt)}, None


# ---------------------------------------------------------------------------
# structural diff with the model's wildcards
# ---------------------------------------------------------------------------
def diff(exp, obs, path=''):
  """Returns a description of the first difference, or ''."""
  if isinstance(exp, dict) and '__model_discrepancies__' in exp:
    return '; '.join(exp['__model_discrepancies__'])
  if isinstance(exp, dict) and '__id_sorted__' in exp:
    if not isinstance(obs, list):
      return f'{path}: expected list'
    return diff(exp['__id_sorted__'], sorted(obs, key=lambda t: int(t['id'])), path)
  if isinstance(exp, dict) and '__id_set__' in exp:
    got = sorted(t['id'] for t in obs)
    return '' if got == exp['__id_set__'] else f'{path}: optimal ids {got} != {exp["__id_set__"]}'
  if isinstance(exp, dict):
    if not isinstance(obs, dict):
      return f'{path}: {obs!r} is not a dict'
    either = exp.get('_either')
    any_of = exp.get('_params_any_of')
    for k in exp:
      if k.startswith('_'):
        continue
      if k not in obs:
        return f'{path}/{k}: missing'
      if k in ('state', 'client_id', 'has_start') and either:
        continue
      if k == 'has_start' and exp.get('state') == 'REQUESTED':
        continue  # whether a queued trial carries a start time is unspecified
      if k == 'params' and any_of is not None:
        if json.dumps(obs[k], sort_keys=True) not in any_of:
          return f'{path}/params: {obs[k]} not among the surplus suggestions'
        continue
      d = diff(exp[k], obs[k], f'{path}/{k}')
      if d:
        return d
    extra = [k for k in obs if k not in exp and not k.startswith('_')]
    if extra:
      return f'{path}: unexpected keys {extra}'
    return ''
  if isinstance(exp, list):
    if not isinstance(obs, list) or len(exp) != len(obs):
      return f'{path}: length {len(obs) if isinstance(obs, list) else "?"} != {len(exp)}'
    for i, (a, b) in enumerate(zip(exp, obs)):
      d = diff(a, b, f'{path}[{i}]')
      if d:
        return d
    return ''
  if isinstance(exp, float) or isinstance(obs, float):
    try:
      return '' if float(exp) == float(obs) else f'{path}: {obs!r} != {exp!r}'
    except (TypeError, ValueError):
      return f'{path}: {obs!r} != {exp!r}'
  return '' if exp == obs else f'{path}: {obs!r} != {exp!r}'


def diff_snapshot(model_snap, obs_snap):
  """Compares full stored state; trials compared as id-sorted lists."""
  for o in model_snap:
    m, ob = model_snap[o], obs_snap.get(o)
    if isinstance(m, str) or isinstance(ob, str):
      if m != ob:
        return f'owner {o}: {ob!r} != {m!r}'
      continue
    if sorted(m) != sorted(ob):
      return f'owner {o}: studies {sorted(ob)} != {sorted(m)}'
    for name in m:
      d = diff(m[name]['study'], ob[name]['study'], name)
      if d:
        return d
      if isinstance(ob[name]['trials'], str):
        return f'{name}: {ob[name]["trials"]}'
      d = diff(m[name]['trials'], sorted(ob[name]['trials'], key=lambda t: int(t['id'])), name + '/trials')
      if d:
        return d
  return ''
