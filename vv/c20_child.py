"""Fresh interpreter for the cross-process slice of C20 (seeded noise wrappers).

usage: python -m vv.c20_child <job.json> <out.json>
job = {'cases': [{'tree': desc, 'batches': [[point, ...], ...]}, ...]}
Evaluates every batch sequence on a freshly built tree and writes the outcomes.
The parent starts this under different PYTHONHASHSEED values.
"""
import json
import sys

import vv.boot  # noqa: F401
from vv import c20_lib as L
from vv.checks import c20


def main():
  job = json.load(open(sys.argv[1]))
  out = []
  quiet = c20.M(None, None, quiet=True)
  for case in job['cases']:
    try:
      tree = c20.build_tree(quiet, case['tree'])
      seq = []
      for pts in case['batches']:
        trials = [c20.mk_trial(p) for p in pts]
        tree.exp.evaluate(trials)
        seq.append(c20.outcomes_of(trials))
      out.append({'ok': True, 'seq': seq})
    except Exception as e:  # pylint: disable=broad-except
      out.append({'ok': False, 'exc': f'{type(e).__name__}: {e}'[:200]})
  json.dump(out, open(sys.argv[2], 'w'), default=repr)


if __name__ == '__main__':
  main()
