"""Generated RPC programs against the real servicer, checked by the model.

Programs are generated *online*: the next call is drawn given the current model
state so that every (study state x trial state x exists/missing) cell of every
RPC is reachable with useful probability. The executed call list is the case
(JSON) and can be replayed verbatim.
"""
import copy
import json

from vv import model as model_lib
from vv import service as S
from vv import gen

OPS = ['CreateStudy', 'GetStudy', 'ListStudies', 'DeleteStudy', 'SetStudyState', 'CreateTrial',
       'SuggestTrials', 'GetOperation', 'GetTrial', 'ListTrials', 'AddTrialMeasurement',
       'CompleteTrial', 'StopTrial', 'DeleteTrial', 'CheckTrialEarlyStoppingState',
       'UpdateMetadata', 'ListOptimalTrials']

DEFAULT_WEIGHTS = {
    'CreateStudy': 6, 'GetStudy': 2, 'ListStudies': 2, 'DeleteStudy': 1.5, 'SetStudyState': 3,
    'CreateTrial': 8, 'SuggestTrials': 12, 'GetOperation': 2, 'GetTrial': 3, 'ListTrials': 2,
    'AddTrialMeasurement': 8, 'CompleteTrial': 12, 'StopTrial': 5, 'DeleteTrial': 3,
    'CheckTrialEarlyStoppingState': 3, 'UpdateMetadata': 6, 'ListOptimalTrials': 3,
}

OWNERS = ['o1', 'o2']
# names that differ only by case / by a character an SQL LIKE wildcard would match
DISPLAYS = ['sa1', 's_1', 'S_1']
CLIENTS = ['w1', 'w2', 'w3']
STATES = ['ACTIVE', 'INACTIVE', 'COMPLETED', 'STATE_UNSPECIFIED']
NAMESPACES = ['', 'user', ':a', 'a:b', 'é']
# 'a:k' under the empty namespace and 'k' under ':a' would collide in any scheme that joins namespace and key
KEYS = ['k', 'k2', '', 'a:k']
REAL_ALGOS = ['RANDOM_SEARCH', 'GRID_SEARCH', 'QUASI_RANDOM_SEARCH']


def space_member(params):
  return gen.member(S.SPACE_DESC, params)


def _metric_value(rng):
  return rng.choice([0.0, 1.0, -1.0, 0.5, 2.5, 1e6, -3.25, rng.uniform(-10, 10)])


def gen_measurement(rng, metrics, allow_missing=True):
  m = {'metrics': {}}
  for name, _ in metrics:
    if allow_missing and rng.random() < 0.08:
      continue
    m['metrics'][name] = _metric_value(rng)
  if rng.random() < 0.1:
    m['metrics']['extra'] = 1.0
  if rng.random() < 0.6:
    m['steps'] = rng.choice([0, 1, 5, 100])
  if rng.random() < 0.6:
    m['secs'] = rng.choice([0.0, 1.0, 1.5, 0.25, 12.0])
  return m


def pick_study(rng, mdl, p_missing=0.12, p_malformed=0.02):
  r = rng.random()
  if r < p_malformed:
    return rng.choice(['owners/o1/studies', 'studies/s1', 'owners//studies/s1', 'garbage'])
  names = sorted(mdl.studies)
  if names and r > p_missing + p_malformed:
    return rng.choice(names)
  return S.study_name(rng.choice(OWNERS + ['ghost']), rng.choice(DISPLAYS + ['nope']))


NEAR_MISS_KINDS = ['suffix-x', 'slash', 'subresource', 'float', 'pad0', 'plus', 'lead-space', 'trail-space',
                   'newline', 'fullwidth', 'underscore', 'lead-junk']


def near_miss_trial_name(rng, sname, tid, kind=None):
  kind = kind or rng.choice(NEAR_MISS_KINDS)
  base = f'{sname}/trials/'
  return {
      'suffix-x': f'{base}{tid}x', 'slash': f'{base}{tid}/', 'subresource': f'{base}{tid}/measurements/4',
      'float': f'{base}{tid}.0', 'pad0': f'{base}0{tid}', 'plus': f'{base}+{tid}', 'lead-space': f'{base} {tid}',
      'trail-space': f'{base}{tid} ', 'newline': f'{base}{tid}\n',
      'fullwidth': base + ''.join(chr(0xFF10 + int(ch)) for ch in str(tid)),
      'underscore': f'{base}{tid}_0' if tid < 10 else f'{base}{str(tid)[0]}_{str(tid)[1:]}',
      'lead-junk': f'x/{base}{tid}',
  }[kind]


def pick_trial(rng, mdl, want_states=None, p_missing=0.12, p_malformed=0.04):
  """Returns a trial resource name biased towards trials in `want_states`."""
  r = rng.random()
  cands = []
  for sname, st in sorted(mdl.studies.items()):
    for tid, t in sorted(st['trials'].items()):
      cands.append((sname, tid, t['state']))
  recent = mdl.__dict__.get('_recent_trials') or []
  if recent and r >= p_malformed and rng.random() < 0.3:
    return rng.choice(recent)
  if r < p_malformed:
    if cands and rng.random() < 0.7:
      # near misses: strings that *contain* the name of an existing trial, or spell its
      # id differently; none of them is the name of a trial
      sname, tid, _ = rng.choice(cands)
      return near_miss_trial_name(rng, sname, tid)
    return rng.choice(['owners/o1/studies/s1/trials/x', 'owners/o1/studies/s1/trials', 'junk'])
  if cands and r > p_missing + p_malformed:
    if want_states and rng.random() < 0.7:
      pref = [c for c in cands if c[2] in want_states]
      if pref:
        cands = pref
    sname, tid, _ = rng.choice(cands)
    return f'{sname}/trials/{tid}'
  sname = pick_study(rng, mdl, p_missing=0.3, p_malformed=0)
  return f'{sname}/trials/{rng.choice([1, 2, 7, 99])}'


def gen_call(rng, mdl, weights=None, profile=None):
  """One call, generated against the model state. Trial-level calls come back to trials
  that recent calls were about (the same trial met again after its state changed)."""
  c = _gen_call(rng, mdl, weights, profile)
  if c.get('trial'):
    recent = mdl.__dict__.setdefault('_recent_trials', [])
    recent.append(c['trial'])
    del recent[:-4]
  return c


def _gen_call(rng, mdl, weights=None, profile=None):
  profile = profile or {}
  weights = weights or DEFAULT_WEIGHTS
  if not mdl.studies and rng.random() < 0.8:
    op = 'CreateStudy'
  else:
    ops = list(weights)
    op = rng.choices(ops, [weights[o] for o in ops])[0]
  if op == 'CreateStudy':
    c = {'op': op, 'owner': rng.choice(OWNERS), 'display': rng.choice(DISPLAYS)}
    r = rng.random()
    algos = profile.get('algos') or ([S.STUB] * 8 + REAL_ALGOS)
    c['algo'] = rng.choice(algos)
    if rng.random() < 0.3:
      c['metrics'] = [['obj', rng.choice(['MAXIMIZE', 'MINIMIZE'])], ['cost', rng.choice(['MAXIMIZE', 'MINIMIZE'])]]
    else:
      c['metrics'] = [['obj', rng.choice(['MAXIMIZE', 'MINIMIZE'])]]
    if r < 0.03:
      c['name_set'] = True
    elif r < 0.06:
      c['display'] = ''
    elif r < 0.08:
      c['raw_parent'] = rng.choice(['owners', 'o1', 'owners/o1/x'])
    if rng.random() < 0.1:
      c['state'] = rng.choice(STATES)
    return c
  if op in ('GetStudy', 'DeleteStudy', 'ListTrials', 'ListOptimalTrials'):
    return {'op': op, 'study': pick_study(rng, mdl)}
  if op == 'ListStudies':
    c = {'op': op, 'owner': rng.choice(OWNERS + ['ghost'])}
    if rng.random() < 0.03:
      c['raw_parent'] = 'nonsense'
    return c
  if op == 'SetStudyState':
    return {'op': op, 'study': pick_study(rng, mdl), 'state': rng.choice(['ACTIVE', 'INACTIVE', 'COMPLETED', 'ACTIVE'])}
  if op == 'CreateTrial':
    sname = pick_study(rng, mdl)
    metrics = (mdl.studies.get(sname) or {'study': {'metrics': [['obj', 'MAXIMIZE']]}})['study']['metrics']
    c = {'op': op, 'study': sname, 'params': gen.sample_point(rng, S.SPACE_DESC)}
    r = rng.random()
    if r < 0.35:
      c['state'] = 'SUCCEEDED'
      c['final'] = gen_measurement(rng, metrics)
    elif r < 0.45:
      c['state'] = rng.choice(['ACTIVE', 'REQUESTED'])
    if rng.random() < 0.15:
      c['client_id'] = rng.choice(CLIENTS)
    if rng.random() < 0.15:
      c['metadata'] = [[rng.choice(NAMESPACES), rng.choice(KEYS), rng.choice(['v', '', 'w'])]]
    return c
  if op == 'SuggestTrials':
    c = {'op': op, 'study': pick_study(rng, mdl), 'count': rng.choice([1, 1, 2, 2, 3, 5]),
         'client': rng.choice(CLIENTS)}
    deltas = profile.get('deltas', [0, 0, 0, 0, 1, 2])
    c['_stub_entry'] = {'delta': rng.choice(deltas)}
    if profile.get('algo_md') and rng.random() < 0.3:
      c['_stub_entry']['study_md'] = [[rng.choice(['algo', 'user', 'vvstub2']), rng.choice(KEYS), rng.choice(['av', ''])]]
    return c
  if op == 'GetOperation':
    names = [o['name'] for st in mdl.studies.values() for ops in st['ops'].values() for o in ops]
    if names and rng.random() < 0.75:
      return {'op': op, 'name': rng.choice(sorted(names))}
    if names and rng.random() < 0.4:
      # near miss of an existing operation name (same number, another spelling)
      nm = rng.choice(sorted(names))
      head, num = nm.rsplit('/', 1)
      return {'op': op, 'name': rng.choice([f'{head}/0{num}', f'{head}/+{num}', f'{head}/{num} ', f'{head}/{num}/', f'{head}/{num}x'])}
    sname = pick_study(rng, mdl, p_malformed=0)
    o, s = (sname.split('/') + ['', '', '', ''])[1], (sname.split('/') + ['', '', '', ''])[3]
    return {'op': op, 'name': rng.choice([
        f'owners/{o}/operations/suggestion/{s}/w1/9', f'owners/{o}/operations/suggestion/{s}/w1/9', 'owners/o1/operations/x', 'bogus'])}
  if op == 'GetTrial':
    return {'op': op, 'trial': pick_trial(rng, mdl)}
  if op == 'AddTrialMeasurement':
    t = pick_trial(rng, mdl, want_states=('ACTIVE', 'STOPPING') if rng.random() < 0.6 else ('SUCCEEDED', 'INFEASIBLE', 'REQUESTED'))
    return {'op': op, 'trial': t, 'm': gen_measurement(rng, [['obj', 'MAXIMIZE']], allow_missing=False)}
  if op == 'CompleteTrial':
    t = pick_trial(rng, mdl, want_states=('ACTIVE', 'STOPPING') if rng.random() < 0.65 else ('SUCCEEDED', 'INFEASIBLE', 'REQUESTED'))
    sname = t.rsplit('/trials/', 1)[0]
    metrics = (mdl.studies.get(sname) or {'study': {'metrics': [['obj', 'MAXIMIZE']]}})['study']['metrics']
    c = {'op': op, 'trial': t}
    r = rng.random()
    if r < 0.6:
      c['final'] = gen_measurement(rng, metrics)
    elif r < 0.7:
      c['final'] = {'metrics': {}}
    if rng.random() < 0.2:
      c['infeasible'] = True
      c['reason'] = rng.choice(['', 'oom', 'nan loss'])
    return c
  if op in ('StopTrial', 'CheckTrialEarlyStoppingState'):
    t = pick_trial(rng, mdl, want_states=('ACTIVE', 'STOPPING') if rng.random() < 0.6 else ('SUCCEEDED', 'INFEASIBLE', 'REQUESTED'))
    c = {'op': op, 'trial': t}
    if op == 'CheckTrialEarlyStoppingState':
      # the decision of the harness algorithm (consulted for the studies it runs)
      c['_es_entry'] = {'stop': rng.random() < 0.5}
    return c
  if op == 'DeleteTrial':
    return {'op': op, 'trial': pick_trial(rng, mdl)}
  if op == 'UpdateMetadata':
    sname = pick_study(rng, mdl)
    st = mdl.studies.get(sname)
    delta = []
    for _ in range(rng.randint(1, 4)):
      tid = None
      if rng.random() < 0.55:
        if st and st['trials'] and rng.random() < 0.85:
          tid = rng.choice(sorted(st['trials']))
        elif rng.random() < 0.7:
          tid = rng.choice([1, 9, 42])
        else:
          # not a trial id at all (trial ids are positive integers)
          tid = rng.choice(['0', '-1', 'x', '1.0', '1x'])
      val = rng.choice(['v1', 'v2', '', {'any': 'blob1'}, {'any': ''}])
      delta.append([tid, rng.choice(NAMESPACES), rng.choice(KEYS), val])
    return {'op': op, 'study': sname, 'delta': delta}
  raise ValueError(op)


def lifecycle_tail(rng, mdl):
  """Scripted continuation: one ACTIVE trial is taken through the rest of its life, and after
  each change of state every trial-level call is repeated on it (a call that was legal a
  moment ago must now fail, whatever the server remembers about the trial)."""
  cands = []
  for sname, st in sorted(mdl.studies.items()):
    if st['study']['state'] not in ('ACTIVE', 'STATE_UNSPECIFIED'):
      continue
    for tid, t in sorted(st['trials'].items()):
      if t['state'] == 'ACTIVE':
        cands.append(f'{sname}/trials/{tid}')
  if not cands:
    return []
  t = rng.choice(cands)
  sname = t.split('/trials/')[0]

  def every_op():
    return [{'op': 'CheckTrialEarlyStoppingState', 'trial': t, '_es_entry': {'stop': rng.random() < 0.5}},
            {'op': 'AddTrialMeasurement', 'trial': t, 'm': {'metrics': {'obj': 0.5}, 'steps': 3}},
            {'op': 'StopTrial', 'trial': t},
            {'op': 'CompleteTrial', 'trial': t, 'final': {'metrics': {'obj': 0.75}}},
            {'op': 'UpdateMetadata', 'study': sname, 'delta': [[int(t.rsplit('/', 1)[1]), 'user', 'k', 'v1']]},
            {'op': 'GetTrial', 'trial': t}]
  calls = [{'op': 'CheckTrialEarlyStoppingState', 'trial': t, '_es_entry': {'stop': True}},
           {'op': 'AddTrialMeasurement', 'trial': t, 'm': {'metrics': {'obj': 0.25}, 'steps': 1}}]
  end = rng.choice(['complete', 'infeasible', 'stop-then-complete'])
  if end == 'stop-then-complete':
    calls += [{'op': 'StopTrial', 'trial': t}] + every_op()[:2]
  if end == 'infeasible':
    calls.append({'op': 'CompleteTrial', 'trial': t, 'infeasible': True, 'reason': rng.choice(['', 'oom'])})
  else:
    calls.append({'op': 'CompleteTrial', 'trial': t, 'final': {'metrics': {'obj': 1.0}}})
  calls += every_op()
  calls.append({'op': 'DeleteTrial', 'trial': t})
  calls += every_op() + [{'op': 'DeleteTrial', 'trial': t}]
  return calls


def pre_state_class(mdl, call):
  """Abstract class of the state the call meets (for coverage / distinctness)."""
  op = call['op']
  name = call.get('trial') or call.get('study')
  if op in ('CreateStudy', 'ListStudies'):
    return 'owner-known' if call.get('owner') in mdl.owners else 'owner-unknown'
  if name is None:
    return '-'
  sname = name.split('/trials/', 1)[0] if '/trials/' in name else name
  st = mdl.studies.get(sname)
  if st is None:
    return 'study-missing'
  sstate = st['study']['state']
  if 'trial' in call:
    if not mdl._wellformed_trial(name):
      return f'{sstate}/malformed'
    tid = int(name.rsplit('/', 1)[1])
    t = st['trials'].get(tid)
    return f'{sstate}/' + (t['state'] if t else 'trial-missing')
  return sstate


class ProgramRunner:
  """Executes calls on a servicer while checking them against the model."""

  def __init__(self, backend='ram', with_monitor=True, servicer=None, early_stop_recycle_s=0.0):
    self.monitor = S.WriteMonitor() if with_monitor else None
    self.controller = S.Controller()
    self.servicer = servicer or S.make_servicer(backend, self.controller, self.monitor,
                                                early_stop_recycle_s=early_stop_recycle_s)
    self.model = model_lib.ServiceModel(space_member=space_member)
    self.owners = set(OWNERS) | {'ghost'}
    self.trace = []
    self.coverage = []
    self.discrepancies = []

  def step(self, call):
    """Executes one call; returns list of discrepancy dicts."""
    disc = []
    pre = pre_state_class(self.model, call)
    mon_before = len(self.monitor.anomalies) if self.monitor else 0
    self.controller.plan.clear()
    if call['op'] == 'CreateStudy' and call.get('display'):
      # the harness algorithm answers early-stopping requests for the studies it runs; a
      # CreateStudy naming an existing study creates nothing and changes no routing
      nm = S.study_name(call['owner'], call['display'])
      if nm not in self.model.studies:
        if call.get('algo', S.STUB) == S.STUB:
          self.controller.stub_studies.add(nm)
        else:
          self.controller.stub_studies.discard(nm)
    entry = call.get('_stub_entry')
    calls_before = self.controller.suggest_calls
    if entry is not None:
      self.controller.plan.append(dict(entry))
    self.controller.es_plan.clear()
    self.controller.factory_faults.clear()
    if call.get('_factory_fault') is not None:
      self.controller.factory_faults.append(dict(call['_factory_fault']))
    if call.get('_es_entry') is not None:
      self.controller.es_plan.append(dict(call['_es_entry']))
    before = S.snapshot(self.servicer, self.owners)
    mp_before = self.model.policy_calls
    st_ = self.model.studies.get(call.get('study', ''))
    is_stub = bool(st_ and st_['study']['algo'] == S.STUB)
    ocls, oresp, raw = S.call_servicer(self.servicer, call)
    self.last_response = oresp
    self.last_raw = raw
    self.controller.plan.clear()
    self.controller.es_plan.clear()
    self.controller.factory_faults.clear()
    allowed, d = self.model.step(call, ocls, oresp)
    for x in d:
      disc.append({'kind': 'model', 'what': x})
    after = S.snapshot(self.servicer, self.owners)
    if ocls != S.OK:
      # a failing call leaves all stored data unchanged
      if before != after:
        disc.append({'kind': 'failed-call-changed-state',
                     'what': f'{call["op"]} returned {ocls} but stored data changed: '
                             + model_lib.diff(before, after)[:300]})
    self.model.reconcile(after)
    sd = model_lib.diff_snapshot(self.model.snapshot(self.owners), after)
    if sd:
      disc.append({'kind': 'state', 'what': 'stored state differs from model: ' + sd})
      # resynchronise so that one defect is reported once, not at every later step
      self.model.adopt(after)
    if self.monitor:
      for kind, detail in self.monitor.anomalies[mon_before:]:
        disc.append({'kind': 'monitor:' + kind, 'what': json.dumps(detail, default=str)[:300]})
    if call['op'] == 'SuggestTrials' and is_stub and not any(x['kind'] == 'model' for x in disc):
      # the algorithm is reached iff own ACTIVE + REQUESTED pool did not cover the request
      reached = self.controller.suggest_calls - calls_before
      expected = self.model.policy_calls - mp_before
      if reached != expected:
        disc.append({'kind': 'algorithm-reach', 'what':
                     f'algorithm invoked {reached}x, model expects {expected}x'})
    self.trace.append({'call': call, 'outcome': ocls})
    self.coverage.append((call['op'], pre, ocls))
    for x in disc:
      x['step'] = len(self.trace) - 1
      x['op'] = call['op']
      x['pre'] = pre
      x['outcome'] = ocls
    self.discrepancies.extend(disc)
    return disc
