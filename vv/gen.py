"""Shared generators and independent oracles for search spaces.

A *space description* is a plain JSON-able list of parameter descriptions

  {'name': str, 'kind': 'DOUBLE'|'INTEGER'|'DISCRETE'|'CATEGORICAL'|'BOOL',
   'lo': .., 'hi': ..,            # DOUBLE / INTEGER
   'values': [...],               # DISCRETE / CATEGORICAL
   'scale': None|'LINEAR'|'LOG'|'REVERSE_LOG',
   'default': value|None}

`build_space(desc)` builds the repository's SearchSpace from it through the
public `add_*_param` builders. `member(desc, assignment)` decides membership
from the description alone, without touching the repository's objects (this is
the independent oracle used by C03 / C15 / C16).
"""
import math

KINDS = ['DOUBLE', 'INTEGER', 'DISCRETE', 'CATEGORICAL', 'BOOL']


# ---------------------------------------------------------------------------
# generation
# ---------------------------------------------------------------------------
def gen_param(rng, name, kinds=KINDS, scales=True, defaults=True,
              max_int_width=10 ** 4, allow_singleton=True, wide=True):
  kind = rng.choice(kinds)
  p = {'name': name, 'kind': kind, 'scale': None, 'default': None}
  if kind == 'DOUBLE':
    cls = rng.choice(['unit', 'neg', 'tiny', 'huge', 'pos', 'singleton', 'generic']
                     if wide else ['unit', 'neg', 'pos', 'generic'])
    if cls == 'unit':
      lo, hi = 0.0, 1.0
    elif cls == 'neg':
      lo, hi = -rng.uniform(1, 100), -rng.uniform(0.001, 0.9)
    elif cls == 'tiny':
      lo = rng.uniform(-5, 5)
      hi = lo + 1e-9
    elif cls == 'huge':
      lo, hi = -1e12, 1e12
    elif cls == 'pos':
      lo = 10 ** rng.uniform(-6, 2)
      hi = lo * 10 ** rng.uniform(0.1, 6)
    elif cls == 'singleton':
      lo = hi = rng.choice([0.0, 1.5, -2.0, 3.0])
      if not allow_singleton:
        hi = lo + 1.0
    else:
      lo = rng.uniform(-50, 50)
      hi = lo + rng.uniform(0.01, 100)
    p['lo'], p['hi'] = float(lo), float(hi)
    if scales and lo > 0 and hi > lo:
      p['scale'] = rng.choice([None, 'LINEAR', 'LOG', 'REVERSE_LOG'])
    elif scales:
      p['scale'] = rng.choice([None, 'LINEAR'])
    if defaults and rng.random() < 0.3:
      p['default'] = rng.choice([lo, hi, (lo + hi) / 2])
  elif kind == 'INTEGER':
    cls = rng.choice(['small', 'singleton', 'mid', 'wide', 'neg'])
    if cls == 'small':
      lo = rng.randint(-3, 3)
      hi = lo + rng.randint(1, 6)
    elif cls == 'singleton':
      lo = hi = rng.randint(-5, 5)
      if not allow_singleton:
        hi = lo + 1
    elif cls == 'mid':
      lo = rng.randint(0, 5)
      hi = lo + rng.randint(11, 60)
    elif cls == 'wide':
      lo = rng.randint(1, 10)
      hi = lo + rng.randint(100, max_int_width)
    else:
      hi = -rng.randint(1, 5)
      lo = hi - rng.randint(1, 30)
    p['lo'], p['hi'] = int(lo), int(hi)
    if scales and lo > 0 and hi > lo:
      p['scale'] = rng.choice([None, 'LINEAR', 'LOG', 'REVERSE_LOG'])
    elif scales:
      p['scale'] = rng.choice([None, 'LINEAR'])
    if defaults and rng.random() < 0.3:
      p['default'] = rng.choice([lo, hi])
  elif kind == 'DISCRETE':
    n = rng.choice([1, 2, 3, 4, 5, 8, 15]) if allow_singleton else rng.choice([2, 3, 4, 5, 8, 15])
    cls = rng.choice(['integral', 'frac', 'neg', 'pos'])
    vals = set()
    while len(vals) < n:
      if cls == 'integral':
        vals.add(float(rng.randint(-10, 30)))
      elif cls == 'frac':
        vals.add(round(rng.uniform(-5, 5), 3))
      elif cls == 'neg':
        vals.add(-round(rng.uniform(0.1, 50), 2))
      else:
        vals.add(round(10 ** rng.uniform(-3, 3), 6))
    p['values'] = sorted(vals)
    if scales and p['values'][0] > 0 and n > 1:
      p['scale'] = rng.choice([None, 'LINEAR', 'LOG', 'REVERSE_LOG'])
    elif scales:
      p['scale'] = rng.choice([None, 'LINEAR'])
    if defaults and rng.random() < 0.3:
      p['default'] = rng.choice(p['values'])
  elif kind == 'CATEGORICAL':
    n = rng.choice([1, 2, 3, 4, 6]) if allow_singleton else rng.choice([2, 3, 4, 6])
    pool = ['a', 'b', 'c', 'dd', 'é', 'True', 'False', '1', 'x y', 'Z', '0.5', 'none']
    p['values'] = sorted(rng.sample(pool, n))
    if defaults and rng.random() < 0.3:
      p['default'] = rng.choice(p['values'])
  else:  # BOOL
    p['values'] = ['False', 'True']
    if defaults and rng.random() < 0.3:
      p['default'] = rng.choice([True, False])
  return p


def gen_space(rng, min_params=1, max_params=6, **kw):
  n = rng.randint(min_params, max_params)
  names = []
  out = []
  for i in range(n):
    style = rng.random()
    if style < 0.7:
      name = rng.choice(['x', 'lr', 'p', 'units', 'opt', 'k']) + str(i)
    elif style < 0.85:
      name = f'v[{i}]'
    else:
      name = rng.choice(['é', 'a b', 'A.b', 'a:b']) + str(i)
    names.append(name)
    out.append(gen_param(rng, name, **kw))
  return out


def build_space(desc):
  """Builds the repository's SearchSpace through its public builders."""
  from vizier import pyvizier as vz
  space = vz.SearchSpace()
  root = space.root
  for p in desc:
    st = getattr(vz.ScaleType, p['scale']) if p.get('scale') else None
    kw = {}
    if p.get('default') is not None:
      kw['default_value'] = p['default']
    if p['kind'] == 'DOUBLE':
      root.add_float_param(p['name'], p['lo'], p['hi'], scale_type=st, **kw)
    elif p['kind'] == 'INTEGER':
      root.add_int_param(p['name'], p['lo'], p['hi'], scale_type=st, **kw)
    elif p['kind'] == 'DISCRETE':
      root.add_discrete_param(p['name'], list(p['values']), scale_type=st, **kw)
    elif p['kind'] == 'CATEGORICAL':
      root.add_categorical_param(p['name'], list(p['values']), **kw)
    elif p['kind'] == 'BOOL':
      root.add_bool_param(p['name'], **kw)
    else:
      raise ValueError(p['kind'])
  return space


def sample_value(rng, p, boundary_bias=0.25):
  """Independent sampler of one feasible value (python native types)."""
  k = p['kind']
  if k == 'DOUBLE':
    lo, hi = p['lo'], p['hi']
    if rng.random() < boundary_bias:
      return rng.choice([lo, hi])
    v = lo + (hi - lo) * rng.random()
    return min(max(v, lo), hi)
  if k == 'INTEGER':
    if rng.random() < boundary_bias:
      return rng.choice([p['lo'], p['hi']])
    return rng.randint(p['lo'], p['hi'])
  if k in ('DISCRETE', 'CATEGORICAL', 'BOOL'):
    return rng.choice(p['values'])
  raise ValueError(k)


def sample_point(rng, desc, **kw):
  return {p['name']: sample_value(rng, p, **kw) for p in desc}


# ---------------------------------------------------------------------------
# independent membership oracle
# ---------------------------------------------------------------------------
def _is_real_number(v):
  return isinstance(v, (int, float)) and not isinstance(v, bool)


def member1(p, v, strict_types=False):
  """Is raw python value `v` inside parameter `p`'s domain?

  Numeric parameters accept int or float holding the value (the wire format
  changes the Python type, never the value). Booleans are not numbers.
  """
  k = p['kind']
  if k == 'DOUBLE':
    if not _is_real_number(v) or isinstance(v, float) and not math.isfinite(v):
      return False
    return p['lo'] <= v <= p['hi']
  if k == 'INTEGER':
    if not _is_real_number(v):
      return False
    if isinstance(v, float) and (not math.isfinite(v) or v != math.floor(v)):
      return False
    return p['lo'] <= v <= p['hi']
  if k == 'DISCRETE':
    if not _is_real_number(v):
      return False
    return any(float(v) == float(f) for f in p['values'])
  if k in ('CATEGORICAL', 'BOOL'):
    if not isinstance(v, str):
      return False
    return v in p['values']
  raise ValueError(k)


def member(desc, assignment, unwrap=True):
  """Every parameter present exactly once, in-domain, and nothing else."""
  names = [p['name'] for p in desc]
  keys = list(assignment.keys()) if hasattr(assignment, 'keys') else None
  if keys is None or sorted(keys) != sorted(names):
    return False
  for p in desc:
    v = assignment[p['name']]
    if unwrap and hasattr(v, 'value') and not isinstance(v, (int, float, str)):
      v = v.value
    if not member1(p, v):
      return False
  return True


def why_not_member(desc, assignment):
  names = [p['name'] for p in desc]
  keys = sorted(assignment.keys())
  if keys != sorted(names):
    return f'parameter names {keys} != {sorted(names)}'
  for p in desc:
    v = assignment[p['name']]
    if hasattr(v, 'value') and not isinstance(v, (int, float, str)):
      v = v.value
    if not member1(p, v):
      return f'{p["name"]}={v!r} ({type(v).__name__}) outside {p}'
  return None


def space_shape(desc):
  """Abstract shape of a space, for distinctness hashing."""
  out = []
  for p in desc:
    if p['kind'] in ('DOUBLE', 'INTEGER'):
      w = p['hi'] - p['lo']
      wc = 0 if w == 0 else (1 if w <= 10 else (2 if w <= 1e4 else 3))
      out.append((p['kind'], p['scale'], wc, p['lo'] < 0, p['default'] is not None))
    else:
      out.append((p['kind'], p.get('scale'), len(p['values']), p['default'] is not None))
  return sorted(map(str, out))
