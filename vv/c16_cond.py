"""Conditional / typed search-space descriptions shared by C16 and C17.

A *tree description* extends the flat description of `vv.gen`: every parameter
description may carry

  'children': [[parent_values, [child descriptions...]], ...]   # JSON-able
  'auto_cast': bool            # DISCRETE only (default True)
  'base', 'index'              # the builder is called with index=..., the
                               # resulting name is '<base>[<index>]' == 'name'
  'select_as_bool': bool       # BOOL parents: select(...) is given python bools

Names are unique over the whole tree except that the same child description
may hang under several parent values of one parent (only one copy can ever be
active). Everything here is computed from the description alone; the
repository's objects are only touched in `build_tree`.
"""
import math

from vv import gen

PARENT_KINDS = ['INTEGER', 'DISCRETE', 'CATEGORICAL', 'BOOL']


# ---------------------------------------------------------------------------
# generation
# ---------------------------------------------------------------------------
class _Names:

  def __init__(self, rng, exotic=True):
    self.n = 0
    self.rng = rng
    self.exotic = exotic

  def fresh(self):
    self.n += 1
    r = self.rng.random()
    if r < 0.8 or not self.exotic:
      stem = self.rng.choice(['x', 'lr', 'p', 'units', 'opt', 'k', 'model'])
    else:
      stem = self.rng.choice(['é', 'a b', 'A.b', 'a:b', 'n-1'])
    return f'{stem}{self.n}'


def _small_parent(rng, name, kind):
  """A parent parameter with a small finite domain."""
  p = {'name': name, 'kind': kind, 'scale': None, 'default': None}
  if kind == 'INTEGER':
    lo = rng.randint(-3, 5)
    p['lo'], p['hi'] = lo, lo + rng.randint(0, 4)
  elif kind == 'DISCRETE':
    cls = rng.choice(['integral', 'frac'])
    n = rng.randint(1, 4)
    vals = set()
    while len(vals) < n:
      vals.add(float(rng.randint(-4, 12)) if cls == 'integral'
               else round(rng.uniform(-5, 5), 2))
    p['values'] = sorted(vals)
    p['auto_cast'] = rng.random() < 0.8
  elif kind == 'CATEGORICAL':
    pool = ['a', 'b', 'c', 'dd', 'é', 'True', 'False', '1', 'x y', 'Z', '0.5']
    p['values'] = sorted(rng.sample(pool, rng.randint(1, 4)))
  else:
    p['values'] = ['False', 'True']
    p['select_as_bool'] = rng.random() < 0.5
  return p


def domain_values(p):
  """All values of a finite-domain parameter (python native)."""
  if p['kind'] == 'INTEGER':
    return list(range(p['lo'], p['hi'] + 1))
  return list(p['values'])


def gen_tree(rng, depth, min_top=1, max_top=3, p_parent=0.6, names=None,
             leaf_kw=None):
  """Random conditional space of nesting depth <= `depth` (0 = flat)."""
  names = names or _Names(rng)
  leaf_kw = leaf_kw or {}

  def level(d, n):
    out = []
    for _ in range(n):
      name = names.fresh()
      if d < depth and rng.random() < p_parent:
        p = _small_parent(rng, name, rng.choice(PARENT_KINDS))
        dom = domain_values(p)
        groups = []
        for _g in range(rng.randint(1, 2)):
          k = 1 if rng.random() < 0.55 else rng.randint(1, min(3, len(dom)))
          vals = sorted(rng.sample(dom, k), key=lambda v: (str(type(v)), v))
          kids = level(d + 1, rng.randint(1, 2))
          groups.append([vals, kids])
        p['children'] = groups
      else:
        p = gen.gen_param(rng, name, max_int_width=200, **leaf_kw)
        if p['kind'] == 'DISCRETE':
          p['auto_cast'] = rng.random() < 0.8
      out.append(p)
    return out

  tree = level(0, rng.randint(min_top, max_top))
  return tree


def tree_depth(tree):
  d = 0
  for p in tree:
    for _vals, kids in p.get('children', []):
      d = max(d, 1 + tree_depth(kids))
  return d


def all_params(tree):
  """Every parameter description of the tree, de-duplicated by name."""
  out = {}

  def rec(plist):
    for p in plist:
      out.setdefault(p['name'], p)
      for _vals, kids in p.get('children', []):
        rec(kids)
  rec(tree)
  return out


def param_depths(tree):
  out = {}

  def rec(plist, d):
    for p in plist:
      out.setdefault(p['name'], d)
      for _vals, kids in p.get('children', []):
        rec(kids, d + 1)
  rec(tree, 0)
  return out


# ---------------------------------------------------------------------------
# building the repository's objects
# ---------------------------------------------------------------------------
def add_param(selector, p):
  """Adds `p` (and its subtree) through the public builders."""
  from vizier import pyvizier as vz
  kw = {}
  name = p['name']
  if p.get('index') is not None:
    kw['index'] = p['index']
    name = p['base']
  if p.get('default') is not None:
    kw['default_value'] = p['default']
  st = getattr(vz.ScaleType, p['scale']) if p.get('scale') else None
  k = p['kind']
  if k == 'DOUBLE':
    selector.add_float_param(name, p['lo'], p['hi'], scale_type=st, **kw)
  elif k == 'INTEGER':
    selector.add_int_param(name, p['lo'], p['hi'], scale_type=st, **kw)
  elif k == 'DISCRETE':
    selector.add_discrete_param(
        name, list(p.get('given_values', p['values'])), scale_type=st,
        auto_cast=p.get('auto_cast', True), **kw)
  elif k == 'CATEGORICAL':
    selector.add_categorical_param(name, list(p['values']), **kw)
  elif k == 'BOOL':
    selector.add_bool_param(name, **kw)
  else:
    raise ValueError(k)
  for vals, kids in p.get('children', []):
    sel_vals = list(vals)
    if k == 'BOOL' and p.get('select_as_bool'):
      sel_vals = [v == 'True' for v in vals]
    sub = selector.select(p['name'], sel_vals)
    for kid in kids:
      add_param(sub, kid)


def add_children_only(selector, p):
  """Attaches the subtree of an already added parameter `p`."""
  k = p['kind']
  for vals, kids in p.get('children', []):
    sel_vals = list(vals)
    if k == 'BOOL' and p.get('select_as_bool'):
      sel_vals = [v == 'True' for v in vals]
    sub = selector.select(p['name'], sel_vals)
    for kid in kids:
      add_param(sub, kid)


def build_tree_queried_while_flat(tree, probe):
  """Builds the same space in two stages: first only the top-level parameters
  (a flat space), on which `probe(space)` is called (the user looks at / queries
  the space early), then the conditional children are attached to the *same*
  object. Whatever the space answered while flat must not stick."""
  from vizier import pyvizier as vz
  space = vz.SearchSpace()
  for p in tree:
    add_param(space.root, dict(p, children=[]))
  probe(space)
  for p in tree:
    add_children_only(space.root, p)
  return space


def build_tree(tree):
  from vizier import pyvizier as vz
  from vv import common
  space = vz.SearchSpace()
  try:
    for p in tree:
      add_param(space.root, p)
  except Exception as e:  # pylint: disable=broad-except
    # every generated tree is a valid definition (unique names per subspace,
    # finite ordered bounds, children only under finite-domain parents)
    raise common.RepoRefusedValidInput(
        f'builder:valid-conditional-definition-rejected:{type(e).__name__}',
        f'building a valid conditional search space through the public builders raised {type(e).__name__}: {e}',
        {'tree': tree}) from e
  return space


# ---------------------------------------------------------------------------
# independent oracles
# ---------------------------------------------------------------------------
def value_matches(p, v, vals):
  """Does the chosen value `v` of parent `p` select the group `vals`?"""
  if p['kind'] in ('CATEGORICAL', 'BOOL'):
    if isinstance(v, bool):
      v = 'True' if v else 'False'
    return v in vals
  if isinstance(v, str):
    return False
  return any(float(v) == float(x) for x in vals)


def active_walk(tree, choices):
  """Parameters that are active under `choices` (name -> value | None).

  Returns [(description, depth)] in depth-first order. A parameter without a
  chosen value (None / absent) is visited but activates no children.
  """
  out = []

  def rec(plist, d):
    for p in plist:
      out.append((p, d))
      v = choices.get(p['name'])
      if v is None:
        continue
      for vals, kids in p.get('children', []):
        if value_matches(p, v, vals):
          rec(kids, d + 1)
  rec(tree, 0)
  return out


def draw_choices(rng, tree, p_child_bias=0.6, int_as_float=0.2):
  """A value for every parameter of the tree (whether it ends up active or not)."""
  choices = {}
  for name, p in all_params(tree).items():
    groups = p.get('children', [])
    if groups and rng.random() < p_child_bias:
      v = rng.choice(rng.choice(groups)[0])
    else:
      v = gen.sample_value(rng, p)
    if p['kind'] in ('INTEGER', 'DISCRETE') and rng.random() < int_as_float:
      v = float(v)
    elif p['kind'] == 'DISCRETE' and float(v).is_integer() and rng.random() < 0.3:
      v = int(v)
    choices[name] = v
  return choices


def declared_external(p):
  """The presentation type the property demands for parameter `p`."""
  k = p['kind']
  if k == 'DOUBLE':
    return 'DOUBLE'
  if k == 'INTEGER':
    return 'INTEGER_PARAM'     # add_int_param declares no external type
  if k == 'DISCRETE':
    integral = all(math.isfinite(float(x)) and float(x).is_integer()
                   for x in p['values'])
    return 'INTEGER' if (p.get('auto_cast', True) and integral) else 'FLOAT'
  if k == 'CATEGORICAL':
    return 'CATEGORICAL'
  if k == 'BOOL':
    return 'BOOLEAN'
  raise ValueError(k)


def split_indexed(name):
  """'x[10]' -> ('x', 10); anything else -> None (own parser, no regex)."""
  if not name.endswith(']'):
    return None
  lb = name.rfind('[')
  if lb <= 0:
    return None
  digits = name[lb + 1:-1]
  if not digits or not all(c in '0123456789' for c in digits):
    return None
  return name[:lb], int(digits)


def tree_shape(tree):
  """Abstract shape for distinctness hashing."""
  out = []

  def rec(plist, d):
    for p in plist:
      groups = p.get('children', [])
      out.append((d, p['kind'], len(groups),
                  tuple(sorted(len(g[0]) for g in groups)),
                  declared_external(p)))
      for _vals, kids in groups:
        rec(kids, d + 1)
  rec(tree, 0)
  return sorted(map(str, out))
