"""Syscall-level crash injection for C05 (thorough tier).

The server runs as a fresh process under
  strace -f -e trace=... -e inject=<syscall>:signal=SIGKILL:when=N
so that it dies inside SQLite's own commit protocol (journal written / database
half written / journal not yet unlinked). A dry run under `strace -o` locates the
victim RPC's syscall index range through two marker syscalls.
"""
import os
import re
import subprocess
import sys

SYSCALLS = ['pwrite64', 'fdatasync', 'unlink']
ITEMS = [('two_active', 'CompleteTrial'), ('mixed', 'UpdateMetadata'), ('two_active', 'SuggestNew'),
         ('mixed', 'DeleteStudy'), ('pool', 'SuggestSameWorker'), ('fresh', 'CreateStudy'),
         ('two_active', 'DeleteTrial'), ('mixed', 'CreateTrialDone'), ('two_active', 'AddTrialMeasurement'),
         ('mixed', 'SetStudyState'), ('two_active', 'StopTrial'), ('mixed', 'EarlyStop')]


def _child_cmd(db, pname, vname, mark):
  return [sys.executable, '-m', 'vv.c05_child', db, pname, vname, mark]


def dry_run(tmp, pname, vname):
  trace = os.path.join(tmp, 'trace.txt')
  db = os.path.join(tmp, 'sdry.db')
  cmd = ['strace', '-f', '-o', trace, '-e', 'trace=' + ','.join(SYSCALLS + ['rmdir'])] + _child_cmd(db, pname, vname, tmp)
  r = subprocess.run(cmd, capture_output=True, text=True, timeout=180, cwd=os.path.dirname(os.path.dirname(os.path.abspath(__file__))))
  if 'VICTIM' not in r.stdout:
    return None, f'dry run failed: {r.stdout[-200:]} {r.stderr[-300:]}'
  # main thread = pid of the first line
  counts = {s: [0, 0] for s in SYSCALLS}   # [before begin, inside]
  phase = 0
  main_pid = None
  with open(trace) as fh:
    for line in fh:
      m = re.match(r'^(\d+)\s+(\w+)\(', line)
      if not m:
        continue
      pid, name = m.group(1), m.group(2)
      if main_pid is None:
        main_pid = pid
      if name == 'rmdir':
        if 'VV_MARK_BEGIN' in line:
          phase = 1
        elif 'VV_MARK_END' in line:
          phase = 2
        continue
      if pid != main_pid or name not in counts or phase == 2:
        continue
      counts[name][phase] += 1
  for f in (trace, db, db + '-journal'):
    try:
      os.remove(f)
    except OSError:
      pass
  return counts, None


def crash_run(tmp, pname, vname, syscall, when, tag):
  db = os.path.join(tmp, f's-{tag}.db')
  cmd = ['strace', '-f', '-o', '/dev/null', '-e', 'trace=' + syscall,
         '-e', f'inject={syscall}:signal=SIGKILL:when={when}'] + _child_cmd(db, pname, vname, tmp)
  r = subprocess.run(cmd, capture_output=True, text=True, timeout=180, cwd=os.path.dirname(os.path.dirname(os.path.abspath(__file__))))
  acks = [l for l in r.stdout.splitlines() if l.startswith('ACK')]
  victim = [l for l in r.stdout.splitlines() if l.startswith('VICTIM')]
  return db, acks, victim, r.returncode


def run_one(ctx, tmp, pname, vname, only=None, sample=None):
  from vv.checks import c05
  counts, err = dry_run(tmp, pname, vname)
  if err:
    ctx.inconclusive_reason(f'strace {pname}/{vname}: {err}')
    return
  kind, victim = c05.VICTIMS[vname]
  prefix = c05.PREFIXES[pname]
  without, _ = c05.reference_state(tmp, prefix, 'swithout')
  with_, _ = c05.reference_state(tmp, prefix + [victim], 'swith')
  for s in SYSCALLS:
    n0, n1 = counts[s]
    ctx.count(f'syscalls_inside_victim:{s}', n1)
    js = list(range(1, n1 + 1))
    if sample is not None and only is None:
      # a thin slice: database-page writes only, early / middle / last
      js = sorted({min(2, n1), n1 // 2 + 1, n1}) if (s == 'pwrite64' and n1) else []
    for j in js:
      if only is not None and (s, j) != only:
        continue
      if ctx.out_of_time() and sample is None:
        return
      db, acks, vic, rc = crash_run(tmp, pname, vname, s, n0 + j, f'{s}{j}')
      case = {'strace': True, 'prefix': pname, 'victim': vname, 'syscall': s, 'j': j, 'k': f'{s}#{j}', 'B': n1}
      killed = rc != 0 and not vic
      if killed:
        ctx.count('syscall_crash_points_hit')
      ctx.case(['strace', pname, vname, s, j], nontrivial=killed)
      if len(acks) < len(prefix):
        ctx.note('strace: crash landed before the victim (index drift); case skipped')
        continue
      problems = c05.recover_and_check(ctx, db, case, kind, without, with_, bool(vic), True)
      for mech, what in problems[:3]:
        ctx.violation(mech, f'{pname}/{vname} killed at {s} #{j}/{n1} inside the victim: {what}'[:600], case)
      for suffix in ('', '-journal'):
        try:
          os.remove(db + suffix)
        except OSError:
          pass


def run(ctx, tmp, sample=None):
  if sample is not None:
    # quick tier: one item per shard, rotated by the seed
    i = (ctx.shard + ctx.seed) % len(ITEMS)
    if ctx.shard < len(ITEMS):
      run_one(ctx, tmp, ITEMS[i][0], ITEMS[i][1], sample=sample)
    return
  for i, (pname, vname) in enumerate(ITEMS):
    if i % ctx.nshards != ctx.shard:
      continue
    if ctx.out_of_time():
      break
    run_one(ctx, tmp, pname, vname)


def replay(ctx, tmp, case):
  run_one(ctx, tmp, case['prefix'], case['victim'], only=(case['syscall'], case['j']))
