"""Shared pieces of the C13 / C14 checks.

* problem descriptions (JSON-able) -> vz.ProblemStatement
* designer specs (JSON-able) -> designer factories `f(problem, seed=None)`
* a deterministic objective and completion script (who completes when, who is
  infeasible) that depends only on (script, trial id, parameters)
* canonical form of suggestions (value equality, not type equality)
* metadata routes: Metadata -> KeyValue protos -> (bytes | SQL file) -> Metadata
"""
import copy
import hashlib
import itertools
import json
import os

from vv import gen

NS_ROOT = 'designer_policy_v0'
NS_DESIGNER = 'designer'

KINDS_ALL = ['DOUBLE', 'INTEGER', 'DISCRETE', 'CATEGORICAL', 'BOOL']


# ---------------------------------------------------------------------------
# problems
# ---------------------------------------------------------------------------
def gen_problem(rng, kind, n_objectives=1, safety=False, big=False):
  """JSON-able problem for designer `kind` (only spaces the designer documents)."""
  if kind == 'cmaes':
    n = rng.randint(2, 4)
    space = []
    for i in range(n):
      p = gen.gen_param(rng, f'x{i}', kinds=['DOUBLE'], defaults=False, wide=False,
                        allow_singleton=False)
      if p['hi'] <= p['lo']:
        p['hi'] = p['lo'] + 1.0
      space.append(p)
  else:
    space = gen.gen_space(rng, min_params=1, max_params=4 if not big else 3,
                          defaults=False, wide=False, max_int_width=150)
    # unique names are guaranteed by the index suffix in gen_space
  if big:
    # >= 2**10 points for every designer: add one wide continuous and one wide
    # integer parameter
    space = [p for p in space if p['name'] not in ('big_f', 'big_i')]
    space.append({'name': 'big_f', 'kind': 'DOUBLE', 'lo': -3.0, 'hi': 5.0,
                  'scale': None, 'default': None})
    if kind != 'cmaes':
      space.append({'name': 'big_i', 'kind': 'INTEGER', 'lo': 0, 'hi': 2047,
                    'scale': None, 'default': None})
  metrics = []
  for k in range(n_objectives):
    metrics.append({'name': f'm{k}', 'goal': rng.choice(['MAXIMIZE', 'MINIMIZE']),
                    'safety': None})
  if safety:
    metrics.append({'name': 'safe', 'goal': 'MAXIMIZE', 'safety': 0.3})
  return {'space': space, 'metrics': metrics}


def build_problem(pd):
  from vizier import pyvizier as vz
  p = vz.ProblemStatement(search_space=gen.build_space(pd['space']))
  for m in pd['metrics']:
    kw = {}
    if m.get('safety') is not None:
      kw['safety_threshold'] = m['safety']
    p.metric_information.append(vz.MetricInformation(
        m['name'], goal=getattr(vz.ObjectiveMetricGoal, m['goal']), **kw))
  return p


def n_points(pd, double_res=10):
  n = 1
  for p in pd['space']:
    if p['kind'] == 'DOUBLE':
      n *= 1 if p['lo'] == p['hi'] else double_res
    elif p['kind'] == 'INTEGER':
      n *= p['hi'] - p['lo'] + 1
    else:
      n *= len(p['values'])
  return n


# ---------------------------------------------------------------------------
# designers
# ---------------------------------------------------------------------------
DESIGNER_KINDS = ['grid', 'sgrid', 'qr', 'eagle', 'nsga2', 'cmaes']
_unrelated = itertools.count(7001)


def gen_designer(rng, kind):
  cfg = {}
  if kind in ('grid', 'sgrid'):
    cfg['res'] = rng.choice([10, 10, 3, 4, 7])
  elif kind == 'qr':
    cfg['skip'] = rng.choice([1000, 1000, 0, 1, 17])
  elif kind == 'eagle':
    cfg['variant'] = rng.choice(['default', 'default', 'explore', 'infeasible_force'])
  elif kind == 'nsga2':
    ps = rng.choice([2, 3, 4, 5])
    cfg['population_size'] = ps
    cfg['first_survival_after'] = rng.choice([None, ps, ps + 2, 3])
    cfg['eviction_limit'] = rng.choice([None, None, 2, 3])
  return {'kind': kind, 'cfg': cfg}


def make_factory(ds, seedless='real'):
  """Returns f(problem, seed=None).

  seedless='real': a call without a seed behaves as the real class does (time /
  OS entropy); for the shuffled grid, whose production factory binds a
  wall-clock shuffle seed, an unrelated constant is bound instead. Only
  `load()` can then restore the stream.
  """
  kind, cfg = ds['kind'], ds.get('cfg', {})
  if kind == 'grid':
    from vizier._src.algorithms.designers import grid
    return lambda p, seed=None: grid.GridSearchDesigner(
        p.search_space, None, double_grid_resolution=cfg.get('res', 10))
  if kind == 'sgrid':
    from vizier._src.algorithms.designers import grid
    def f(p, seed=None):
      if seed is None:
        seed = next(_unrelated)
      return grid.GridSearchDesigner(p.search_space, seed,
                                     double_grid_resolution=cfg.get('res', 10))
    return f
  if kind == 'qr':
    from vizier._src.algorithms.designers import quasi_random
    return lambda p, seed=None: quasi_random.QuasiRandomDesigner(
        p.search_space, skip_points=cfg.get('skip', 1000), seed=seed)
  if kind == 'random':
    from vizier._src.algorithms.designers import random as random_designer
    return lambda p, seed=None: random_designer.RandomDesigner(p.search_space, seed=seed)
  if kind == 'eagle':
    from vizier._src.algorithms.designers.eagle_strategy import eagle_strategy
    from vizier._src.algorithms.designers.eagle_strategy import eagle_strategy_utils as esu
    variant = cfg.get('variant', 'default')
    def f(p, seed=None):
      config = None
      if variant == 'explore':
        config = esu.FireflyAlgorithmConfig(explore_rate=1.5, penalize_factor=0.5,
                                            perturbation_lower_bound=0.05)
      elif variant == 'infeasible_force':
        config = esu.FireflyAlgorithmConfig(infeasible_force_factor=0.1)
      return eagle_strategy.EagleStrategyDesigner(p, config=config, seed=seed)
    return f
  if kind == 'nsga2':
    from vizier._src.algorithms.evolution import nsga2
    return lambda p, seed=None: nsga2.NSGA2Designer(
        p, population_size=cfg.get('population_size', 50),
        first_survival_after=cfg.get('first_survival_after'),
        eviction_limit=cfg.get('eviction_limit'), seed=seed)
  if kind == 'cmaes':
    from vizier._src.algorithms.designers import cmaes
    def f(p, seed=None):
      return cmaes.CMAESDesigner(p) if seed is None else cmaes.CMAESDesigner(
          p, seed=int(seed))
    return f
  raise ValueError(kind)


# ---------------------------------------------------------------------------
# deterministic objective / completion script
# ---------------------------------------------------------------------------
def _h(*parts):
  d = hashlib.sha256('/'.join(map(str, parts)).encode()).digest()
  return int.from_bytes(d[:8], 'big') / 2.0 ** 64


def gen_script(rng, n_steps, kind, max_batch=5):
  if kind == 'eagle':
    # pool capacity is >= 11: make the mutation phase reachable within n steps
    batches = [rng.choice([6, 8, 12, 14])] + [rng.randint(1, max_batch + 2)
                                              for _ in range(n_steps - 1)]
  elif kind == 'cmaes':
    batches = [rng.choice([1, 2, 3, 4, 6, 7]) for _ in range(n_steps)]
  else:
    batches = [rng.randint(1, max_batch) for _ in range(n_steps)]
  return {'batches': batches,
          'p_complete': rng.choice([1.0, 1.0, 0.8, 0.5]),
          'p_infeasible': 0.0 if kind == 'cmaes' else rng.choice([0.0, 0.0, 0.1, 0.3]),
          'salt': rng.getrandbits(30)}


def unit_value(p, v):
  k = p['kind']
  if k in ('DOUBLE', 'INTEGER'):
    return 0.5 if p['hi'] == p['lo'] else (float(v) - p['lo']) / (p['hi'] - p['lo'])
  vals = p['values']
  for i, f in enumerate(vals):
    if (k == 'DISCRETE' and float(f) == float(v)) or (k != 'DISCRETE' and str(f) == str(v)):
      return (i + 0.5) / len(vals)
  return 0.0


def objective(pd, salt, params, k):
  s = 0.0
  for j, p in enumerate(pd['space']):
    u = unit_value(p, params[p['name']])
    c = _h(salt, 'c', j, k)
    s -= (u - c) ** 2
  # keep 6 significant decimals: values survive every float32/float64 hop
  v = round(s + 0.25 * k, 6)
  if _h(salt, 'plateau') < 0.3:
    # a third of the scripts clip the objective: a plateau of *exact* zeros (a falsy
    # metric value that has to survive dump / load like any other number)
    return 0.0 if v < -0.1 else round(v + 0.1, 6)
  return v


def decide(script, trial_id, step):
  """('complete'|'infeasible'|'wait') for an ACTIVE trial at the end of `step`."""
  if _h(script['salt'], 'inf', trial_id) < script['p_infeasible']:
    return 'infeasible'
  if script['p_complete'] >= 1.0:
    return 'complete'
  return 'complete' if _h(script['salt'], 'cmp', trial_id, step) < script['p_complete'] else 'wait'


# Metric values a real study can report and that every hop of the state
# (float32 arrays, JSON text, KeyValue protos, SQL) has to carry unchanged:
# diverged runs (+-inf), undefined results (NaN), values beyond float32 range,
# denormals, the negative zero, values that are not exactly representable in
# float32 / in 6 decimals. Opt-in through script['special'] = {'p', 'values'}
# (strings, parsed with float()); scripts without the key behave as before.
SPECIAL_VALUES = ['inf', '-inf', 'nan', '1e300', '-1e300', '1e39', '3.4028235e38',
                  '5e-324', '1e-310', '-0.0', '0.1', '123456789.12345679',
                  '-0.3333333333333333']
NONFINITE_VALUES = ['inf', '-inf', 'nan']


def gen_special(rng, p_none=0.45):
  """A profile of unusual metric values, or None (drawn by the caller's rng).

  Two thirds of the profiles hold only non-finite values, the rest a mix of the
  whole list with at least one non-finite value.
  """
  u = rng.random()
  kind = rng.random()
  n = rng.randint(1, 3)
  p = rng.choice([0.25, 0.4, 0.6])
  values = rng.sample(NONFINITE_VALUES, n)
  more = rng.sample(SPECIAL_VALUES, rng.randint(2, 4))
  if u < p_none:
    return None
  if kind >= 0.65:
    values = sorted(set(values[:1] + more))
  return {'p': p, 'values': sorted(values)}


def special_value(script, trial_id, metric_index):
  sp = script.get('special')
  if not sp:
    return None
  if _h(script['salt'], 'sp', trial_id, metric_index) >= sp['p']:
    return None
  vals = sp['values']
  return float(vals[int(_h(script['salt'], 'spv', trial_id, metric_index) * len(vals)) % len(vals)])


def complete_trial(pd, script, trial, verdict):
  from vizier import pyvizier as vz
  params = trial.parameters.as_dict()
  if verdict == 'infeasible' and not script.get('infeasible_with_metrics'):
    trial.complete(vz.Measurement(), infeasibility_reason='scripted')
    return
  metrics = {}
  k = 0
  n_special = 0
  for j, m in enumerate(pd['metrics']):
    if m.get('safety') is not None:
      metrics[m['name']] = round(_h(script['salt'], 'safe', trial.id), 6)
    else:
      metrics[m['name']] = objective(pd, script['salt'], params, k)
      k += 1
    sp = special_value(script, trial.id, j)
    if sp is not None:
      metrics[m['name']] = sp
      n_special += 1
  if verdict == 'infeasible':
    trial.complete(vz.Measurement(metrics=metrics), infeasibility_reason='scripted')
  else:
    trial.complete(vz.Measurement(metrics=metrics))
  return n_special


# ---------------------------------------------------------------------------
# canonical forms
# ---------------------------------------------------------------------------
def canon_value(v):
  if isinstance(v, bool):
    return repr(v)
  if isinstance(v, (int, float)):
    return repr(float(v))
  try:
    import numpy as np
    if isinstance(v, np.generic):
      return canon_value(v.item())
  except Exception:  # pylint: disable=broad-except
    pass
  return str(v)


def canon_params(parameters):
  d = parameters.as_dict() if hasattr(parameters, 'as_dict') else dict(parameters)
  return sorted([str(k), canon_value(v)] for k, v in d.items())


def canon_suggestions(suggestions):
  return [canon_params(s.parameters) for s in suggestions]


def canon_metadata(md, drop_keys=('dump_timestamp',)):
  out = []
  for ns, k, v in md.all_items():
    if k in drop_keys:
      continue
    out.append([ns.encode(), k, v if isinstance(v, str) else repr(v)])
  return sorted(out)


# ---------------------------------------------------------------------------
# routes for state: through real study metadata protos / the SQL datastore
# ---------------------------------------------------------------------------
class Router:
  """Owns one scratch SQLite file; simulates 'the process went away'."""

  def __init__(self, tmpdir):
    self.tmpdir = tmpdir
    self.path = os.path.join(tmpdir, 'c13-route.db')
    self.url = 'sqlite:///' + self.path
    self._n = 0
    self._study_of = {}

  def _datastore(self):
    import sqlalchemy as sqla
    from vizier._src.service import sql_datastore
    engine = sqla.create_engine(
        self.url, connect_args={'check_same_thread': False}, echo=False,
        future=True, poolclass=sqla.pool.StaticPool)
    return engine, sql_datastore.SQLDataStore(engine)

  def new_study(self, problem):
    """Creates a study row holding the problem; returns its resource name."""
    from vizier.service import pyvizier as svz
    from vizier._src.service import study_pb2
    self._n += 1
    name = f'owners/c13/studies/s{self._n}'
    spec = svz.StudyConfig.from_problem(problem).to_proto()
    engine, ds = self._datastore()
    try:
      ds.create_study(study_pb2.Study(name=name, display_name=f's{self._n}',
                                      study_spec=spec))
    finally:
      engine.dispose()
    return name

  def route(self, how, designer_md, study_name=None):
    """designer dump -> on_study delta under the policy namespaces -> route -> back."""
    from vizier import pyvizier as vz
    from vizier._src.pyvizier.oss import metadata_util
    from vizier._src.service import key_value_pb2
    if how == 'direct':
      return copy.deepcopy(designer_md)
    delta = vz.MetadataDelta()
    delta.on_study.ns(NS_ROOT).ns(NS_DESIGNER).attach(designer_md)
    updates = metadata_util.study_metadata_to_update_list(delta.on_study)
    kvs = [u.metadatum for u in updates]
    if how == 'kv':
      wire = [kv.SerializeToString() for kv in kvs]
      back = [key_value_pb2.KeyValue.FromString(b) for b in wire]
      md = metadata_util.from_key_value_list(back)
      return md.ns(NS_ROOT).ns(NS_DESIGNER)
    if how == 'sql':
      engine, ds = self._datastore()
      try:
        ds.update_metadata(study_name, kvs, [])
      finally:
        engine.dispose()
      engine, ds = self._datastore()   # a new connection: nothing survives in RAM
      try:
        study = ds.load_study(study_name)
      finally:
        engine.dispose()
      md = metadata_util.from_key_value_list(study.study_spec.metadata)
      return md.ns(NS_ROOT).ns(NS_DESIGNER)
    raise ValueError(how)


def roundtrip_trial(trial):
  """Trial -> proto bytes -> Trial, as a datastore reload does."""
  from vizier.service import pyvizier as svz
  from vizier._src.service import study_pb2
  proto = svz.TrialConverter.to_proto(trial)
  return svz.TrialConverter.from_proto(study_pb2.Trial.FromString(proto.SerializeToString()))


def roundtrip_study_metadata(md):
  """Whole study metadata -> KeyValue protos (bytes) -> Metadata."""
  from vizier._src.pyvizier.oss import metadata_util
  from vizier._src.service import key_value_pb2
  kvs = metadata_util.make_key_value_list(md)
  back = [key_value_pb2.KeyValue.FromString(kv.SerializeToString()) for kv in kvs]
  return metadata_util.from_key_value_list(back)


def subsets(n):
  for mask in range(1 << n):
    yield [i for i in range(n) if mask >> i & 1]


def dumps(x):
  return json.dumps(x, sort_keys=True, default=repr)
