"""Small shared pieces of the C16 / C17 checks: value encoding, extended oracle."""
import math

from vv import gen


def enc(v):
  """JSON-safe, type-exact encoding of a python value (inf/nan/huge ints/bools)."""
  if isinstance(v, bool):
    return {'t': 'b', 'v': v}
  if isinstance(v, int):
    return {'t': 'i', 'v': str(v)}
  if isinstance(v, float):
    return {'t': 'f', 'v': repr(v)}
  if isinstance(v, str):
    return {'t': 's', 'v': v}
  if v is None:
    return {'t': 'n'}
  if isinstance(v, tuple):
    return {'t': 'u', 'v': [enc(x) for x in v]}
  if isinstance(v, list):
    return {'t': 'l', 'v': [enc(x) for x in v]}
  if isinstance(v, dict):
    return {'t': 'd', 'v': [[k, enc(x)] for k, x in v.items()]}
  raise TypeError(type(v))


def dec(e):
  t = e['t']
  if t == 'b':
    return bool(e['v'])
  if t == 'i':
    return int(e['v'])
  if t == 'f':
    return float(e['v'])
  if t == 's':
    return e['v']
  if t == 'n':
    return None
  if t == 'u':
    return tuple(dec(x) for x in e['v'])
  if t == 'l':
    return [dec(x) for x in e['v']]
  if t == 'd':
    return {k: dec(x) for k, x in e['v']}
  raise ValueError(t)


def pack_tree(tree):
  """A conditional tree description as one JSON string: the recorder of
  violations cuts nested containers below depth 12, which a depth-3 tree exceeds."""
  import json
  return json.dumps(tree)


def case_tree(case):
  """The tree of a recorded case (prefers the packed form)."""
  import json
  if case.get('tree_json'):
    return json.loads(case['tree_json'])
  return case['tree']


def xmember1(p, v):
  """True / False / None (= not decided by the property) for one raw value.

  python bools: a BOOL parameter accepts them (documented: ParameterValue.as_str
  maps bool to 'True'/'False'); for every other kind the property does not say
  whether `True` is "type compatible" (bool is an int in python) -> None.
  """
  if isinstance(v, bool):
    if p['kind'] == 'BOOL':
      return ('True' if v else 'False') in p['values']
    return None
  if v is None or isinstance(v, (list, tuple, dict)):
    return False
  if isinstance(v, int) and abs(v) > 10 ** 300:
    return False
  return gen.member1(p, v)


def xmember(desc, a):
  names = [p['name'] for p in desc]
  if sorted(a.keys()) != sorted(names):
    return False
  res = True
  for p in desc:
    r = xmember1(p, a[p['name']])
    if r is False:
      return False
    if r is None:
      res = None
  return res


def quiet_logs():
  try:
    from absl import logging as alog
    alog.set_verbosity(alog.ERROR)
  except Exception:  # pylint: disable=broad-except
    pass


def nxt(x, up=True):
  return math.nextafter(float(x), math.inf if up else -math.inf)
