"""Fresh server process for the syscall-level crash slice of C05.

usage: python -m vv.c05_child <db path> <prefix name> <victim name> <mark dir>
Brackets the victim RPC with two marker syscalls (rmdir of a non-existent path)
so that the parent can locate it in the strace output.
"""
import os
import sys

import vv.boot  # noqa: F401
from vv.checks import c05


def main():
  db, pname, vname, mark = sys.argv[1:5]
  sv, ctl = c05.open_servicer(db)
  for i, c in enumerate(c05.PREFIXES[pname]):
    ocls, _, _ = c05.do_call(sv, ctl, c)
    print(f'ACK {i} {ocls}', flush=True)
  try:
    os.rmdir(os.path.join(mark, 'VV_MARK_BEGIN'))
  except OSError:
    pass
  ocls, _, _ = c05.do_call(sv, ctl, c05.VICTIMS[vname][1])
  try:
    os.rmdir(os.path.join(mark, 'VV_MARK_END'))
  except OSError:
    pass
  print(f'VICTIM {ocls}', flush=True)


if __name__ == '__main__':
  main()
