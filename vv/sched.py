"""Controlled scheduler for C04.

Real threads run the real servicer code, but only one registered thread runs at
a time; the scheduler may switch threads only at *yield points*: entry of every
datastore method (through the MonitoredDatastore yield hook) and every
acquisition of one of the servicer's lock tables (which the harness replaces by
cooperative SchedLocks, so a blocked thread is not runnable). A schedule is the
sequence of thread ids chosen at successive yield points: recorded, hashable,
replayable. Deadlock = an unfinished thread exists and none is runnable.
"""
import collections
import threading


class Deadlock(Exception):
  pass


_tls = threading.local()


class Scheduler:

  def __init__(self, prefix=(), rng=None):
    self.cv = threading.Condition()
    self.current = None
    self.state = {}        # tid -> 'ready' | 'blocked' | 'done'
    self.blocked_on = {}
    self.prefix = list(prefix)
    self.rng = rng         # random walk after the prefix when set
    self.trace = []        # list of (runnable tuple, chosen, previous current, label)
    self.deadlock = False
    self.diverged = False
    self.labels = []

  # -- choice ---------------------------------------------------------------
  def _choose(self, runnable, label):
    i = len(self.trace)
    prev = self.current
    if i < len(self.prefix):
      c = self.prefix[i]
      if c not in runnable:
        self.diverged = True
        c = prev if prev in runnable else runnable[0]
    elif self.rng is not None:
      # mostly keep running, sometimes switch: long runs with a few switches
      if prev in runnable and self.rng.random() < 0.75:
        c = prev
      else:
        c = self.rng.choice(runnable)
    else:
      c = prev if prev in runnable else runnable[0]
    self.trace.append((tuple(runnable), c, prev, label))
    return c

  def _pick(self, label):
    runnable = sorted(t for t, s in self.state.items() if s == 'ready')
    if not runnable:
      if any(s == 'blocked' for s in self.state.values()):
        self.deadlock = True
      self.current = None
      self.cv.notify_all()
      return
    self.current = self._choose(runnable, label)
    self.cv.notify_all()

  def _wait_turn(self, tid):
    while self.current != tid and not self.deadlock:
      self.cv.wait(timeout=20)
    if self.deadlock:
      raise Deadlock()

  # -- thread API -------------------------------------------------------------
  def start(self, tid):
    with self.cv:
      self._wait_turn(tid)

  def yield_point(self, label):
    tid = getattr(_tls, 'tid', None)
    if tid is None:
      return
    with self.cv:
      self._pick(label)
      self._wait_turn(tid)

  def block(self, tid, lock):
    with self.cv:
      self.state[tid] = 'blocked'
      self.blocked_on[tid] = lock
      self._pick('blocked')
      self._wait_turn(tid)

  def unblock_waiters(self, lock):
    with self.cv:
      for t, l in list(self.blocked_on.items()):
        if l is lock and self.state[t] == 'blocked':
          self.state[t] = 'ready'
          del self.blocked_on[t]

  def finish(self, tid):
    with self.cv:
      self.state[tid] = 'done'
      self._pick('finish')

  # -- running ------------------------------------------------------------------
  def run(self, fns, join_timeout=30.0):
    """fns: list of callables; returns (results, alive_thread_ids)."""
    results = {}

    def body(tid, fn):
      _tls.tid = tid
      try:
        self.start(tid)
        results[tid] = ('ok', fn())
      except Deadlock:
        results[tid] = ('deadlock', None)
      except BaseException as e:  # pylint: disable=broad-except
        results[tid] = ('exc', e)
      finally:
        _tls.tid = None
        try:
          self.finish(tid)
        except Deadlock:
          pass

    for tid in range(len(fns)):
      self.state[tid] = 'ready'
    threads = [threading.Thread(target=body, args=(tid, fn), daemon=True) for tid, fn in enumerate(fns)]
    for t in threads:
      t.start()
    with self.cv:
      self._pick('start')
    for t in threads:
      t.join(join_timeout)
    alive = [i for i, t in enumerate(threads) if t.is_alive()]
    if alive:
      with self.cv:
        self.deadlock = True
        self.cv.notify_all()
    return results, alive

  def choices(self):
    return [c for (_, c, _, _) in self.trace]

  def preemptions(self):
    return sum(1 for (run, c, prev, _) in self.trace if prev is not None and prev in run and c != prev)

  def schedule_string(self):
    return ''.join(str(c) for c in self.choices())


class SchedLock:
  """Cooperative lock visible to the scheduler."""

  def __init__(self, sched, yield_on_release=False):
    self.sched = sched
    self.owner = None
    # a pre-emption right after the lock is given up: the code that follows a datastore
    # call works on what it has just read, outside any lock
    self.yield_on_release = yield_on_release

  def __enter__(self):
    tid = getattr(_tls, 'tid', None)
    if tid is None:
      return self
    self.sched.yield_point('acquire')
    while self.owner is not None:
      self.sched.block(tid, self)
    self.owner = tid
    return self

  def __exit__(self, *a):
    tid = getattr(_tls, 'tid', None)
    if tid is None:
      return False
    self.owner = None
    self.sched.unblock_waiters(self)
    if self.yield_on_release:
      self.sched.yield_point('released')
    return False

  # threading.Lock API used nowhere else in the servicer, kept for safety
  def acquire(self, *a, **k):
    self.__enter__()
    return True

  def release(self):
    self.__exit__()


class NoLock:
  """Stands in for a harness-internal lock while the scheduler guarantees that
  only one thread runs (a real lock held across a yield point would block a
  thread the scheduler believes to be running)."""

  def __enter__(self):
    return self

  def __exit__(self, *a):
    return False


def install(servicer, sched, datastore_lock=True):
  """Replaces the servicer's three lock tables by scheduler-visible locks.

  With datastore_lock the datastore's own lock becomes scheduler-visible too:
  every acquisition is a yield point, so a datastore method that (wrongly)
  releases and re-acquires its lock in the middle of one logical operation is
  interleaved there. Returns True when the datastore lock was replaced.
  """
  for attr in ('_owner_name_to_lock', '_study_name_to_lock', '_operation_lock'):
    if not hasattr(servicer, attr):
      raise AttributeError(f'VizierServicer has no {attr}: the lock tables moved')
    setattr(servicer, attr, collections.defaultdict(lambda: SchedLock(sched)))
  inner = getattr(servicer.datastore, '_inner', servicer.datastore)
  if datastore_lock and hasattr(inner, '_lock'):
    inner._lock = SchedLock(sched, yield_on_release=True)  # pylint: disable=protected-access
    return True
  return False


class YieldingConnection:
  """The SQL datastore's connection with a yield point before every statement,
  commit and rollback: a thread may be pre-empted between a write statement and
  its COMMIT. On code that keeps its datastore lock over the whole transaction
  only lock-free code can run there (everybody else blocks on the lock)."""

  def __init__(self, conn, sched):
    object.__setattr__(self, '_conn', conn)
    object.__setattr__(self, '_sched', sched)

  def __getattr__(self, name):
    return getattr(self._conn, name)

  def execute(self, *a, **k):
    self._sched.yield_point('sql')
    return self._conn.execute(*a, **k)

  def commit(self):
    self._sched.yield_point('commit')
    return self._conn.commit()

  def rollback(self):
    self._sched.yield_point('rollback')
    return self._conn.rollback()


def install_statement_yields(servicer, sched):
  inner = getattr(servicer.datastore, '_inner', servicer.datastore)
  if hasattr(inner, '_connection'):
    inner._connection = YieldingConnection(inner._connection, sched)  # pylint: disable=protected-access
    return True
  return False


def children(trace, prefix_len, max_preemptions):
  """Schedules that differ from `trace` first at some step >= prefix_len.

  Yields choice-prefixes whose number of pre-emptions stays within the bound.
  """
  pre = 0
  counts = []
  for (run, c, prev, _) in trace:
    counts.append(pre)
    if prev is not None and prev in run and c != prev:
      pre += 1
  choices = [c for (_, c, _, _) in trace]
  for i in range(prefix_len, len(trace)):
    run, c, prev, _ = trace[i]
    for alt in run:
      if alt == c:
        continue
      cost = counts[i] + (1 if (prev is not None and prev in run and alt != prev) else 0)
      if cost <= max_preemptions:
        yield cost, choices[:i] + [alt]


def explore(run_schedule, max_preemptions, max_schedules, stop=None):
  """Stateless DFS over all schedules with <= max_preemptions pre-emptions.

  run_schedule(prefix) -> Scheduler (after the run). Returns (n_runs, complete).
  """
  # buckets by number of pre-emptions, cheapest first: under a cap on the number of
  # schedules every schedule with k pre-emptions is run before any with k+1 (most
  # interleaving defects need a single pre-emption at the right place)
  buckets = [[] for _ in range(max_preemptions + 1)]
  buckets[0].append([])
  seen = set()
  n = 0
  while any(buckets):
    if n >= max_schedules or (stop is not None and stop()):
      return n, False
    prefix = next(b for b in buckets if b).pop()
    sched = run_schedule(prefix)
    n += 1
    key = tuple(sched.choices())
    if key in seen:
      continue
    seen.add(key)
    if sched.diverged:
      continue
    for cost, child in children(sched.trace, len(prefix), max_preemptions):
      buckets[cost].append(child)
  return n, True
