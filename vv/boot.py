"""First import of every harness process.

1. puts /verif/.deps (icontract, deal) on sys.path, installing it from the
   offline wheelhouse if it is missing (fresh restore),
2. installs the proto import hook that builds vizier's *_pb2 / *_pb2_grpc
   modules from the .proto files of the current /repo tree,
3. applies the jax/equinox compatibility shim,
4. quietens logging and arms a faulthandler watchdog.

Nothing here touches /repo or /venv.
"""
import faulthandler
import os
import subprocess
import sys
import types
import warnings

VERIF = os.path.dirname(os.path.dirname(os.path.abspath(__file__)))
REPO = os.environ.get('VV_REPO', '/repo')
DEPS = os.path.join(VERIF, '.deps')

os.environ.setdefault('JAX_PLATFORMS', 'cpu')
os.environ.setdefault('TF_CPP_MIN_LOG_LEVEL', '3')
os.environ.setdefault('GRPC_VERBOSITY', 'NONE')
# keep each worker single threaded in BLAS / XLA: the harness shards over
# processes instead.
os.environ.setdefault('OMP_NUM_THREADS', '1')
os.environ.setdefault('OPENBLAS_NUM_THREADS', '1')
os.environ.setdefault('MKL_NUM_THREADS', '1')
os.environ.setdefault(
    'XLA_FLAGS',
    '--xla_cpu_multi_thread_eigen=false intra_op_parallelism_threads=1')


def ensure_deps():
  if os.path.isdir(os.path.join(DEPS, 'icontract')):
    return
  subprocess.run(
      [sys.executable, '-m', 'pip', 'install', '--quiet', '--no-index',
       '--find-links', '/opt/veriftools/wheels', '--target', DEPS,
       'icontract', 'deal'],
      check=False, stdout=subprocess.DEVNULL, stderr=subprocess.DEVNULL,
      env={**os.environ, 'PIP_NO_INDEX': '1'})


def _jax_shim():
  import jax
  import jax.core
  import jax.extend.core as jec
  for n in dir(jec):
    if not n.startswith('_') and not hasattr(jax.core, n):
      try:
        setattr(jax.core, n, getattr(jec, n))
      except Exception:  # pylint: disable=broad-except
        pass
  from jax.interpreters import batching
  import jax._src.interpreters.batching as _b
  for n in dir(_b):
    if not n.startswith('_') and not hasattr(batching, n):
      setattr(batching, n, getattr(_b, n))
  import jaxlib
  try:
    import jaxlib.xla_extension  # noqa
  except ImportError:
    m = types.ModuleType('jaxlib.xla_extension')
    m.Device = jax.Device
    sys.modules['jaxlib.xla_extension'] = m
    jaxlib.xla_extension = m


_done = False


def install():
  global _done
  if _done:
    return
  _done = True
  if VERIF not in sys.path:
    sys.path.insert(0, VERIF)
  ensure_deps()
  if DEPS not in sys.path:
    sys.path.append(DEPS)
  if REPO not in sys.path:
    # /repo is a develop install in /venv; VV_REPO lets a scratch worktree be
    # checked instead (used only to validate the checks against seeded breaks).
    sys.path.insert(0, REPO)
  warnings.filterwarnings('ignore')
  from vv import protoboot
  protoboot.install(REPO)
  _jax_shim()
  try:
    from absl import logging as absl_logging
    absl_logging.set_verbosity(absl_logging.FATAL)
    absl_logging.set_stderrthreshold('fatal')
  except Exception:  # pylint: disable=broad-except
    pass
  import logging
  logging.disable(logging.CRITICAL)
  wd = float(os.environ.get('VV_WATCHDOG_S', '0') or 0)
  if wd > 0:
    faulthandler.dump_traceback_later(wd, exit=True)


install()
