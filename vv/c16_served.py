"""C16 family 'served': the space a study *has* is the space it was defined with.

"Adding a trial through the client is refused when it is outside the space" and
"membership in a conditional space is refused as unsupported, never answered
wrongly" are statements about the space of the *study*. The client does not
validate against the object the user built: it validates against the space it
gets back from the service (StudyConfig.to_proto -> datastore -> from_proto).
If that transport loses or alters the conditional structure, add_trial answers
membership with the rules of another (e.g. flat) space.

A case is a conditional tree description (depth 1..3, parents of every finite
kind: INTEGER, DISCRETE, CATEGORICAL, BOOL) plus a value for every parameter.
Two routes are exercised:

  proto     StudyConfig.to_proto / from_proto only
  service   study created on a local servicer (RAM or in-memory SQL), space read
            back through Study.materialize_study_config()

Monitors on the space obtained that way (all against the description alone):

  * is_conditional is still True,
  * the structure (name, kind, {parent value -> child structure}) equals the
    defined one, compared recursively; the first difference names the mechanism
    (children dropped / added / under another value, per kind of the parent),
  * SequentialParameterBuilder over the served space visits exactly the
    parameters active under the chosen values (independent oracle),
  * (service route) Study.add_trial with four assignments whose conditional
    membership the oracle knows (exactly the active set / top-level parameters
    only / every parameter / none): accepting a non-member is a wrong answer,
    refusing a member as *infeasible* (ValueError) is a wrong answer, refusing
    as unsupported (NotImplementedError) is fine; nothing is stored on refusal.
"""
from vv import c16_cond as cond
from vv.c16_util import enc, dec, pack_tree, case_tree


def _vkey(kind, v):
  if kind in ('CATEGORICAL', 'BOOL'):
    if isinstance(v, bool):
      return 's:' + ('True' if v else 'False')
    return 's:' + str(v)
  return 'n:' + repr(float(v))


def structure_of_desc(tree):
  """{name: [kind, {value key: structure of the children under that value}]}."""
  out = {}
  for p in tree:
    kids = {}
    for vals, group in p.get('children', []):
      sub = structure_of_desc(group)
      if not sub:
        continue
      for v in vals:
        kids.setdefault(_vkey(p['kind'], v), {}).update(sub)
    kind = 'CATEGORICAL' if p['kind'] == 'BOOL' else p['kind']
    out[p['name']] = [kind, kids]
  return out


def structure_of_space(space):
  out = {}
  for pc in space.parameters:
    kind = pc.type.name
    kids = {}
    if kind != 'DOUBLE':
      for v, sub in pc.subspaces():
        s = structure_of_space(sub)
        if s:
          kids[_vkey(kind, v)] = s
    out[pc.name] = [kind, kids]
  return out


def first_difference(want, got, depth=0, parent_kind='ROOT'):
  """(anomaly, parent kind, depth, text) of the first structural difference or None."""
  for name in sorted(set(want) | set(got)):
    if name not in got:
      return ('parameter-dropped' if depth == 0 else 'child-dropped', parent_kind, depth,
              f'{name!r} is missing')
    if name not in want:
      return ('parameter-added' if depth == 0 else 'child-added', parent_kind, depth,
              f'{name!r} was never defined here')
    (wk, wkids), (gk, gkids) = want[name], got[name]
    if wk != gk:
      return ('kind-changed', wk, depth, f'{name!r}: {wk} became {gk}')
    for vk in sorted(set(wkids) | set(gkids)):
      if vk not in gkids:
        return ('children-dropped', wk, depth + 1,
                f'children {sorted(wkids[vk])} of {name!r} under value {vk} are missing')
      if vk not in wkids:
        return ('children-added', wk, depth + 1,
                f'{name!r} got children {sorted(gkids[vk])} under value {vk}')
      d = first_difference(wkids[vk], gkids[vk], depth + 1, wk)
      if d:
        return d
  return None


def _study_config(space):
  from vizier.service import pyvizier as vz
  sc = vz.StudyConfig(search_space=space, algorithm='RANDOM_SEARCH')
  sc.metric_information.append(
      vz.MetricInformation(name='m', goal=vz.ObjectiveMetricGoal.MAXIMIZE))
  return sc


def gen_served_case(rng):
  from vv import c16_member
  tree, variants = c16_member.gen_cond_case(rng)
  choices = dict(variants[2][1])          # 'all-params': a value for every parameter
  route = rng.choice(['proto', 'ram', 'sql'])
  return {'family': 'served', 'route': route, 'tree': tree, 'choices': enc(choices)}


def exec_served(ctx, route, tree, choices):
  from vizier.service import pyvizier as vz
  from vv import c16_walk
  case = {'family': 'served', 'route': route, 'tree_json': pack_tree(tree),
          'choices': enc(choices)}
  kind_route = 'proto' if route == 'proto' else 'service'
  ctx.case(['served', route, cond.tree_shape(tree)], True)
  local = cond.build_tree(tree)
  study = None
  try:
    if route == 'proto':
      served = vz.StudyConfig.from_proto(_study_config(local).to_proto()).search_space
    else:
      study = c16_walk.make_study(c16_walk.servicer(route), local, f'c16s-{ctx.seed}')
      served = study.materialize_study_config().search_space
  except Exception as e:  # pylint: disable=broad-except
    ctx.violation(f'served-space:{kind_route}:valid-conditional-definition-refused:'
                  f'{type(e).__name__}',
                  f'a valid conditional space could not travel through the {kind_route} route: '
                  f'{type(e).__name__}: {e}', case)
    return
  parent_kinds = sorted({p['kind'] for p in cond.all_params(tree).values()
                         if p.get('children')})
  for k in parent_kinds:
    ctx.count('served_parent_kind:' + k)
  # ---- structure -------------------------------------------------------------
  ctx.count('served_spaces_checked')
  ctx.count('served_spaces_checked:' + kind_route)
  want = structure_of_desc(tree)
  got = structure_of_space(served)
  diff = first_difference(want, got)
  if diff:
    anomaly, pkind, depth, text = diff
    flat = '' if served.is_conditional else ':space-became-flat'
    ctx.violation(f'served-space:{kind_route}:{anomaly}:{pkind}-parent:depth{depth}{flat}',
                  f'the space the study has after the {kind_route} route differs from its '
                  f'definition: {text} (is_conditional={served.is_conditional})', case,
                  {'defined': want, 'served': got})
    return
  if not served.is_conditional:
    ctx.violation(f'served-space:{kind_route}:conditional-space-not-recognised',
                  'is_conditional is False for the served space although it has children', case)
    return
  ctx.count('served_structures_equal')
  # ---- walking the served space ------------------------------------------------
  for order in ('dfs', 'bfs'):
    c16_walk.exec_walk(ctx, tree, choices, [], order, space=served, case=case,
                       prefix=f'walk:served-{kind_route}')
    ctx.count('served_walks_checked')
  if study is None:
    return
  # ---- add_trial decides against the space of the study --------------------------
  act = {p['name']: choices[p['name']] for p, _ in cond.active_walk(tree, choices)}
  variants = [('active', act), ('top-only', {p['name']: choices[p['name']] for p in tree}),
              ('all-params', dict(choices)), ('empty', {})]
  stored = 0
  for name, a in variants:
    truth = sorted(p['name'] for p, _ in cond.active_walk(tree, a)) == sorted(a)
    try:
      study.add_trial(vz.Trial(parameters=a))
      err = None
    except Exception as e:  # pylint: disable=broad-except
      err = e
    n = len(list(study.trials().get()))
    ctx.count('served_add_trial_checked')
    ctx.count('served_add_trial_' + ('members' if truth else 'nonmembers'))
    if err is None:
      if not truth:
        ctx.violation(f'add_trial:conditional-accepted-nonmember:{name}',
                      f'Study.add_trial accepted {a}, which is not exactly the set of '
                      'parameters active under its own values', case, {'variant': name})
      else:
        ctx.count('served_add_trial_member_accepted')
      stored = n
      continue
    if isinstance(err, NotImplementedError):
      ctx.count('served_add_trial_refused_unsupported')
    elif truth:
      ctx.violation(f'add_trial:conditional-member-answered-infeasible:{name}:'
                    f'{type(err).__name__}',
                    f'Study.add_trial answered the membership of {a} (exactly the active '
                    f'parameters, feasible values) with {type(err).__name__}: {err}', case,
                    {'variant': name})
    else:
      ctx.count(f'served_add_trial_refused_with:{type(err).__name__}')
    if n != stored:
      ctx.violation(f'add_trial:conditional-stored-despite-refusal:{name}',
                    f'trial count went {stored} -> {n} although add_trial raised', case)
    stored = n


def replay_served(ctx, case):
  exec_served(ctx, case['route'], case_tree(case), dec(case['choices']))
