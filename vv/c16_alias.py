"""C16 family 'alias': a definition is fixed when it is built.

Membership is decided against the domain a parameter was *defined* with, and a
definition stays normalised (feasible values sorted and unique). Neither may
depend on what a caller later does with objects that are not the definition:

  * the list a read accessor handed out (`ParameterConfig.feasible_values`,
    `SearchSpace.parameters`): user code routinely edits such a list in place
    ("all values but the current one", "the values plus a candidate", shuffle),
  * the list that was passed to a builder (`add_discrete_param(name, values)`,
    `add_categorical_param(name, values)`, `ParameterConfig.factory(name,
    feasible_values=values)` + `SearchSpace.add`) and is edited after the call.

A case: flat description -> space built through the public builders; a program
of 1..4 edits {remove one value, append / insert a foreign value, overwrite the
first value, reverse, clear} on lists obtained from those sources; then

  * read back: names of the space and `feasible_values` of every finite-domain
    parameter equal the normalised definition of the description,
  * membership probes aimed at the edit (the removed value must still be
    accepted, the appended value must still be refused, ...) through
    SearchSpace.contains and ParameterConfig.contains, decided by the
    independent oracle on the description.
"""
import copy

from vv import gen
from vv.c16_util import enc, dec, xmember, xmember1

EDITS = ['remove', 'append', 'insert-front', 'overwrite-first', 'reverse', 'clear']
SOURCES = ['feasible_values', 'feasible_values', 'feasible_values', 'builder-argument',
           'parameters']


def _foreign(p):
  k = p['kind']
  if k == 'INTEGER':
    return p['hi'] + 1
  if k == 'DISCRETE':
    return max(p['values']) + 1.0
  if k == 'CATEGORICAL':
    return 'zz-never-defined'
  return 'Maybe'


def _normalised(p):
  k = p['kind']
  if k == 'INTEGER':
    return list(range(p['lo'], p['hi'] + 1))
  if k == 'DISCRETE':
    return sorted({float(v) for v in p['values']})
  if k == 'BOOL':
    return ['False', 'True']
  return sorted(set(p['values']))


def gen_alias_case(rng, desc):
  """desc must contain a finite-domain parameter; returns (op list, builder route)."""
  finite = [p for p in desc if p['kind'] != 'DOUBLE'
            and (p['kind'] != 'INTEGER' or p['hi'] - p['lo'] <= 300)]
  ops = []
  for _ in range(rng.randint(1, 4)):
    src = rng.choice(SOURCES)
    edit = rng.choice(EDITS)
    if src == 'parameters':
      ops.append([src, None, edit, rng.randrange(len(desc))])
      continue
    cands = finite if src == 'feasible_values' else [
        p for p in finite if p['kind'] in ('DISCRETE', 'CATEGORICAL')]
    if not cands:
      continue
    p = rng.choice(cands)
    ops.append([src, p['name'], edit, rng.randrange(len(_normalised(p)))])
  return ops, rng.choice(['selector', 'factory'])


def _build(desc, via):
  """Like gen.build_space, but keeps the very list objects given to the builders.

  via 'factory': DISCRETE / CATEGORICAL parameters are made with
  ParameterConfig.factory(feasible_values=<list>) and put in with SearchSpace.add."""
  from vizier import pyvizier as vz
  space = vz.SearchSpace()
  root = space.root
  args = {}
  for p in desc:
    st = getattr(vz.ScaleType, p['scale']) if p.get('scale') else None
    kw = {}
    if p.get('default') is not None:
      kw['default_value'] = p['default']
    if p['kind'] == 'DOUBLE':
      root.add_float_param(p['name'], p['lo'], p['hi'], scale_type=st, **kw)
    elif p['kind'] == 'INTEGER':
      root.add_int_param(p['name'], p['lo'], p['hi'], scale_type=st, **kw)
    elif p['kind'] in ('DISCRETE', 'CATEGORICAL') and via == 'factory':
      args[p['name']] = list(p['values'])
      space.add(vz.ParameterConfig.factory(p['name'], feasible_values=args[p['name']],
                                           scale_type=st, default_value=p.get('default')))
    elif p['kind'] == 'DISCRETE':
      args[p['name']] = list(p['values'])
      root.add_discrete_param(p['name'], args[p['name']], scale_type=st, **kw)
    elif p['kind'] == 'CATEGORICAL':
      args[p['name']] = list(p['values'])
      root.add_categorical_param(p['name'], args[p['name']], **kw)
    else:
      root.add_bool_param(p['name'], **kw)
  return space, args


def _edit(lst, edit, j, foreign):
  """In-place edit of a list the caller owns. Returns the probe value (or None)."""
  if edit == 'remove':
    if not lst:
      return None
    return lst.pop(j % len(lst))
  if edit == 'append':
    lst.append(foreign)
    return foreign
  if edit == 'insert-front':
    lst.insert(0, foreign)
    return foreign
  if edit == 'overwrite-first':
    if not lst:
      return None
    lst[0] = foreign
    return foreign
  if edit == 'reverse':
    lst.reverse()
    return None
  lst.clear()
  return None


def exec_alias(ctx, desc, ops, base, via='selector'):
  """`base`: a feasible assignment of the description (probe template)."""
  from vizier import pyvizier as vz
  case = {'family': 'alias', 'desc': desc, 'ops': ops, 'base': enc(base), 'via': via}
  byname = {p['name']: p for p in desc}
  ctx.case(['alias', via, gen.space_shape(desc),
            [(o[0], byname[o[1]]['kind'] if o[1] else None, o[2]) for o in ops]], bool(ops))
  space, args = _build(copy.deepcopy(desc), via)
  ctx.count('alias_spaces_built_via:' + via)
  probes = []          # (param name, value, source, edit)

  def readback(name, src, edit):
    """names of the space (name None: and every finite definition) / one definition."""
    ctx.count('alias_readbacks_checked')
    names = sorted(space.parameter_names)
    if names != sorted(byname) or len(space.parameters) != len(byname):
      ctx.violation(f'alias:{src}:{edit}:parameter-set-changed',
                    f'after a caller edited ({edit}) the list it got from {src} the space has '
                    f'parameters {names}, defined {sorted(byname)}', case)
      return False
    for p in desc:
      if name is not None and p['name'] != name:
        continue
      if p['kind'] == 'DOUBLE' or (p['kind'] == 'INTEGER' and p['hi'] - p['lo'] > 300):
        continue
      got = space.get(p['name']).feasible_values
      ctx.count('alias_readbacks_checked')
      if list(got) != _normalised(p):
        ctx.violation(f'alias:{src}:{p["kind"]}:{edit}:definition-changed',
                      f'{p["name"]} ({p["kind"]}) was defined with {_normalised(p)[:8]} but '
                      f'reports {list(got)[:8]} after a caller edited ({edit}) the list it got '
                      f'from {src}', case, {'param': p})
        return False
    return True

  for src, name, edit, j in ops:
    try:
      if src == 'parameters':
        lst = space.parameters
        _edit(lst, edit, j, lst[0] if lst else None)
        ctx.count('alias_edits:parameters')
        probes.append((None, None, src, edit))
        if not readback(None, src, edit):
          return
        continue
      p = byname[name]
      lst = space.get(name).feasible_values if src == 'feasible_values' else args[name]
      if not isinstance(lst, list):
        ctx.count('alias_accessor_result_not_a_list')
        continue
      v = _edit(lst, edit, j, _foreign(p))
    except Exception as e:  # pylint: disable=broad-except
      # an accessor that hands out something read-only is fine
      ctx.count(f'alias_edit_not_possible:{src}:{type(e).__name__}')
      continue
    ctx.count('alias_edits:' + src)
    probes.append((name, v, src, edit))
    if edit in ('reverse', 'clear'):
      for x in _normalised(p)[:3]:
        probes.append((name, x, src, edit))
    # the definition reads back unchanged right after the edit (exact blame)
    if not readback(name, src, edit):
      return
  if not probes:
    return
  if not readback(None, *probes[-1][2:]):
    return
  # ---- membership still follows the definition --------------------------------------
  try:
    whole = [(None, None, '-', '-')] + [pr for pr in probes if pr[0] is not None
                                         and pr[1] is not None]
    for name, v, src, edit in whole:
      a = dict(base)
      if name is not None:
        a[name] = v
        p = byname[name]
        e1 = xmember1(p, v)
        if e1 is not None:
          got1 = space.get(name).contains(v)
          ctx.count('alias_membership_probes')
          if got1 != e1:
            what = 'nonmember-accepted' if got1 else 'member-rejected'
            ctx.violation(f'alias:{src}:{p["kind"]}:{edit}:{what}',
                          f'ParameterConfig.contains({v!r}) == {got1} (definition says {e1}) '
                          f'after a caller edited ({edit}) the list it got from {src}', case,
                          {'param': p})
            return
      exp = xmember(desc, a)
      if exp is None:
        continue
      got = space.contains(vz.ParameterDict(a))
      ctx.count('alias_membership_probes')
      if got != exp:
        what = 'nonmember-accepted' if got else 'member-rejected'
        s, e = (src, edit) if name is not None else probes[-1][2:]
        k = byname[name]['kind'] if name is not None else 'SPACE'
        ctx.violation(f'alias:{s}:{k}:{e}:{what}',
                      f'SearchSpace.contains({a}) == {got} (definition says {exp}) after a '
                      f'caller edited lists it got from read accessors / gave to builders', case)
        return
  except Exception as e:  # pylint: disable=broad-except
    ctx.violation(f'alias:membership-raised:{type(e).__name__}',
                  f'membership of a flat space raised {type(e).__name__}: {e} after a caller '
                  'edited lists it got from read accessors / gave to builders', case)
    return
  ctx.count('alias_programs_held')


def replay_alias(ctx, case):
  exec_alias(ctx, case['desc'], case['ops'], dec(case['base']), case.get('via', 'selector'))
