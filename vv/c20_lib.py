"""Helpers of check C20: experimenter trees, recording boundary, independent oracles.

A *tree description* is JSON-able:

  {'kind': <base or wrapper kind>, 'args': {...}, 'children': [tree, ...]}

Base kinds have no children, every wrapper has one child, `switch` has several.
`build()` constructs the repository's experimenters bottom-up and inserts a
transparent `Recorder` (an Experimenter written here) between every two layers:
it logs, per trial, the parameters a layer received, the parameters the trial
carries after the call and the outcome the layer produced. All relations are
decided from those logs plus oracles computed here from the description only
(mapped point, expected search space, expected outcome transform).
"""
import copy
import functools
import math

import numpy as np

from vizier import pyvizier as vz
from vizier._src.benchmarks.experimenters import discretizing_experimenter
from vizier._src.benchmarks.experimenters import experimenter as experimenter_lib
from vizier._src.benchmarks.experimenters import experimenter_factory
from vizier._src.benchmarks.experimenters import infeasible_experimenter
from vizier._src.benchmarks.experimenters import noisy_experimenter
from vizier._src.benchmarks.experimenters import normalizing_experimenter
from vizier._src.benchmarks.experimenters import numpy_experimenter
from vizier._src.benchmarks.experimenters import permuting_experimenter
from vizier._src.benchmarks.experimenters import shifting_experimenter
from vizier._src.benchmarks.experimenters import sign_flip_experimenter
from vizier._src.benchmarks.experimenters import sparse_experimenter
from vizier._src.benchmarks.experimenters import switch_experimenter
from vizier._src.benchmarks.experimenters.synthetic import bbob
from vizier._src.benchmarks.experimenters.synthetic import branin
from vizier._src.benchmarks.experimenters.synthetic import hartmann
from vizier._src.benchmarks.experimenters.synthetic import simplekd

BBOB_FNS = [
    'Sphere', 'Rastrigin', 'BuecheRastrigin', 'LinearSlope', 'AttractiveSector',
    'StepEllipsoidal', 'RosenbrockRotated', 'Ellipsoidal', 'Discus', 'BentCigar',
    'SharpRidge', 'DifferentPowers', 'Weierstrass', 'SchaffersF7',
    'SchaffersF7IllConditioned', 'GriewankRosenbrock', 'Schwefel', 'Katsuura',
    'Lunacek', 'Gallagher101Me', 'Gallagher21Me', 'NegativeSphere',
    'NegativeMinDifference', 'FonsecaFleming']
NOISE_TYPES = [
    'NO_NOISE', 'MODERATE_GAUSSIAN', 'SEVERE_GAUSSIAN', 'MODERATE_UNIFORM',
    'SEVERE_UNIFORM', 'MODERATE_SELDOM_CAUCHY', 'SEVERE_SELDOM_CAUCHY',
    'LIGHT_ADDITIVE_GAUSSIAN', 'MODERATE_ADDITIVE_GAUSSIAN',
    'SEVERE_ADDITIVE_GAUSSIAN']
ADDITIVE_NOISE = {'LIGHT_ADDITIVE_GAUSSIAN', 'MODERATE_ADDITIVE_GAUSSIAN',
                  'SEVERE_ADDITIVE_GAUSSIAN'}
BASE_KINDS = ['bbob', 'branin', 'hartmann', 'simplekd', 'dtlz', 'zdt', 'wfg',
              'combined']
WRAPPER_KINDS = ['shift', 'signflip', 'permute', 'discretize', 'hypercube',
                 'normalize', 'noisy', 'sparse', 'switch', 'hashing', 'region']
BEFORE = '_before_noise'


# ---------------------------------------------------------------------------
# snapshots
# ---------------------------------------------------------------------------
def snap_params(trial):
  return {k: v.value for k, v in trial.parameters.items()}


def snap_outcome(trial):
  fm = trial.final_measurement
  return {
      'completed': trial.status == vz.TrialStatus.COMPLETED,
      'infeasible': bool(trial.infeasible),
      'metrics': None if fm is None else {k: float(m.value) for k, m in fm.metrics.items()},
  }


def values_equal(a, b):
  """Value equality of two parameter values (1 == 1.0, '1' != 1)."""
  if isinstance(a, str) or isinstance(b, str):
    return isinstance(a, str) and isinstance(b, str) and str(a) == str(b)
  try:
    return float(a) == float(b)
  except (TypeError, ValueError):
    return False


def params_equal(p, q):
  return set(p) == set(q) and all(values_equal(p[k], q[k]) for k in p)


def floats_same(a, b):
  """Bitwise-ish equality for metric values, NaN == NaN."""
  if a is None or b is None:
    return a is None and b is None
  if a != a or b != b:
    return a != a and b != b
  return a == b


def metrics_same(m, n):
  if m is None or n is None:
    return m is None and n is None
  return set(m) == set(n) and all(floats_same(m[k], n[k]) for k in m)


def outcome_same(o, p):
  return (o['completed'] == p['completed'] and o['infeasible'] == p['infeasible']
          and metrics_same(o['metrics'], p['metrics']))


# ---------------------------------------------------------------------------
# recording boundary
# ---------------------------------------------------------------------------
class Recorder(experimenter_lib.Experimenter):
  """Transparent experimenter logging what the wrapped layer receives/produces."""

  def __init__(self, inner, kind):
    self.inner = inner
    self.kind = kind
    self.log = []
    self.calls = 0
    self.shield = False   # set when the layer hands out its statement by reference

  def problem_statement(self):
    ps = self.inner.problem_statement()
    return copy.deepcopy(ps) if self.shield else ps

  def evaluate(self, suggestions):
    ins = [snap_params(t) for t in suggestions]
    self.calls += 1
    try:
      self.inner.evaluate(suggestions)
    except Exception as e:  # pylint: disable=broad-except
      if not hasattr(e, 'c20_origin'):
        try:
          e.c20_origin = self.kind
        except Exception:  # pylint: disable=broad-except
          pass
      raise
    for p, t in zip(ins, suggestions):
      self.log.append({'in': p, 'after': snap_params(t), 'out': snap_outcome(t)})

  def __repr__(self):
    return f'Recorder({self.inner!r})'


class Node:
  """One layer of a built tree."""

  def __init__(self, kind, args, children):
    self.kind = kind
    self.args = args
    self.children = children
    self.exp = None
    self.rec = None
    self.space = None          # parsed search space (see parse_space)
    self.metrics = None        # [(name, goal)] in statement order
    self.state = {}            # per-node monitor state (permutation seen, ...)

  @property
  def is_base(self):
    return self.kind in BASE_KINDS

  @property
  def metric_names(self):
    return [m[0] for m in self.metrics]

  def walk(self):
    yield self
    for c in self.children:
      yield from c.walk()

  def clear_logs(self):
    for n in self.walk():
      n.rec.log = []
      n.rec.calls = 0

  def kinds(self):
    return [n.kind for n in self.walk()]

  def has_random_noise(self):
    return any(n.kind == 'noisy' and n.args['type'] != 'NO_NOISE' for n in self.walk())

  def has_noisy(self):
    return any(n.kind == 'noisy' for n in self.walk())

  def has_infeasible_wrapper(self):
    return any(n.kind in ('hashing', 'region') for n in self.walk())

  def unseeded_permute(self):
    return any(n.kind == 'permute' and n.args.get('seed') is None for n in self.walk())


# ---------------------------------------------------------------------------
# search-space parsing (reads the repository's object, nothing is decided here)
# ---------------------------------------------------------------------------
def parse_param(pc):
  kind = pc.type.name
  p = {'name': pc.name, 'kind': kind,
       'scale': pc.scale_type.name if pc.scale_type is not None else None}
  if kind in ('DOUBLE', 'INTEGER'):
    lo, hi = pc.bounds
    p['lo'], p['hi'] = (float(lo), float(hi)) if kind == 'DOUBLE' else (int(lo), int(hi))
  else:
    vals = list(pc.feasible_values)
    p['values'] = [str(v) for v in vals] if kind == 'CATEGORICAL' else [float(v) for v in vals]
  p['has_children'] = bool(pc.child_parameter_configs)
  return p


def parse_space(ss):
  """-> {'params': [flat root params], 'switch': name or None}."""
  params = [parse_param(pc) for pc in ss.parameters]
  sw = [p['name'] for p in params if p['has_children']]
  return {'params': params, 'switch': sw[0] if sw else None}


def parse_metrics(ps):
  return [(m.name, m.goal.name) for m in ps.metric_information]


def space_key(space):
  """Comparable normal form of a parsed space (flat part)."""
  out = []
  for p in space['params']:
    if p['kind'] in ('DOUBLE', 'INTEGER'):
      out.append((p['name'], p['kind'], float(p['lo']), float(p['hi'])))
    else:
      out.append((p['name'], p['kind'], tuple(sorted(p['values'], key=str))))
  return out


def fingerprint(ps):
  return (repr(ps.search_space), tuple(parse_metrics(ps)), repr(ps.metadata))


# ---------------------------------------------------------------------------
# construction
# ---------------------------------------------------------------------------
# Mutable objects this harness (as the *creator* of a layer) handed to the
# constructor of the layer built last: [(label, object)]. The creator keeps
# them and scribbles on them at the end of the case (see check_creator_aliasing
# in checks/c20.py): an experimenter holds its problem statement by value only
# if that leaves it untouched.
OWNED = []


def _own(label, obj):
  OWNED.append((label, obj))
  return obj


def _bbob_exp(a):
  if a.get('lo') is None and not a.get('direct'):
    return experimenter_factory.BBOBExperimenterFactory(
        name=a['fn'], dim=a['dim'], rotation_seed=a['seed'])()
  kw = {}
  if a.get('lo') is not None:
    st = getattr(vz.ScaleType, a['scale']) if a.get('scale') else None
    kw = {'min_value': a['lo'], 'max_value': a['hi'], 'scale_type': st}
  return numpy_experimenter.NumpyExperimenter(
      functools.partial(getattr(bbob, a['fn']), seed=a['seed']),
      _own('problem_statement', bbob.DefaultBBOBProblemStatement(a['dim'], **kw)))


def optproblem(kind, a):
  import optproblems.dtlz
  import optproblems.wfg
  import optproblems.zdt
  if kind == 'dtlz':
    return getattr(optproblems.dtlz, a['name'])(a['nobj'], a['dim'])
  if kind == 'zdt':
    return getattr(optproblems.zdt, a['name'])(a['dim'])
  return getattr(optproblems.wfg, a['name'])(a['nobj'], a['dim'], a['nobj'] - 1)


def _mo_direct(kind, a):
  """The documented composition of the DTLZ/ZDT/WFG factories, built by hand from a
  statement this harness owns (f<i> MINIMIZE over x<d> in [0, 1])."""
  ps = vz.ProblemStatement()
  for n in range(a.get('nobj') or 2):
    ps.metric_information.append(
        vz.MetricInformation(name=f'f{n}', goal=vz.ObjectiveMetricGoal.MINIMIZE))
  for d in range(a['dim']):
    ps.search_space.root.add_float_param(f'x{d}', 0.0, 1.0)
  return numpy_experimenter.MultiObjectiveNumpyExperimenter(
      optproblem(kind, a).objective_function, _own('problem_statement', ps))


def make_base(kind, a):
  if kind == 'bbob':
    return _bbob_exp(a)
  if kind == 'branin':
    return branin.Branin2DExperimenter()
  if kind == 'hartmann':
    return (hartmann.HartmannExperimenter.from_3d() if a['dim'] == 3
            else hartmann.HartmannExperimenter.from_6d())
  if kind == 'simplekd':
    return simplekd.SimpleKDExperimenter(
        a['best'], num_float_param=a['nf'], num_discrete_param=a['nd'],
        num_int_param=a['ni'], output_relative_error=a['rel'])
  if kind in ('dtlz', 'zdt', 'wfg'):
    if a.get('direct'):
      return _mo_direct(kind, a)
    from vizier._src.benchmarks.experimenters.synthetic import multiobjective_optproblems as mo
    if kind == 'dtlz':
      return mo.DTLZExperimenterFactory(name=a['name'], dim=a['dim'], num_objectives=a['nobj'])()
    if kind == 'zdt':
      return mo.ZDTExperimenterFactory(name=a['name'], dim=a['dim'])()
    return mo.WFGExperimenterFactory(name=a['name'], dim=a['dim'], num_objectives=a['nobj'])()
  if kind == 'combined':
    return experimenter_factory.CombinedExperimenterFactory({
        name: experimenter_factory.BBOBExperimenterFactory(name=fn, dim=a['dim'], rotation_seed=seed)
        for name, (fn, seed) in a['fns'].items()})()
  raise ValueError(kind)


def make_wrapper(kind, a, inners):
  """inners: the Recorder(s) of the child layer(s)."""
  inner = inners[0]
  if kind == 'shift':
    sh = a['shift']
    if a.get('as_array', True):
      sh = np.asarray(sh, dtype=np.float64)
    return shifting_experimenter.ShiftingExperimenter(
        inner, shift=sh, should_restrict=a['restrict'])
  if kind == 'signflip':
    return sign_flip_experimenter.SignFlipExperimenter(
        inner, flip_objectives_only=a['objectives_only'])
  if kind == 'permute':
    return permuting_experimenter.PermutingExperimenter(
        inner, list(a['params']), seed=a['seed'])
  if kind == 'discretize':
    if a['mode'] == 'grid':
      return discretizing_experimenter.DiscretizingExperimenter.create_with_grid(
          inner, dict(a['counts']), convert_to_str=a['to_str'])
    return discretizing_experimenter.DiscretizingExperimenter(
        inner, {k: list(v) for k, v in a['values'].items()}, allow_oov=a['allow_oov'])
  if kind == 'hypercube':
    return normalizing_experimenter.HyperCubeExperimenter(inner)
  if kind == 'normalize':
    return normalizing_experimenter.NormalizingExperimenter(
        inner, num_normalization_samples=a['n'], noise_seed=a['noise_seed'])
  if kind == 'noisy':
    return noisy_experimenter.NoisyExperimenter.from_type(
        inner, noise_type=a['type'], seed=a['seed'])
  if kind == 'sparse':
    if a['mode'] == 'create':
      kw = {}
      if a.get('fmin') is not None:
        kw = {'float_min_value': a['fmin'], 'float_max_value': a['fmax']}
      return sparse_experimenter.SparseExperimenter.create(
          inner, float_count=a['nf'], int_count=a['ni'], discrete_count=a['nd'],
          categorical_count=a['nc'], **kw)
    ss = _own('search_space', vz.SearchSpace())
    for p in a['space']:
      _add_param(ss, p)
    return sparse_experimenter.SparseExperimenter(inner, ss, prefix=a['prefix'])
  if kind == 'switch':
    return switch_experimenter.SwitchExperimenter(list(inners))
  if kind == 'hashing':
    return infeasible_experimenter.HashingInfeasibleExperimenter(
        inner, infeasible_prob=a['prob'], seed=a['seed'])
  if kind == 'region':
    return infeasible_experimenter.ParamRegionInfeasibleExperimenter(
        inner, a['param'], infeasible_interval=tuple(a['interval']))
  raise ValueError(kind)


def _add_param(ss, p):
  if p['kind'] == 'DOUBLE':
    ss.root.add_float_param(p['name'], p['lo'], p['hi'])
  elif p['kind'] == 'INTEGER':
    ss.root.add_int_param(p['name'], p['lo'], p['hi'])
  elif p['kind'] == 'DISCRETE':
    ss.root.add_discrete_param(p['name'], list(p['values']))
  else:
    ss.root.add_categorical_param(p['name'], list(p['values']))


# ---------------------------------------------------------------------------
# independent oracles: expected search space of a wrapper
# ---------------------------------------------------------------------------
def sparse_added_params(a):
  if a['mode'] == 'create':
    flo, fhi = (a['fmin'], a['fmax']) if a.get('fmin') is not None else (-5.0, 5.0)
    out = []
    out += [{'name': f'_SPARSE_FLOAT{i}', 'kind': 'DOUBLE', 'lo': flo, 'hi': fhi}
            for i in range(a['nf'])]
    out += [{'name': f'_SPARSE_INT{i}', 'kind': 'INTEGER', 'lo': -5, 'hi': 5}
            for i in range(a['ni'])]
    out += [{'name': f'_SPARSE_DISCRETE{i}', 'kind': 'DISCRETE',
             'values': [0.0, 1.0, 2.0, 3.0, 4.0]} for i in range(a['nd'])]
    out += [{'name': f'_SPARSE_CATEGORICAL{i}', 'kind': 'CATEGORICAL',
             'values': ['a', 'b', 'c', 'd', 'e', 'f']} for i in range(a['nc'])]
    return out
  out = []
  for p in a['space']:
    q = dict(p)
    q['name'] = a['prefix'] + '_' + p['name']
    if q['kind'] == 'DISCRETE':
      q['values'] = [float(v) for v in q['values']]
    out.append(q)
  return out


def sparse_prefix(a):
  return '_SPARSE' if a['mode'] == 'create' else a['prefix']


def shift_vector(a, dim):
  sh = a['shift']
  return [float(sh)] * dim if not isinstance(sh, list) else (
      [float(sh[0])] * dim if len(sh) == 1 else [float(s) for s in sh])


def expected_space(node):
  """Expected flat space key of a wrapper from its child's parsed space; None = not decided here."""
  k, a = node.kind, node.args
  child = node.children[0].space
  cp = child['params']
  if k in ('signflip', 'permute', 'normalize', 'noisy', 'hashing', 'region'):
    return space_key(child)
  if k == 'shift':
    s = shift_vector(a, len(cp))
    out = []
    for p, si in zip(cp, s):
      q = dict(p)
      if a['restrict']:
        if si >= 0:
          q['lo'] = p['lo'] + si
        else:
          q['hi'] = p['hi'] + si
      out.append(q)
    return space_key({'params': out})
  if k == 'discretize':
    out = []
    for p in cp:
      q = dict(p)
      if a['mode'] == 'explicit' and p['name'] in a['values']:
        vals = a['values'][p['name']]
        if isinstance(vals[0], str):
          q = {'name': p['name'], 'kind': 'CATEGORICAL', 'values': [str(v) for v in vals]}
        else:
          q = {'name': p['name'], 'kind': 'DISCRETE', 'values': [float(v) for v in vals]}
      elif a['mode'] == 'grid' and p['name'] in a['counts']:
        return None   # grid values are checked separately (approximate)
      out.append(q)
    return space_key({'params': out})
  if k == 'hypercube':
    d = sum(len(p['values']) if p['kind'] == 'CATEGORICAL' else 1 for p in cp)
    return space_key({'params': [
        {'name': f'h{i}', 'kind': 'DOUBLE', 'lo': 0.0, 'hi': 1.0} for i in range(d)]})
  if k == 'sparse':
    return space_key({'params': cp + sparse_added_params(a)})
  return None


def expected_grid(p, n):
  """Grid of n points over the scaled range of DOUBLE parameter p."""
  lo, hi = p['lo'], p['hi']
  out = []
  for g in np.linspace(0.0, 1.0, num=n):
    out.append(unscale(p, float(g)))
  return out


def unscale(p, h):
  """[0,1] -> parameter range following the documented scale types."""
  lo, hi = float(p['lo']), float(p['hi'])
  if lo == hi:
    return h + lo - 0.5
  sc = p.get('scale')
  if sc == 'LOG':
    return math.exp(h * (math.log(hi) - math.log(lo)) + math.log(lo))
  if sc == 'REVERSE_LOG':
    return (lo + hi) - math.exp(math.log(hi) - (math.log(hi) - math.log(lo)) * h)
  if (hi - lo) == 1.0 and lo == 0:
    return h
  return h * (hi - lo) + lo


def scale01(p, x):
  lo, hi = float(p['lo']), float(p['hi'])
  if lo == hi:
    return x - lo + 0.5
  sc = p.get('scale')
  if sc == 'LOG':
    return (math.log(x) - math.log(lo)) / (math.log(hi) - math.log(lo))
  if sc == 'REVERSE_LOG':
    return 1.0 - (math.log((lo + hi) - x) - math.log(lo)) / (math.log(hi) - math.log(lo))
  return (x - lo) / (hi - lo)


def hypercube_map(child_space, hvals):
  """Oracle of the base point for hyper-cube coordinates.

  Returns {name: ('exact'|'approx', value) or ('oneof', [values])}.
  """
  out = {}
  i = 0
  for p in child_space['params']:
    k = p['kind']
    if k == 'CATEGORICAL':
      n = len(p['values'])
      cols = hvals[i:i + n]
      i += n
      mx = max(cols)
      cands = [v for v, c in zip(p['values'], cols) if mx - c <= 1e-12]
      out[p['name']] = ('oneof', cands)
      continue
    h = hvals[i]
    i += 1
    if k == 'DOUBLE':
      raw = unscale(p, h)
      v = min(max(raw, p['lo']), p['hi'])
      mode = 'exact' if p.get('scale') in (None, 'LINEAR') else 'approx'
      if v != raw:
        # out-of-cube coordinate: a correct implementation may clip in the scaled
        # space and un-scale the clipped coordinate, which lands within rounding
        # of the bound instead of exactly on it
        mode = 'approx'
      out[p['name']] = (mode, v)
    else:
      if k == 'INTEGER':
        feas = list(range(p['lo'], p['hi'] + 1))
        q = {'lo': p['lo'], 'hi': p['hi'], 'scale': p.get('scale')}
      else:
        feas = list(p['values'])
        q = {'lo': min(feas), 'hi': max(feas), 'scale': p.get('scale')}
      v = unscale(q, h)
      d = [abs(f - v) for f in feas]
      md = min(d)
      tol = 1e-9 * max(1.0, abs(v))
      cands = [f for f, di in zip(feas, d) if di - md <= tol]
      out[p['name']] = ('oneof', cands)
  return out


# ---------------------------------------------------------------------------
# independent oracles: base objective values
# ---------------------------------------------------------------------------
_H_ALPHA = [1.0, 1.2, 3.0, 3.2]
_H3_A = [[3, 10, 30], [0.1, 10, 35], [3, 10, 30], [0.1, 10, 35]]
_H3_P = [[3689, 1170, 2673], [4699, 4387, 7470], [1091, 8732, 5547], [381, 5743, 8828]]
_H6_A = [[10, 3, 17, 3.5, 1.7, 8], [0.05, 10, 17, 0.1, 8, 14],
         [3, 3.5, 1.7, 10, 17, 8], [17, 8, 0.05, 10, 0.1, 14]]
_H6_P = [[1312, 1696, 5569, 124, 8283, 5886], [2329, 4135, 8307, 3736, 1004, 9991],
         [2348, 1451, 3522, 2883, 3047, 6650], [4047, 8828, 8732, 5743, 1091, 381]]


def base_reference(node, params):
  """-> ({metric: value}, rel_tol) computed without the experimenter plumbing, or None."""
  k, a = node.kind, node.args
  if k == 'bbob':
    x = np.array([float(params[f'x{i}']) for i in range(a['dim'])], dtype=np.float64)
    return {'bbob_eval': float(getattr(bbob, a['fn'])(x, seed=a['seed']))}, 0.0
  if k == 'combined':
    out = {}
    for name, (fn, seed) in a['fns'].items():
      x = np.array([float(params[f'x{i}']) for i in range(a['dim'])], dtype=np.float64)
      out[name] = float(getattr(bbob, fn)(x, seed=seed))
    return out, 0.0
  if k == 'branin':
    x1, x2 = float(params['x1']), float(params['x2'])
    b, c, t = 5.1 / (4 * math.pi ** 2), 5 / math.pi, 1 / (8 * math.pi)
    return {'value': (x2 - b * x1 * x1 + c * x1 - 6) ** 2 + 10 * (1 - t) * math.cos(x1) + 10}, 1e-10
  if k == 'hartmann':
    A, P = (_H3_A, _H3_P) if a['dim'] == 3 else (_H6_A, _H6_P)
    x = [float(params[f'x{i + 1}']) for i in range(a['dim'])]
    tot = 0.0
    for al, ar, pr in zip(_H_ALPHA, A, P):
      tot += al * math.exp(-sum(aij * (xj - 1e-4 * pij) ** 2 for aij, xj, pij in zip(ar, x, pr)))
    return {'value': -tot}, 1e-10
  if k in ('dtlz', 'zdt', 'wfg'):
    import optproblems.dtlz
    import optproblems.wfg
    import optproblems.zdt
    x = [float(params[f'x{i}']) for i in range(a['dim'])]
    if k == 'dtlz':
      prob = getattr(optproblems.dtlz, a['name'])(a['nobj'], a['dim'])
    elif k == 'zdt':
      prob = getattr(optproblems.zdt, a['name'])(a['dim'])
    else:
      prob = getattr(optproblems.wfg, a['name'])(a['nobj'], a['dim'], a['nobj'] - 1)
    vals = prob.objective_function(x)
    return {f'f{i}': float(v) for i, v in enumerate(vals)}, 1e-12
  return None
