"""C16 families 'member' (flat membership biconditional) and 'cond' (refusal)."""
import json
from vv import gen
from vv import c16_cond as cond
from vv.c16_util import enc, dec, xmember, xmember1, nxt, pack_tree, case_tree

CLASSES = ['feasible', 'boundary', 'int-as-float', 'float-as-int', 'near-miss',
           'near-inside', 'wrong-type', 'pybool', 'bool-variant', 'missing',
           'extra', 'renamed', 'empty', 'nonfinite', 'near-miss', 'wrong-type']


def _near_miss(rng, p):
  k = p['kind']
  if k == 'DOUBLE':
    return rng.choice([(nxt(p['hi']), 'ulp-above-hi'), (nxt(p['lo'], False), 'ulp-below-lo'),
                       (p['hi'] + max(1.0, abs(p['hi'])), 'far-above-hi'),
                       (p['lo'] - max(1.0, abs(p['lo'])), 'far-below-lo')])
  if k == 'INTEGER':
    return rng.choice([(p['hi'] + 1, 'hi+1'), (p['lo'] - 1, 'lo-1'),
                       (float(p['hi'] + 1), 'hi+1-as-float'),
                       (p['lo'] + 0.5, 'fraction-for-integer'),
                       (nxt(p['hi']), 'ulp-above-hi'), (nxt(p['lo'], False), 'ulp-below-lo')])
  if k == 'DISCRETE':
    f = rng.choice(p['values'])
    opts = [(nxt(f), 'ulp-off-feasible'), (nxt(f, False), 'ulp-off-feasible'),
            (max(p['values']) + 1.0, 'above-max'), (min(p['values']) - 1.0, 'below-min')]
    if len(p['values']) > 1:
      vs = sorted(p['values'])
      j = rng.randrange(len(vs) - 1)
      opts.append(((vs[j] + vs[j + 1]) / 2, 'between-feasible'))
    return rng.choice(opts)
  if k == 'CATEGORICAL':
    f = rng.choice(p['values'])
    return rng.choice([('zz-unknown', 'unknown-category'), (f + ' ', 'trailing-space'),
                       (f.swapcase() if f.swapcase() != f else f + f, 'case-variant'),
                       ('', 'empty-string')])
  return rng.choice([('true', 'bool-lowercase'), ('TRUE', 'bool-uppercase'),
                     ('1', 'bool-digit-string'), ('T', 'bool-letter')])


def _wrong_type(rng, p, feasible):
  k = p['kind']
  if k in ('DOUBLE', 'INTEGER', 'DISCRETE'):
    return rng.choice([(repr(feasible), 'str-of-number'), ('True', 'str-True-for-number'),
                       ('abc', 'word-for-number')])
  return rng.choice([(1, 'int-for-category'), (0.5, 'float-for-category'),
                     (0, 'zero-for-category'), (1.0, 'one-float-for-category')])


def gen_assignment(rng, desc, cls):
  """Returns (assignment dict, labels dict) — labels are cosmetic (mech ids)."""
  a = {p['name']: gen.sample_value(rng, p) for p in desc}
  lab = {n: 'feasible' for n in a}
  if not desc:
    return a, lab
  if cls == 'boundary':
    for p in desc:
      if p['kind'] in ('DOUBLE', 'INTEGER'):
        a[p['name']] = rng.choice([p['lo'], p['hi']])
      elif p['kind'] == 'DISCRETE':
        a[p['name']] = rng.choice([min(p['values']), max(p['values'])])
      lab[p['name']] = 'boundary'
  elif cls == 'int-as-float':
    for p in desc:
      v = a[p['name']]
      if p['kind'] == 'INTEGER':
        a[p['name']], lab[p['name']] = float(v), 'integral-float-for-integer'
      elif p['kind'] == 'DISCRETE':
        a[p['name']], lab[p['name']] = float(v), 'float-for-discrete'
  elif cls == 'float-as-int':
    for p in desc:
      v = a[p['name']]
      if p['kind'] == 'DISCRETE' and float(v).is_integer():
        a[p['name']], lab[p['name']] = int(v), 'int-for-discrete'
      elif p['kind'] == 'DOUBLE':
        c = int(round(v))
        a[p['name']], lab[p['name']] = c, 'int-for-double'   # may fall outside: oracle decides
  elif cls in ('near-miss', 'near-inside', 'wrong-type', 'nonfinite', 'pybool', 'bool-variant'):
    p = rng.choice(desc)
    if cls == 'pybool':
      bools = [q for q in desc if q['kind'] == 'BOOL']
      p = rng.choice(bools) if bools and rng.random() < 0.8 else p
      a[p['name']], lab[p['name']] = rng.choice([True, False]), 'pybool'
    elif cls == 'bool-variant':
      bools = [q for q in desc if q['kind'] == 'BOOL']
      if bools:
        p = rng.choice(bools)
        a[p['name']], lab[p['name']] = rng.choice(
            [('true', 'bool-lowercase'), ('TRUE', 'bool-uppercase'), ('1', 'bool-digit-string'),
             (1, 'int-for-bool'), (0, 'int-for-bool'), (1.0, 'float-for-bool'),
             ('True', 'feasible'), ('False', 'feasible')])
    elif cls == 'near-miss':
      a[p['name']], lab[p['name']] = _near_miss(rng, p)
    elif cls == 'near-inside':
      if p['kind'] == 'DOUBLE' and p['hi'] > p['lo']:
        a[p['name']], lab[p['name']] = rng.choice(
            [(nxt(p['hi'], False), 'ulp-below-hi'), (nxt(p['lo']), 'ulp-above-lo')])
      elif p['kind'] == 'INTEGER':
        a[p['name']], lab[p['name']] = rng.choice(
            [(float(p['hi']), 'hi-as-float'), (float(p['lo']), 'lo-as-float')])
    elif cls == 'wrong-type':
      a[p['name']], lab[p['name']] = _wrong_type(rng, p, a[p['name']])
    else:
      nums = [q for q in desc if q['kind'] in ('DOUBLE', 'INTEGER', 'DISCRETE')]
      if nums:
        p = rng.choice(nums)
        a[p['name']], lab[p['name']] = rng.choice(
            [(float('inf'), 'inf'), (float('-inf'), '-inf'), (float('nan'), 'nan')])
  elif cls == 'missing':
    n = rng.choice(list(a))
    del a[n], lab[n]
  elif cls == 'extra':
    a['zz_extra'] = rng.choice([1, 0.5, 'a'])
    lab['zz_extra'] = 'extra-key'
  elif cls == 'renamed':
    n = rng.choice(list(a))
    a[n + '_'] = a.pop(n)
    lab[n + '_'] = 'renamed-key'
    del lab[n]
  elif cls == 'empty':
    a, lab = {}, {}
  return a, lab


def _call(fn, *args):
  try:
    return ('ok', fn(*args))
  except Exception as e:  # pylint: disable=broad-except
    return ('exc', e)


PC_EXTRA = [(None, 'none'), ([1], 'list'), (10 ** 400, 'huge-int')]


def exec_member(ctx, desc, a, labels, cls, space=None, extras=False):
  """One assignment against SearchSpace.contains / assert_contains and, per
  value, ParameterConfig.contains (raw and wrapped)."""
  from vizier import pyvizier as vz
  if space is None:
    space = gen.build_space(desc)
  case = {'family': 'member', 'desc': desc, 'assignment': enc(a), 'labels': labels,
          'class': cls}
  bad = sorted(l for l in labels.values() if l not in ('feasible', 'boundary'))
  tag = f'{cls}:{bad[0] if bad else "feasible"}'
  ctx.case(['member', gen.space_shape(desc), cls, sorted(labels.values())], bool(desc))
  exp = xmember(desc, a)
  # ---- per value -------------------------------------------------------------
  byname = {p['name']: p for p in desc}
  items = [(n, v, labels[n]) for n, v in a.items() if n in byname]
  if extras and desc:
    items += [(desc[0]['name'], v, l) for v, l in PC_EXTRA]
  for n, v, lab in items:
    p = byname[n]
    e1 = xmember1(p, v)
    pc = space.get(n)
    forms = [('raw', v)]
    try:
      forms.append(('wrapped', vz.ParameterValue(v)))
    except Exception:  # pylint: disable=broad-except
      pass
    for form, arg in forms:
      kindres, res = _call(pc.contains, arg)
      if e1 is None:
        ctx.count('pc_unspecified_bool_into_' + p['kind'])
        if kindres == 'exc':
          ctx.count('pc_unspecified_raised')
        continue
      ctx.count('pc_biconditionals_checked')
      if kindres == 'exc':
        if e1:
          ctx.violation(f'pc-contains-raised-on-member:{p["kind"]}:{lab}:{type(res).__name__}',
                        f'ParameterConfig.contains({v!r}) raised {type(res).__name__}: {res}',
                        case, {'param': p, 'form': form})
        else:
          ctx.count(f'pc_nonmember_refused_by_exception:{p["kind"]}:{lab}:{type(res).__name__}')
        continue
      if res is not True and res is not False:
        ctx.violation(f'pc-contains-nonbool:{p["kind"]}', f'contains returned {res!r}', case)
        continue
      ctx.count('pc_true_seen' if res else 'pc_false_seen')
      if res != e1:
        what = 'accepted-nonmember' if res else 'rejected-member'
        ctx.violation(f'pc-contains:{what}:{p["kind"]}:{lab}',
                      f'ParameterConfig({p["kind"]}).contains({v!r}) == {res}, oracle {e1}',
                      case, {'param': p, 'value': repr(v), 'form': form})
  # ---- whole assignment -------------------------------------------------------
  try:
    pd = vz.ParameterDict(a)
  except Exception:  # pylint: disable=broad-except
    ctx.count('assignments_not_representable')
    return
  for api in ('contains', 'assert_contains'):
    kindres, res = _call(getattr(space, api), pd)
    if exp is None:
      ctx.count('space_unspecified_bool_assignments')
      continue
    ctx.count('biconditionals_checked')
    if kindres == 'exc':
      if exp:
        ctx.violation(f'space-{api}:raised-on-member:{tag}:{type(res).__name__}',
                      f'SearchSpace.{api} raised {type(res).__name__} on a member: {res}', case)
      else:
        ctx.count('nonmembers_rejected')
        if api == 'contains':
          ctx.count(f'space_nonmember_refused_by_exception:{tag}:{type(res).__name__}')
        elif not isinstance(res, ValueError):
          ctx.count(f'assert_contains_unusual_exception:{tag}:{type(res).__name__}')
      continue
    if api == 'assert_contains':
      # returned without raising == accepted
      res = True
    if res is not True and res is not False:
      ctx.violation('space-contains-nonbool', f'contains returned {res!r}', case)
      continue
    if res:
      if exp:
        ctx.count('members_accepted')
      else:
        ctx.violation(f'space-{api}:accepted-nonmember:{tag}',
                      f'SearchSpace.{api} accepted a non-member ({gen.why_not_member(desc, a) if sorted(a) == sorted(byname) else "key set differs"})',
                      case)
    else:
      if exp:
        ctx.violation(f'space-{api}:rejected-member:{tag}',
                      f'SearchSpace.{api} rejected a member assignment', case)
      else:
        ctx.count('nonmembers_rejected')


def replay_member(ctx, case):
  exec_member(ctx, case['desc'], dec(case['assignment']), case['labels'], case['class'],
              extras=True)


# ---------------------------------------------------------------------------
# conditional spaces: membership must be refused, never answered
# ---------------------------------------------------------------------------
def gen_cond_case(rng):
  for _ in range(20):
    tree = cond.gen_tree(rng, rng.choice([1, 1, 2, 3]), p_parent=0.7)
    if cond.tree_depth(tree) >= 1:
      break
  choices = cond.draw_choices(rng, tree)
  act = {p['name']: choices[p['name']] for p, _ in cond.active_walk(tree, choices)}
  variants = [('active', act), ('empty', {}),
              ('all-params', dict(choices)),
              ('top-only', {p['name']: choices[p['name']] for p in tree})]
  return tree, variants


def case_staged(tree, name):
  """Half of the conditional cases build the space in two stages (deterministic in the case)."""
  return (len(json.dumps(tree, sort_keys=True, default=str)) + len(name)) % 2


def exec_cond(ctx, tree, name, a):
  from vizier import pyvizier as vz
  case = {'family': 'cond', 'tree': tree, 'tree_json': pack_tree(tree), 'variant': name,
          'assignment': enc(a)}
  staged = bool(case_staged(tree, name))
  if staged:
    # same space, but looked at and queried while it was still flat
    def probe(sp):
      top = {p['name']: a[p['name']] for p in tree if p['name'] in a}
      _call(lambda: sp.is_conditional)
      _call(sp.contains, vz.ParameterDict(top))
    try:
      space = cond.build_tree_queried_while_flat(tree, probe)
    except Exception as e:  # pylint: disable=broad-except
      ctx.violation(f'builder:valid-conditional-definition-rejected:{type(e).__name__}:staged',
                    f'attaching children after the flat space was queried raised {type(e).__name__}: {e}', case)
      return
    case['staged'] = True
    ctx.count('conditional_spaces_queried_while_flat')
  else:
    space = cond.build_tree(tree)
  ctx.case(['cond', cond.tree_shape(tree), name, staged], True)
  if not space.is_conditional:
    ctx.violation('conditional-space-not-recognised',
                  'is_conditional is False for a space with child parameters', case)
    return
  pd = vz.ParameterDict(a)
  # what a (hypothetical) correct conditional membership decision would be: the
  # keys are exactly the parameters active under the assignment's own values
  # (all values here are feasible by construction).
  truth = sorted(p['name'] for p, _ in cond.active_walk(tree, a)) == sorted(a)
  for api in ('contains', 'assert_contains'):
    kindres, res = _call(getattr(space, api), pd)
    ctx.count('conditional_refusals_checked')
    if kindres == 'exc' and isinstance(res, NotImplementedError):
      ctx.count('conditional_refused_not_implemented')
      continue
    if kindres == 'ok':
      answer = True if api == 'assert_contains' else res
    elif isinstance(res, ValueError):
      answer = False           # InvalidParameterError == "not a member"
    else:
      ctx.violation(f'conditional-{api}-wrong-refusal:{type(res).__name__}:{name}',
                    f'SearchSpace.{api} raised {type(res).__name__} for a conditional space: '
                    f'{res}', case)
      continue
    if answer is truth:
      ctx.count('conditional_answered_correctly')
    else:
      ctx.violation(f'conditional-{api}-answered-wrongly:{answer!r}:{name}',
                    f'SearchSpace.{api} answered {answer!r} for a conditional space (depth '
                    f'{cond.tree_depth(tree)}); the assignment is '
                    f'{"" if truth else "not "}exactly the active parameter set', case)


def exec_empty_subspace(ctx, desc, a, labels, cls, parent_name, parent_value):
  """select() without adding children leaves the space flat: must still answer."""
  space = gen.build_space(desc)
  space.root.select(parent_name, [parent_value])
  if space.is_conditional:
    ctx.violation('empty-subspace-makes-space-conditional',
                  'a selected-but-empty subspace made the space conditional',
                  {'family': 'emptysub', 'desc': desc, 'assignment': enc(a), 'labels': labels,
                   'class': cls, 'parent': parent_name, 'value': enc(parent_value)})
    return
  ctx.count('empty_subspace_spaces_checked')
  exec_member(ctx, desc, a, labels, cls, space=space)


def replay_cond(ctx, case):
  if case['family'] == 'emptysub':
    exec_empty_subspace(ctx, case['desc'], dec(case['assignment']), case['labels'],
                        case['class'], case['parent'], dec(case['value']))
  else:
    exec_cond(ctx, case_tree(case), case['variant'], dec(case['assignment']))
