"""C17 core: typed-space generation, expected presentation, comparison."""
from vv import gen
from vv import c16_cond as cond
from vv.c16_util import enc, dec

INDEX_POOL = [0, 1, 2, 3, 9, 10, 11, 12, 20, 100]


def _typed_leaf(rng, name, kind=None):
  kind = kind or rng.choice(['BOOL', 'DISC_INT', 'DISC_INT_NOCAST', 'DISC_FRAC', 'DOUBLE',
                             'CATEGORICAL', 'INTEGER', 'DISC_MIXED_GIVEN'])
  p = {'name': name, 'scale': None, 'default': None}
  if kind == 'BOOL':
    p.update(kind='BOOL', values=['False', 'True'])
  elif kind in ('DISC_INT', 'DISC_INT_NOCAST', 'DISC_MIXED_GIVEN'):
    n = rng.randint(1, 5)
    vals = sorted(float(v) for v in rng.sample(
        list(range(-6, 20)) + [1000, 10 ** 6, -(10 ** 9)], n))
    p.update(kind='DISCRETE', values=vals, auto_cast=(kind != 'DISC_INT_NOCAST'))
    if kind == 'DISC_MIXED_GIVEN':
      # the builder is handed ints and integral floats mixed, unsorted
      given = [int(v) if rng.random() < 0.5 else v for v in vals]
      rng.shuffle(given)
      p['given_values'] = given
  elif kind == 'DISC_FRAC':
    n = rng.randint(1, 5)
    vals = set()
    while len(vals) < n:
      vals.add(round(rng.uniform(-9, 9), 3))
    if not any(not float(v).is_integer() for v in vals):
      vals.add(0.5)
    # integral members next to fractional ones: still FLOAT
    if rng.random() < 0.5:
      vals.add(float(rng.randint(-3, 3)))
    p.update(kind='DISCRETE', values=sorted(vals), auto_cast=rng.random() < 0.8)
  elif kind == 'DOUBLE':
    lo = rng.choice([0.0, -1.0, rng.uniform(-100, 100), 1e-6])
    hi = lo + rng.choice([1.0, 1e-9, 1e6, rng.uniform(0.1, 50)])
    p.update(kind='DOUBLE', lo=float(lo), hi=float(hi))
  elif kind == 'CATEGORICAL':
    pool = ['a', 'b', 'True', 'False', '1', '0', '1.0', '2.5', 'x y', 'é', 'Z', 'none']
    p.update(kind='CATEGORICAL', values=sorted(rng.sample(pool, rng.randint(1, 5))))
  else:
    lo = rng.randint(-5, 5)
    p.update(kind='INTEGER', lo=lo, hi=lo + rng.choice([0, 1, 7, 100]))
  return p


def _indexed_family(rng, base):
  idx = rng.sample(INDEX_POOL, rng.randint(2, 6))      # insertion order is shuffled
  kind = rng.choice(['BOOL', 'DISC_INT', 'DISC_FRAC', 'DOUBLE', 'CATEGORICAL', 'INTEGER'])
  mixed = rng.random() < 0.2
  out = []
  for k in idx:
    p = _typed_leaf(rng, f'{base}[{k}]', None if mixed else kind)
    p['base'], p['index'] = base, k
    out.append(p)
  return out


def _variant_groups(rng, dom, names, others):
  """2..3 child groups under *disjoint* parent values that declare the same
  child name(s) differently (every branch of a switch brings its own 'size'):
  each group re-declares 1..2 shared names (a typed leaf or an indexed family,
  possibly of another length) and may carry further children of its own."""
  n_groups = rng.randint(2, min(3, len(dom)))
  vals = list(dom)
  rng.shuffle(vals)
  cuts = [[v] for v in vals[:n_groups]]
  for v in vals[n_groups:]:
    if rng.random() < 0.6:
      rng.choice(cuts).append(v)
  shared = [(names.fresh(), rng.random() < 0.3) for _ in range(rng.randint(1, 2))]
  groups = []
  for g, gv in enumerate(cuts):
    kids = []
    for nm, family in shared:
      if g >= 2 and rng.random() < 0.3:
        continue                                  # this branch does not have it
      if family:
        idx = rng.sample(INDEX_POOL[:6], rng.randint(2, 3))
        kind = rng.choice(['BOOL', 'DISC_INT', 'DISC_FRAC', 'DOUBLE', 'CATEGORICAL', 'INTEGER'])
        for k in idx:
          q = _typed_leaf(rng, f'{nm}[{k}]', kind)
          q['base'], q['index'] = nm, k
          kids.append(q)
      else:
        kids.append(_typed_leaf(rng, nm))
    kids.extend(others())
    rng.shuffle(kids)
    groups.append([sorted(gv, key=lambda v: (str(type(v)), v)), kids])
  return groups


def gen_typed_tree(rng, depth, variants=True):
  """Typed conditional tree; top level (and some child groups) get indexed families."""
  names = cond._Names(rng)  # pylint: disable=protected-access

  def level(d, n):
    out = []
    for _ in range(n):
      name = names.fresh()
      r = rng.random()
      if d < depth and r < 0.55:
        p = cond._small_parent(rng, name, rng.choice(cond.PARENT_KINDS))  # pylint: disable=protected-access
        dom = cond.domain_values(p)
        groups = []
        if variants and len(dom) >= 2 and rng.random() < 0.4:
          groups = _variant_groups(rng, dom, names, lambda: level(d + 1, rng.randint(0, 1)))
        else:
          for _g in range(rng.randint(1, 2)):
            k = 1 if rng.random() < 0.5 else rng.randint(1, min(3, len(dom)))
            groups.append([sorted(rng.sample(dom, k)), level(d + 1, rng.randint(1, 2))])
        p['children'] = groups
        out.append(p)
      elif r < 0.75:
        out.extend(_indexed_family(rng, name))
      else:
        out.append(_typed_leaf(rng, name))
    rng.shuffle(out)
    return out

  for _ in range(30):
    tree = level(0, rng.randint(1, 4))
    if cond.tree_depth(tree) >= min(depth, 1):
      return tree
  return tree


def draw_stored(rng, tree, pybool=0.25):
  """A stored value for every parameter (active or not): feasible, with the
  python-type variations a user may store (int for float, float for int, bool)."""
  choices = cond.draw_choices(rng, tree, p_child_bias=0.7, int_as_float=0.25)
  params = cond.all_params(tree)
  for n, p in params.items():
    v = choices[n]
    is_parent = bool(p.get('children'))
    if p['kind'] == 'BOOL' and rng.random() < (0.06 if is_parent else pybool):
      choices[n] = (v == 'True')
    elif p['kind'] == 'DOUBLE' and rng.random() < 0.15:
      c = int(round(v))
      if p['lo'] <= c <= p['hi']:
        choices[n] = c
  # names declared differently under another parent value: the stored value is
  # one of the declaration that is active for this trial (such children are leaves)
  for p, _d in cond.active_walk(tree, choices):
    if p is not params[p['name']]:
      choices[p['name']] = _draw_leaf_value(rng, p, pybool)
  return choices


def _draw_leaf_value(rng, p, pybool):
  v = gen.sample_value(rng, p)
  if p['kind'] in ('INTEGER', 'DISCRETE') and rng.random() < 0.25:
    v = float(v)
  elif p['kind'] == 'DISCRETE' and float(v).is_integer() and rng.random() < 0.3:
    v = int(v)
  elif p['kind'] == 'BOOL' and rng.random() < pybool:
    v = (v == 'True')
  elif p['kind'] == 'DOUBLE' and rng.random() < 0.15:
    c = int(round(v))
    if p['lo'] <= c <= p['hi']:
      v = c
  return v


def active_descs(tree, stored):
  """{name: description} of the declarations that are active for `stored` (the
  one under the parent value of this trial when a name is declared repeatedly)."""
  out = {p['name']: p for p, _d in cond.active_walk(tree, stored) if p['name'] in stored}
  if len(out) != len(stored):
    flat = cond.all_params(tree)
    for n in stored:
      if n not in out and n in flat:
        out[n] = flat[n]
  return out


def redeclared_names(tree):
  """Names (and indexed bases) that carry more than one distinct declaration."""
  seen = {}

  def rec(plist):
    for p in plist:
      sig = repr(sorted((k, repr(v)) for k, v in p.items() if k != 'children'))
      seen.setdefault(p['name'], set()).add(sig)
      for _vals, kids in p.get('children', []):
        rec(kids)
  rec(tree)
  out = {n for n, sigs in seen.items() if len(sigs) > 1}
  # a member of an indexed family that exists in only some branches re-declares the base
  bases = {}
  for n in seen:
    bi = cond.split_indexed(n)
    if bi:
      bases.setdefault(bi[0], set()).add(n)
  for b, members in bases.items():
    if members & out:
      out.add(b)
  return out


def active_assignment(tree, choices):
  return {p['name']: choices[p['name']] for p, _ in cond.active_walk(tree, choices)}


# ---------------------------------------------------------------------------
# expected presentation
# ---------------------------------------------------------------------------
def expected_parameters(tree, stored):
  """{key: (declared, value)} or {base: [(declared, value), ...]} in index order."""
  params = active_descs(tree, stored)
  scalars = {}
  families = {}
  for name, v in stored.items():
    p = params[name]
    d = cond.declared_external(p)
    if d == 'BOOLEAN':
      ev = v if isinstance(v, bool) else (v == 'True')
    else:
      ev = v
    bi = cond.split_indexed(name)
    if bi is None:
      scalars[name] = (d, ev)
    else:
      families.setdefault(bi[0], []).append((bi[1], d, ev))
  out = dict(scalars)
  for base, items in families.items():
    out[base] = [(d, ev) for _k, d, ev in sorted(items, key=lambda t: t[0])]
  return out


def _type_ok(declared, v):
  if declared == 'BOOLEAN':
    return isinstance(v, bool)
  if isinstance(v, bool):
    return False
  if declared == 'INTEGER':
    return isinstance(v, int)
  if declared in ('FLOAT', 'DOUBLE'):
    return isinstance(v, float)
  if declared == 'CATEGORICAL':
    return isinstance(v, str)
  if declared == 'INTEGER_PARAM':      # not declared by the property: int or float
    return isinstance(v, (int, float))
  raise ValueError(declared)


def _value_ok(declared, v, ev):
  if declared == 'CATEGORICAL':
    return isinstance(v, str) and v == ev
  if declared == 'BOOLEAN':
    return v is ev or v == ev
  if isinstance(v, str) or isinstance(ev, str):
    return False
  return v == ev


def compare(ctx, reader, got, tree, stored, case):
  """Checks one presented dict against the expectation. Returns #problems."""
  exp = expected_parameters(tree, stored)
  n_bad = 0
  redecl = redeclared_names(tree)

  def sfx(key):
    # the anomaly concerns a name that another parent value declares differently
    return ':name-redeclared-under-other-parent-value' if key in redecl else ''
  if not isinstance(got, dict) and not hasattr(got, 'keys'):
    ctx.violation(f'presented-not-a-mapping:{reader}', repr(got), case)
    return 1
  gk, ek = sorted(got.keys()), sorted(exp.keys())
  ctx.count('trials_compared')
  ctx.count(f'reads:{reader}')
  if gk != ek:
    missing = sorted(set(ek) - set(gk))
    extra = sorted(set(gk) - set(ek))
    ungrouped = [k for k in extra if cond.split_indexed(k)]
    if ungrouped:
      mech = 'indexed-names-not-grouped'
    elif missing:
      mech = 'active-parameter-not-presented'
    else:
      mech = 'inactive-or-unknown-parameter-presented'
    ctx.violation(f'{mech}:{reader}', f'presented keys {gk} != expected {ek}', case,
                  {'missing': missing, 'extra': extra})
    return 1
  for key, e in exp.items():
    g = got[key]
    if isinstance(e, list):
      ctx.count('multidim_groups_checked')
      if len(e) >= 2:
        ctx.count('multidim_groups_len>=2')
      idx = sorted(bi[1] for n in stored for bi in [cond.split_indexed(n)]
                   if bi and bi[0] == key)
      if any(k >= 10 for k in idx) and any(k < 10 for k in idx):
        ctx.count('multidim_index_ge_10_checked')
      if not isinstance(g, (list, tuple)) or len(g) != len(e):
        ctx.violation(f'indexed-group-shape:{reader}{sfx(key)}',
                      f'{key}: presented {g!r} for {len(e)} indexed parameters', case)
        n_bad += 1
        continue
      vals_ok = all(_value_ok(d, gv, ev) for gv, (d, ev) in zip(g, e))
      if not vals_ok:
        # same multiset in another order => ordering defect, else value defect
        perm = (sorted(repr(_norm(x)) for x in g)
                == sorted(repr(_norm(ev)) for _d, ev in e))
        lex = [ev for _n, ev in sorted(
            zip([f'{key}[{k}]' for k in idx], [ev for _d, ev in e]), key=lambda t: t[0])]
        if perm and [_norm(x) for x in g] == [_norm(x) for x in lex]:
          mech = 'indexed-group-order:lexicographic'
        elif perm:
          mech = 'indexed-group-order:other'
        else:
          mech = 'indexed-group-values'
        ctx.violation(f'{mech}:{reader}{sfx(key)}',
                      f'{key}: presented {g!r}, expected {[ev for _d, ev in e]} (indices {idx})',
                      case)
        n_bad += 1
        continue
      pairs = list(zip(g, e))
    else:
      pairs = [(g, e)]
    for gv, (d, ev) in pairs:
      ctx.count(f'values_typechecked:{d}')
      if sfx(key):
        ctx.count('redeclared_name_values_typechecked')
      if not _value_ok(d, gv, ev):
        ctx.violation(f'value-differs:{d}:{reader}{sfx(key)}',
                      f'{key}: presented {gv!r}, stored {ev!r}', case,
                      {'declared': d})
        n_bad += 1
      elif not _type_ok(d, gv):
        ctx.violation(f'wrong-presented-type:{d}:as-{type(gv).__name__}:{reader}{sfx(key)}',
                      f'{key}: presented {gv!r} ({type(gv).__name__}) for a parameter '
                      f'declared {d}' + (' under the parent value of this trial' if sfx(key) else ''),
                      case, {'stored': repr(ev)})
        n_bad += 1
  return n_bad


def _cast(d, ev):
  if d == 'INTEGER':
    return int(ev)
  if d in ('FLOAT', 'DOUBLE'):
    return float(ev)
  return ev


def _norm(x):
  return x if isinstance(x, (str, bool)) else float(x)


def case_of(kind, reader, tree, stored, **extra):
  c = {'kind': kind, 'reader': reader, 'tree': tree, 'stored': enc(stored)}
  c.update(extra)
  return c


def stored_of(case):
  return dec(case['stored'])
