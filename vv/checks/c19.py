"""C19 — the vectorised acquisition optimiser returns in-bounds candidates, the
best it evaluated.

Subjects: `VectorizedOptimizerFactory` / `VectorizedOptimizer.__call__` of
vizier/_src/algorithms/optimizers/vectorized_base.py driven with
`VectorizedEagleStrategyFactory` (default config, the gp_ucb_pe production
config, multiplicative perturbation, a lowered pool ceiling) and the random
strategy of random_vectorized_optimizer.py.

How it observes: the score function handed to the optimiser is one parametric
jax function (quadratic + linear + categorical table + plateau quantisation +
needle + NaN/-inf region, all selected by array parameters, so one compiled
executable serves every score-function class of a shape).  Inside it a
`jax.debug.callback` ships every evaluated batch (features, masks, rewards) to
the harness, so the monitors see the complete evaluation history of the
suggest-evaluate-update loop as well as the returned
`VectorizedStrategyResults`.  The harness re-evaluates the score with an
independent numpy implementation outside jit.

Monitors (one counter each): result shapes == count; continuous features in
[0,1]; categorical features integer and < n_categories; padded dimensions of
the result are the fill (0); the masks handed to the score function mark
exactly the padded dimensions; reward[i] == score(features[i]) (numpy, outside
jit); the returned (feature, reward) rows are evaluated rows (loop or prior
evaluation) and their sorted rewards lie between the top-`count` of what the
loop evaluated and the top-`count` of loop + prior evaluations; NaN is never
preferred to a finite score; best reward >= best prior score; same seed =>
bitwise identical result (re-execution and re-trace); different seeds =>
different results (the seed is used at all).

Parallel acquisition with trial-padded priors (`PAR_FIRST`, `gen_par_group`):
score classes that are finite - and best - on the fill values of trial-padding
rows, prior counts that are / are not a multiple of n_parallel; the bounds
monitors then show a padding row (or a partial set completed with padding rows)
that was taken for a prior.
"""
import functools
import math
import re

import numpy as np

PROPERTY = 'C19'
LEVEL = 'exploration'
RULE = ('groups = (strategy in {eagle, eagle with the gp_ucb_pe config, eagle '
        'multiplicative, eagle with a pool ceiling (max_pool_size) at or just '
        'below the automatic pool size, random} x feature layout (0..6 '
        'continuous, 0..5 categorical of 2..6 categories, never both 0; wide '
        'layouts of 9..40 continuous features for which the automatic pool size '
        'reaches its ceiling) x feature/trial padding {none, powers of 2, '
        'multiples of 10} x batch size {5,10,25 and 7,8,30,64 which do not '
        'divide the pool ceiling} x max_evaluations 1..2000 x count relation '
        '{1, <batch, ==batch, >batch, ==all evaluations} x n_parallel '
        '{None,1,2,3} x use_fori x #priors {0, few, near-pool = as many as the '
        'prior part of the pool the optimiser really has takes minus 0..4 '
        '(preferring counts whose trial-padded array has more rows than '
        'that), more than the pool} x float32/float64 x jitted/eager call); '
        'per group one compilation and 12..60 cases = score-function class '
        '{interior quadratic, corner-seeking linear, categorical indicator, '
        'plateau, constant, mixture, NaN region, -inf region, large/small '
        'magnitude, needle = ball of radius 0.01 on one category combination '
        'scoring above everything else} x prior class {random, optimum (needle) '
        'planted first=oldest/last=newest/middle/at the boundary between the '
        'priors taken into the pool directly and the merged ones/at a random '
        'position, duplicates, corners, coordinates outside the unit cube} x '
        'seed; groups with priors start with the needle planted on the '
        'oldest, the newest and two boundary priors; budgets below one batch, '
        'not a multiple of the batch, just short of the eagle pool and ending '
        'before the pool is swept. Before these groups every shard of the first '
        'six runs one group of parallel acquisition (n_parallel 2..4) seeded '
        'with a trial-padded prior array (eagle default / gp_ucb_pe / '
        'multiplicative / capped, random; categorical-only and mixed layouts): '
        'the priors are 1..4 complete sets of n_parallel rows, either exactly '
        'or plus 1..n_parallel-1 further rows while the trial padding leaves '
        'room for the rows that would complete that partial set; their cases '
        'follow a fixed list led by `catneg` = a penalty per category choice '
        'that ignores the continuous features, so that the fill of a '
        'trial-padding row (NaN, category -1) scores above every valid '
        'candidate, and by the needle planted on the newest / oldest prior; '
        'the categorical-indicator, catneg and constant scores do not read the '
        'real continuous features at all (finite at NaN). A case is non-trivial unless the score is '
        'constant; distinct = hash of (group shape, function class, prior class).')
ASSUMPTIONS = [
    'reward re-evaluation tolerance: 5e-5 (float32) / 1e-11 (float64) times the '
    'sum of absolute term magnitudes of the score; on plateau functions a value '
    'within that tolerance of a quantisation boundary may land on either step',
    'count <= number of evaluations of the run; when fewer than `count` '
    'evaluated points have a score that is not NaN/-inf the remaining slots are '
    'unspecified (the optimiser fills them with its -inf placeholders or with '
    'evaluated -inf/NaN rows) and only the layout is checked on them',
    'rows with a NaN reward that displaced finite-score candidates are reported '
    'once, under nan-reward-returned-as-best; their other anomalies (NaN '
    'features, result below the best prior) are counted, not reported again',
    'NaN prior scores are ignored for the not-worse-than-prior oracle; prior '
    'categorical features are valid indices; prior continuous features may lie '
    'outside the unit cube (trials completed under other bounds) and then the '
    'reference of the not-worse-than-prior oracle is the score of the prior '
    'clipped into the cube - an out-of-cube point is not a legitimate candidate '
    '- or the score of its raw coordinates when that is lower (the optimiser '
    'ranks priors by the raw score and may then rightly prefer other priors)',
    'count <= max_evaluations: the budget always allows `count` evaluations, so '
    'unfilled (-inf placeholder) slots are accepted only after at least '
    'max_evaluations candidates were scored',
    'ties in rewards make order and choice among equal rewards arbitrary: '
    'results are compared as multisets of rewards and rows are looked up in the '
    'evaluation log',
    'the score function respects the PaddedArray masks it is given (as the GP '
    'acquisition functions do); it puts non-zero weight on padded dimensions '
    'so that a wrong mask or a leaked value shows in the reward',
    'seed sensitivity is only demanded of runs without priors on layouts with a '
    'continuous feature and a strictly concave score',
    'jax.debug.callback delivers every batch evaluated inside fori_loop',
    'needle scores: a point whose squared distance to the needle centre is '
    'within 1e-8 (float32) / 1e-14 (float64) of the squared radius may score '
    'either way; such returned rows are not re-scored and such priors are not '
    'used as the reference of the not-worse-than-prior oracle',
    'the number of priors of a near-pool group is derived from the pool size '
    'and prior_trials_pool_pct of the strategy object under test (read, not '
    'recomputed), so it follows whatever pool the factory really built',
    'only complete sets of n_parallel consecutive prior rows (oldest first) are '
    'priors of a parallel call: a trailing partial set is not a reference of '
    'the not-worse-than-prior oracle, and rows of the trial padding are never '
    'legitimate candidates (an out-of-range category / NaN coordinate in the '
    'result is reported with the tag prior-trial-padding-fill when the value is '
    'the fill of a trial-padded prior array)',
    'the mechanism id of worse-than-prior on eagle names the observable shape '
    'under which the prior was lost: pool size not a multiple of the batch, '
    'more priors than prior slots, trial-padded prior rows exceeding the '
    'prior slots, and whether the best prior was the oldest/newest/an inner one',
]
REQUIRED_COUNTERS = [
    'results_reevaluated:eagle', 'results_reevaluated:random',
    'topk_checked', 'prior_checked:eagle', 'prior_checked:random',
    'cont_in_unit_checked', 'cat_in_range_checked', 'padding_zero_checked',
    'mask_checked', 'determinism_checked', 'seed_sensitivity_pairs',
    'count_gt_batch_cases', 'count_eq_1_cases', 'nonfinite_region_cases',
    'zero_continuous_layouts', 'zero_categorical_layouts',
    'budget_below_batch_cases', 'budget_not_multiple_of_batch_cases',
    'budget_short_of_pool_with_priors_cases', 'outside_cube_prior_cases:eagle',
    'needle_on_planted_prior_cases:eagle', 'needle_on_planted_prior_cases:random',
    'priors_near_pool_slots_cases', 'padded_prior_rows_exceed_pool_slots_cases',
    'more_priors_than_pool_slots_cases',
    'pool_ceiling_reached_batch_not_divisor_with_priors_cases',
    'batch_not_divisor_of_100_cases',
    'parallel_partial_prior_set_trial_padded_cases:eagle',
    'partial_prior_set_fill_scores_best_cases:eagle',
    'parallel_exact_prior_sets_trial_padded_cases',
    'parallel_needle_in_last_complete_prior_set_cases',
]
MIN_DISTINCT = {'quick': 200, 'thorough': 1500}

FN_CLASSES = ['quad', 'corner', 'cat', 'plateau', 'mix', 'nanreg', 'infreg',
              'const', 'big', 'tiny', 'spike']
PRIOR_CLASSES = ['random', 'opt-first', 'opt-last', 'opt-mid', 'dups', 'corners',
                 'outside', 'opt-edge', 'opt-rand']
PADS = ['NONE', 'POWERS_OF_2', 'MULTIPLES_OF_10']
STRATEGIES = ['eagle', 'random', 'eagle', 'eagle-ucbpe', 'eagle', 'random',
              'eagle-mult', 'eagle', 'eagle-cap', 'eagle-ucbpe']
# suggestion batch sizes: divisors of the default pool ceiling (100) and sizes
# that do not divide it (the pool is rounded up to a multiple of the batch)
BATCHES = [5, 10, 25, 25, 5, 10, 25, 7, 8, 30, 64]
# every group with priors runs these (score class, prior class) pairs first: a
# needle that only the planted prior point sits on is the sharpest instance of
# "never worse than the best prior" (the search does not find it by itself)
LEAD_CASES = [('spike', 'opt-first'), ('spike', 'opt-last'), ('spike', 'opt-edge'),
              ('spike', 'opt-edge')]
MAX_REPORTS_PER_MECH = 4


def plan(tier, seed):
  return {'shards': 12 if tier == 'quick' else 16,
          'budget_s': 44 if tier == 'quick' else 900}


# ---------------------------------------------------------------------------
# group (= one compiled shape) generation
# ---------------------------------------------------------------------------
def padded_dim(n, pad):
  if pad == 'NONE' or n == 0 and pad == 'POWERS_OF_2':
    return n
  if pad == 'MULTIPLES_OF_10':
    return int(math.ceil(n / 10.0)) * 10
  return int(2 ** math.ceil(math.log(n, 2)))


def raw_pool_size(n_features, exponent=1.2):
  return 10 + int(0.5 * n_features + n_features ** exponent)


def eagle_pool_size(n_features, batch, exponent=1.2, max_pool=100):
  """Pool size the documented rule gives (only used to shape the budgets)."""
  pool = min(raw_pool_size(n_features, exponent), max_pool or 100)
  return int(math.ceil(pool / batch) * batch)


# The first group of every shard is fixed (the quick tier on a loaded machine
# compiles only 2-4 shapes per shard): together they cover every strategy,
# layout kind, padding, count relation and prior class.
FIRST = [
    # strategy, layout, padf, count relation, priors, budget class, overrides
    ('random', 'mixed', 'NONE', 'gt', 'few', 'std', {}),
    # as many priors as the pool takes, in a trial-padded prior array
    ('eagle', 'mixed', 'POWERS_OF_2', 'lt', 'near-pool', 'std', {'padt': 'pad'}),
    ('eagle', 'cat', 'NONE', 'one', 'many', 'below-batch', {}),
    # production config, enough features for the pool ceiling, a batch size that
    # does not divide the ceiling, priors filling the prior part of the pool
    ('eagle-ucbpe', 'wide', 'MULTIPLES_OF_10', 'gt', 'near-pool', 'std',
     {'batch': 30}),
    ('eagle', 'cont', 'POWERS_OF_2', 'eq', 'none', 'std', {}),
    ('random', 'cont', 'NONE', 'one', 'none', 'below-batch', {}),
    ('eagle-mult', 'mixed', 'NONE', 'lt', 'none', 'std', {}),
    ('eagle', 'mixed', 'MULTIPLES_OF_10', 'all', 'few', 'std', {}),
    ('random', 'cat', 'NONE', 'lt', 'many', 'std', {}),
    ('eagle', 'cont', 'NONE', 'gt', 'many', 'short-of-pool', {}),
    ('eagle-ucbpe', 'cat', 'POWERS_OF_2', 'one', 'few', 'std', {}),
    ('random', 'mixed', 'POWERS_OF_2', 'lt', 'few', 'std', {}),
    # second round of the fixed schedule
    ('eagle-cap', 'mixed', 'NONE', 'lt', 'near-pool', 'std', {'batch': 8}),
    ('eagle', 'wide', 'NONE', 'gt', 'near-pool', 'std',
     {'batch': 64, 'ncont': 40}),
    ('eagle-ucbpe', 'mixed', 'MULTIPLES_OF_10', 'gt', 'few', 'std', {}),
    ('eagle', 'cont', 'NONE', 'one', 'near-pool', 'std',
     {'batch': 7, 'padt': 'pad'}),
    ('eagle-cap', 'cont', 'POWERS_OF_2', 'gt', 'many', 'std', {'batch': 30}),
    ('eagle-mult', 'mixed', 'NONE', 'eq', 'near-pool', 'std', {'padt': 'pad'}),
]
UCBPE_EXPONENT = 2.0494446726436744


PRIOR_PCT = {'eagle-ucbpe': 0.423499384081575}     # else the default 0.96


def pool_left_space(pool, pct):
  """Slots of an eagle pool of `pool` fireflies that take prior points."""
  return pool - int(pool * (1 - pct))


def gen_group(rng, index, tier):
  fixed = FIRST[index] if index < len(FIRST) else None
  over = fixed[6] if fixed else {}
  strategy = fixed[0] if fixed else STRATEGIES[index % len(STRATEGIES)]
  lay = fixed[1] if fixed else rng.choice(
      ['cont', 'cat', 'mixed', 'mixed', 'mixed', 'wide'])
  if lay == 'cont':
    ncont, cats = rng.choice([1, 2, 3, 5, 6]), []
  elif lay == 'cat':
    ncont = 0
    cats = [rng.choice([2, 3, 4, 6]) for _ in range(rng.choice([1, 2, 3, 5]))]
  elif lay == 'wide':
    # enough features for the automatic pool size to come near / reach its
    # ceiling (default rule: 34 features, gp_ucb_pe exponent: 9 features)
    ncont = rng.choice([9, 12, 20, 34, 40])
    cats = [rng.choice([2, 3, 4, 6]) for _ in range(rng.choice([0, 0, 1, 2]))]
  else:
    ncont = rng.choice([1, 2, 3, 5])
    cats = [rng.choice([2, 3, 4, 6]) for _ in range(rng.choice([1, 2, 3]))]
  if fixed:
    padf = fixed[2]
    if padf == 'POWERS_OF_2' and lay != 'wide':
      # 3 or 5 features so that powers of two really pad
      if ncont:
        ncont = rng.choice([3, 5])
      if cats:
        cats = (cats + [2, 3, 4])[:3]
  elif strategy == 'random':
    padf = rng.choice(PADS) if rng.random() < 0.3 else 'NONE'
  else:
    padf = rng.choice(PADS)
  ncont = over.get('ncont', ncont)
  padt = rng.choice(PADS)
  if over.get('padt') == 'pad':
    padt = rng.choice(PADS[1:])
  batch = rng.choice(BATCHES)
  batch = over.get('batch', batch)
  n_parallel = 0 if fixed else rng.choice([0, 0, 0, 0, 1, 2, 3])
  nfeat = ncont + len(cats)
  exponent = UCBPE_EXPONENT if strategy == 'eagle-ucbpe' else 1.2
  eagle = strategy.startswith('eagle')
  # eagle-cap: a pool ceiling (EagleStrategyConfig.max_pool_size) at or just
  # below what the automatic rule gives for this layout, so that the ceiling
  # binds and meets batch sizes that do not divide it
  cap_delta = rng.choice([0, 1, 3, 5, 8])
  max_pool = 0
  if strategy == 'eagle-cap':
    max_pool = max(6, raw_pool_size(nfeat) - cap_delta)
  # budget class: how max_evaluations relates to the batch and to the eagle pool
  #   std            >= pool, often not a multiple of the batch
  #   below-batch    1 .. batch-1 (one round must still run)
  #   short-of-pool  pool-batch < max_evaluations < pool: the rounded-up number
  #                  of rounds still sweeps the whole pool (eagle)
  #   tiny           even the rounded-up budget ends before the pool is swept
  if fixed:
    budget = fixed[5]
  else:
    budget = rng.choice(['std'] * 39 + ['below-batch'] * 4
                        + ['short-of-pool'] * 4 + ['tiny'] * 3)
  if budget in ('short-of-pool', 'tiny'):
    if not eagle:
      budget = 'std'
    elif eagle_pool_size(nfeat, batch, exponent, max_pool) <= batch:
      batch = rng.choice([5, 10])      # the pool has at least 11 fireflies
      if eagle_pool_size(nfeat, batch, exponent, max_pool) <= batch:
        budget = 'std'
  pool = eagle_pool_size(nfeat, batch, exponent, max_pool)
  use_fori = True if fixed else rng.random() < 0.75
  tiny_budget = budget == 'tiny'
  if budget == 'tiny':
    max_evals = rng.randint(1, pool - batch)
  elif budget == 'short-of-pool':
    max_evals = rng.randint(pool - batch + 1, pool - 1)
  elif budget == 'below-batch':
    max_evals = rng.randint(1, batch - 1)
  else:
    if not use_fori:
      # unrolled under jit: compile time grows with the number of iterations
      max_evals = max(pool, batch * rng.randint(2, 5))
    else:
      max_evals = max(pool, rng.choice([40, 100, 200, 333, 500, 1000, 2000]))
      if n_parallel or fixed:
        max_evals = min(max_evals, max(pool, 500))
    if rng.random() < 0.4:
      max_evals += rng.randint(1, batch - 1)     # not a multiple of the batch
  n_iter = (max_evals - 1) // batch + 1
  total = n_iter * batch
  rel = fixed[3] if fixed else rng.choice(['one', 'lt', 'lt', 'eq', 'gt', 'gt', 'all'])
  if rel == 'all' and (total > 250 or max_evals != total):
    if fixed:
      max_evals = total = ((max(pool, 100) - 1) // batch + 1) * batch
    else:
      rel = 'gt'
  count = {'one': 1, 'lt': rng.randint(2, max(2, batch - 1)), 'eq': batch,
           'gt': batch + rng.randint(1, batch + 3), 'all': total}[rel]
  # the budget always allows `count` evaluations
  count = min(count, max_evals)
  # number of priors: none, a few, more than the pool, or `near-pool` = as many
  # as the prior part of the pool takes, give or take a few (the number is
  # fixed when the optimiser is built, from the pool size it really has; the
  # offsets are tried in this order, see build_env)
  pc = fixed[4] if fixed else rng.choice(['none', 'few', 'few', 'many',
                                          'near-pool'])
  if budget == 'short-of-pool' and pc != 'many' and rng.random() < 0.7:
    pc = 'many'
  left = pool_left_space(pool, PRIOR_PCT.get(strategy, 0.96))
  n_prior = {'none': 0, 'few': rng.randint(1, 6),
             'many': pool + rng.randint(1, 40),
             'near-pool': max(1, left)}[pc]
  offs = rng.sample(range(5), 5)
  if tiny_budget and n_prior == 0:
    n_prior = rng.randint(1, 6)
  if n_parallel and 0 < n_prior < n_parallel:
    n_prior = n_parallel
  if pc == 'near-pool':
    n_prior *= max(1, n_parallel)
  mode = 'jit'
  if not fixed and rng.random() < (0.08 if tier == 'quick' else 0.15):
    mode = 'eager'
  if mode == 'eager' and not use_fori:
    # an un-jitted python loop dispatches every primitive of the strategy one
    # by one (seconds per iteration for eagle): only tiny runs, thorough tier
    if tier == 'quick' or (strategy != 'random' and pool > 2 * batch):
      use_fori = True
    elif budget == 'std':
      max_evals = max(pool, 2 * batch)
  if mode == 'eager':
    max_evals = min(max_evals, max(pool, 500))
  count = min(count, max_evals)
  return {'strategy': strategy, 'ncont': ncont, 'cats': cats, 'padf': padf,
          'padt': padt, 'batch': batch, 'max_evals': max_evals,
          'use_fori': use_fori, 'n_parallel': n_parallel, 'count': count,
          'n_prior': n_prior, 'x64': rng.random() < 0.3, 'mode': mode,
          'bounds': rng.choice(['unit', 'wide', 'log', 'int']),
          'max_pool': max_pool, 'near_pool': offs if pc == 'near-pool' else None}


# Parallel acquisition (n_parallel >= 2) seeded with trial-padded priors: the
# priors are cut into sets of n_parallel rows; a trailing partial set has to be
# dropped and the trial-padding rows (fill: NaN / -1) never count as priors.
# These groups run before the ordinary ones (one per shard on the quick tier).
PAR_FIRST = [
    # strategy, layout, n_parallel, trial padding, #priors vs sets, count relation
    ('eagle', 'cat', 2, 'MULTIPLES_OF_10', 'partial', 'one'),
    ('eagle', 'mixed', 3, 'MULTIPLES_OF_10', 'partial', 'lt'),
    ('eagle-ucbpe', 'mixed', 2, 'POWERS_OF_2', 'partial', 'one'),
    ('eagle', 'cat', 3, 'POWERS_OF_2', 'partial', 'gt'),
    ('eagle', 'mixed', 2, 'MULTIPLES_OF_10', 'exact', 'one'),
    ('random', 'mixed', 2, 'MULTIPLES_OF_10', 'partial', 'lt'),
]
PAR_GI = 1000000          # index space of these groups (rng, replay)
# (score class, prior class) schedule of a parallel-priors group: `catneg`
# scores an index outside the categories above every valid candidate and
# ignores the continuous features, so a fill row taken for a prior wins
PAR_CASES = [('catneg', 'random'), ('spike', 'opt-last'), ('catneg', 'opt-last'),
             ('cat', 'corners'), ('spike', 'opt-first'), ('const', 'random'),
             ('catneg', 'dups'), ('plateau', 'random'), ('mix', 'opt-mid'),
             ('catneg', 'outside'), ('quad', 'opt-rand'), ('infreg', 'random'),
             ('nanreg', 'random'), ('corner', 'corners'), ('spike', 'opt-edge'),
             ('big', 'random'), ('tiny', 'opt-last')]


def gen_par_group(rng, k, tier):
  fixed = PAR_FIRST[k] if k < len(PAR_FIRST) else None
  strategy = fixed[0] if fixed else rng.choice(
      ['eagle', 'eagle', 'eagle-ucbpe', 'eagle-mult', 'eagle-cap', 'random'])
  lay = fixed[1] if fixed else rng.choice(['cat', 'mixed', 'mixed'])
  cats = [rng.choice([2, 3, 4, 6]) for _ in range(rng.choice([1, 2, 3]))]
  ncont = 0 if lay == 'cat' else rng.choice([1, 2, 3])
  npar = fixed[2] if fixed else rng.choice([2, 2, 3, 4])
  padt = fixed[3] if fixed else rng.choice(PADS[1:])
  rel = fixed[4] if fixed else rng.choice(['partial', 'partial', 'exact'])
  crel = fixed[5] if fixed else rng.choice(['one', 'lt', 'eq', 'gt'])
  padf = 'NONE' if fixed else rng.choice(PADS)
  batch = rng.choice([5, 10])
  nfeat = ncont + len(cats)
  exponent = UCBPE_EXPONENT if strategy == 'eagle-ucbpe' else 1.2
  max_pool = max(6, raw_pool_size(nfeat) - rng.choice([0, 1, 3])) if (
      strategy == 'eagle-cap') else 0
  pool = eagle_pool_size(nfeat, batch, exponent, max_pool)
  max_evals = max(pool, rng.choice([60, 100, 200]))
  if rng.random() < 0.4:
    max_evals += rng.randint(1, batch - 1)
  count = {'one': 1, 'lt': rng.randint(2, batch - 1), 'eq': batch,
           'gt': batch + rng.randint(1, batch + 3)}[crel]
  count = min(count, max_evals)
  # 1..4 complete sets; `partial`: plus 1..n_parallel-1 further priors, and the
  # trial-padded array has room for at least one more set of n_parallel rows
  n_prior = None
  for _ in range(50):
    sets = rng.randint(1, 4)
    m = sets * npar + (rng.randint(1, npar - 1) if rel == 'partial' else 0)
    if padded_dim(m, padt) // npar > m // npar:
      n_prior = m
      break
  if n_prior is None:
    n_prior = npar + (1 if rel == 'partial' else 0)
  return {'strategy': strategy, 'ncont': ncont, 'cats': cats, 'padf': padf,
          'padt': padt, 'batch': batch, 'max_evals': max_evals,
          'use_fori': True, 'n_parallel': npar, 'count': count,
          'n_prior': n_prior, 'x64': (not fixed) and rng.random() < 0.25,
          'mode': 'jit', 'bounds': rng.choice(['unit', 'wide', 'log', 'int']),
          'max_pool': max_pool, 'near_pool': None, 'sched': 'parallel-priors'}


def group_shape(g):
  """Abstract shape of a group for distinctness hashing."""
  total = ((g['max_evals'] - 1) // g['batch'] + 1) * g['batch']
  c, b = g['count'], g['batch']
  rel = ('one' if c == 1 else 'all' if c == total else 'lt' if c < b
         else 'eq' if c == b else 'gt')
  return [g['strategy'], g['ncont'], sorted(g['cats']), g['padf'], g['padt'], b,
          rel, g['n_parallel'], g['use_fori'],
          0 if not g['n_prior'] else 3 if g.get('near_pool') else (
              1 if g['n_prior'] <= 6 else 2),
          g['x64'], g['mode'], g['max_evals'] < 100, g['max_evals'] < b,
          g['max_evals'] % b != 0, bool(g.get('max_pool'))] + (
              [g['sched'], g['n_prior'] % max(1, g['n_parallel']) != 0]
              if g.get('sched') else [])


# ---------------------------------------------------------------------------
# environment of a group: converter, optimiser, compiled runner, log sink
# ---------------------------------------------------------------------------
class Env:
  pass


def build_env(g):
  import jax
  jax.config.update('jax_enable_x64', bool(g['x64']))
  from jax import numpy as jnp
  import equinox as eqx
  from vizier import pyvizier as vz
  from vizier._src.algorithms.optimizers import eagle_strategy as es
  from vizier._src.algorithms.optimizers import random_vectorized_optimizer as rvo
  from vizier._src.algorithms.optimizers import vectorized_base as vb
  from vizier._src.jax import types
  from vizier.pyvizier import converters
  from vizier.pyvizier.converters import padding

  env = Env()
  env.g = g
  env.jax, env.jnp, env.types = jax, jnp, types
  problem = vz.ProblemStatement()
  root = problem.search_space.root
  for i in range(g['ncont']):
    kind = g['bounds']
    if kind == 'unit' or (kind == 'int' and i % 2):
      root.add_float_param(f'x{i:02d}', 0.0, 1.0)
    elif kind == 'wide':
      root.add_float_param(f'x{i:02d}', -50.0 - i, 1e4)
    elif kind == 'log':
      root.add_float_param(f'x{i:02d}', 1e-3, 10.0 + i,
                           scale_type=vz.ScaleType.LOG)
    else:
      root.add_int_param(f'x{i:02d}', -5, 1000 + i)
  for j, k in enumerate(g['cats']):
    root.add_categorical_param(f'z{j:02d}', [f'v{v}' for v in range(k)])
  problem.metric_information.append(vz.MetricInformation(
      name='obj', goal=vz.ObjectiveMetricGoal.MAXIMIZE))
  sched = padding.PaddingSchedule(
      num_trials=getattr(padding.PaddingType, g['padt']),
      num_features=getattr(padding.PaddingType, g['padf']))
  env.sched = sched
  env.converter = converters.TrialToModelInputConverter.from_problem(
      problem, padding_schedule=sched)
  empty = env.converter.to_features([])
  env.ncp = int(empty.continuous.shape[-1])
  env.nkp = int(empty.categorical.shape[-1])
  env.maxcat = max(g['cats']) if g['cats'] else 1
  env.fdtype = np.float64 if g['x64'] else np.float32
  if g['strategy'] == 'random':
    sf = rvo.random_strategy_factory
  elif g['strategy'] == 'eagle':
    sf = es.VectorizedEagleStrategyFactory()
  elif g['strategy'] == 'eagle-ucbpe':
    from vizier._src.algorithms.designers import gp_ucb_pe
    sf = es.VectorizedEagleStrategyFactory(
        eagle_config=gp_ucb_pe.VizierGPUCBPEBandit.default_eagle_config)
  elif g['strategy'] == 'eagle-mult':
    sf = es.VectorizedEagleStrategyFactory(eagle_config=es.EagleStrategyConfig(
        continuous_feature_perturbation_type=(
            es.ContinuousFeaturePerturbationType.MULTIPLICATIVE)))
  elif g['strategy'] == 'eagle-cap':
    sf = es.VectorizedEagleStrategyFactory(eagle_config=es.EagleStrategyConfig(
        max_pool_size=g['max_pool']))
  else:
    raise ValueError(g['strategy'])
  env.optimizer = vb.VectorizedOptimizerFactory(
      strategy_factory=sf, max_evaluations=g['max_evals'],
      suggestion_batch_size=g['batch'], use_fori=g['use_fori'])(env.converter)
  env.pool = getattr(env.optimizer.strategy, 'pool_size', None)
  # prior slots of the pool the optimiser really has (rows = slots * n_parallel)
  env.pool_left = None
  if env.pool:
    env.pool_left = pool_left_space(
        env.pool, env.optimizer.strategy.config.prior_trials_pool_pct)
  env.n_prior = g['n_prior']
  if g.get('near_pool') and env.pool_left:
    # `near-pool`: pool_left - offset prior points; the offsets for which the
    # valid priors fit into the pool while the trial-padded prior array has
    # more rows than that are preferred; among the candidates the first in the
    # group's order or (every other group) the one closest to pool_left
    par = max(1, g['n_parallel'])
    sizes = [max(1, env.pool_left - o) for o in g['near_pool']]
    over = [m for m in sizes
            if padded_dim(m * par, g['padt']) // par > env.pool_left]
    cands = over or sizes
    env.n_prior = (max(cands) if g['near_pool'][0] % 2 == 0 else cands[0]) * par
  env.log = []
  env.ncalls = [0]
  parallel = bool(g['n_parallel'])

  def host(tag, c, z, cm, zm, s):
    env.log.append((tag, np.array(c), np.array(z), np.array(cm), np.array(zm),
                    np.array(s)))

  real_cont = np.arange(env.ncp) < g['ncont']

  def score(params, x, seed=None):
    del seed
    c = x.continuous.padded_array
    z = x.categorical.padded_array
    cm = x.continuous.is_missing[-1]
    zm = x.categorical.is_missing[-1]
    c0 = jnp.where(cm, jnp.zeros_like(c), c)
    # score classes that depend on the categorical choices only (usec == 0) do
    # not look at the real continuous features at all, whatever they hold
    c0 = jnp.where(real_cont & (params['usec'] < 0.5), jnp.zeros_like(c0), c0)
    s = (-jnp.sum(params['wq'] * (c0 - params['cq']) ** 2, axis=-1)
         + jnp.sum(params['wl'] * c0, axis=-1))
    onehot = z[..., None] == jnp.arange(env.maxcat)
    table = jnp.where(zm[:, None], 0.0, params['T'])
    s = s + jnp.sum(table * onehot, axis=(-1, -2))
    s = s + params['A'] * (jnp.sum(~cm) + jnp.sum(~zm))
    step = params['step']
    safe = jnp.where(step > 0, step, 1.0)
    s = jnp.where(step > 0, jnp.floor(s / safe) * safe, s)
    # needle: a small ball (and one category combination) with a score above
    # everything else; sr2 < 0 switches it off
    d2 = jnp.sum(jnp.where(cm, 0.0, (c0 - params['sc']) ** 2), axis=-1)
    spike_table = jnp.where(zm[:, None], 0.0, params['Ts'])
    hits = jnp.sum(spike_table * onehot, axis=(-1, -2))
    s = jnp.where((d2 < params['sr2']) & (hits > params['snk'] - 0.5),
                  params['sv'], s)
    bad_table = jnp.where(zm[:, None], 0.0, params['Tbad'])
    bad = ((jnp.sum(c0 * params['e0'], axis=-1) > params['thr'])
           | (jnp.sum(bad_table * onehot, axis=(-1, -2)) > 0.5))
    s = jnp.where(bad, params['badval'], s)
    if parallel:
      s = jnp.sum(s, axis=-1)
    tag = env.ncalls[0]
    env.ncalls[0] += 1
    jax.debug.callback(functools.partial(host, tag), c, z, cm, zm, s)
    return s

  env.score = score
  count = g['count']
  npar = g['n_parallel'] or None

  @eqx.filter_jit
  def run_jit(optimizer, params, seed, prior):
    return optimizer(functools.partial(score, params), count=count, seed=seed,
                     prior_features=prior, n_parallel=npar)

  def run(params, seed_int, prior):
    env.log.clear()
    env.ncalls[0] = 0
    pj = {k: jnp.asarray(v) for k, v in params.items()}
    seed = jax.random.PRNGKey(seed_int)
    if g['mode'] == 'jit':
      res = run_jit(env.optimizer, pj, seed, prior)
    else:
      res = env.optimizer(functools.partial(score, pj), count=count, seed=seed,
                          prior_features=prior, n_parallel=npar)
    jax.block_until_ready(res)
    jax.effects_barrier()
    log = list(env.log)
    return res, log

  env.run = run
  return env


# ---------------------------------------------------------------------------
# score-function parameters and priors (numpy, derived from the case seed)
# ---------------------------------------------------------------------------
def gen_params(env, fn_class, nrng):
  g = env.g
  n, ncp, nk, nkp, mc = g['ncont'], env.ncp, len(g['cats']), env.nkp, env.maxcat
  f = env.fdtype
  wq = np.zeros(ncp); cq = np.zeros(ncp); wl = np.zeros(ncp)
  T = np.zeros((nkp, mc)); Tbad = np.zeros((nkp, mc)); e0 = np.zeros(ncp)
  sc = np.zeros(ncp); Ts = np.zeros((nkp, mc)); sr2, sv = -1.0, 0.0
  # non-zero weight on padded dimensions: invisible iff masked / zero filled
  wq[n:] = 1.0
  wl[n:] = 1.5
  T[nk:, :] = nrng.uniform(0.5, 2.0, size=(nkp - nk, mc))
  step, thr, badval, scale = 0.0, 2.0, 0.0, 1.0
  quad = fn_class in ('quad', 'plateau', 'mix', 'nanreg', 'infreg', 'big', 'tiny',
                      'spike')
  lin = fn_class in ('corner', 'mix', 'nanreg', 'infreg')
  cat = fn_class in ('cat', 'mix', 'nanreg', 'infreg', 'big', 'tiny', 'corner',
                     'spike')
  if fn_class == 'big':
    scale = 1e6
  if fn_class == 'tiny':
    scale = 1e-6
  if quad:
    wq[:n] = nrng.uniform(0.2, 3.0, size=n) * scale
    cq[:n] = nrng.uniform(0.05, 0.95, size=n)
  if lin:
    wl[:n] = nrng.choice([-1.0, 1.0], size=n) * nrng.uniform(0.1, 2.0, size=n)
  if cat:
    for k, size in enumerate(g['cats']):
      if fn_class == 'cat':
        T[k, int(nrng.integers(size))] = 1.0
      else:
        T[k, :size] = nrng.uniform(-1.0, 1.0, size=size) * scale
  if fn_class == 'catneg':
    # a penalty per category choice: every valid choice scores below 0, so an
    # index outside the categories (one-hot of nothing, e.g. the trial-padding
    # fill -1) scores above every valid candidate
    for k, size in enumerate(g['cats']):
      T[k, :size] = -nrng.uniform(0.2, 1.0, size=size)
  if fn_class == 'plateau':
    step = float(nrng.choice([0.05, 0.25, 1.0]))
    if nk:
      T[0, :g['cats'][0]] = nrng.integers(0, 3, size=g['cats'][0]) * step
  if fn_class in ('nanreg', 'infreg'):
    badval = np.nan if fn_class == 'nanreg' else -np.inf
    if n and (not nk or nrng.random() < 0.6):
      e0[int(nrng.integers(n))] = 1.0
      thr = float(nrng.uniform(0.5, 0.8))
    if nk and (not n or nrng.random() < 0.6):
      k = int(nrng.integers(nk))
      if g['cats'][k] > 1:
        Tbad[k, int(nrng.integers(g['cats'][k]))] = 1.0
  A = 0.0 if fn_class in ('cat', 'catneg') else 0.37 * scale
  usec = 0.0 if fn_class in ('cat', 'catneg', 'const') else 1.0
  if fn_class == 'const':
    A = 0.5
  if fn_class == 'spike':
    # a needle of radius 0.01 (all continuous coordinates) on one category
    # combination, away from the maximiser of the smooth part, scoring above
    # the supremum of the smooth part
    sc[:n] = nrng.uniform(0.05, 0.95, size=n)
    for k, size in enumerate(g['cats']):
      Ts[k, int(nrng.integers(size))] = 1.0
    sr2 = 1e-4
    sv = float(np.sum(np.max(T[:nk], axis=-1)) if nk else 0.0) + A * (n + nk)
    sv = sv + float(nrng.uniform(1.0, 3.0))
  p = {'wq': wq, 'cq': cq, 'wl': wl, 'T': T, 'Tbad': Tbad, 'e0': e0,
       'A': np.asarray(A), 'step': np.asarray(step), 'thr': np.asarray(thr),
       'badval': np.asarray(badval), 'sc': sc, 'Ts': Ts,
       'sr2': np.asarray(sr2), 'sv': np.asarray(sv), 'snk': np.asarray(nk),
       'usec': np.asarray(usec)}
  return {k: np.asarray(v, dtype=f) for k, v in p.items()}


def np_score_points(env, p, c, z):
  """Independent numpy score of single points.

  c: (..., ncont) float, z: (..., ncat) int — real dimensions only.
  Returns (value, ambiguous, on_needle_boundary) where `ambiguous` marks
  plateau values within tolerance of a quantisation boundary and
  `on_needle_boundary` points whose distance to the needle centre is within
  rounding of its radius (either value may come out of the jitted function).
  """
  g = env.g
  n, nk = g['ncont'], len(g['cats'])
  P = {k: np.asarray(v, dtype=np.float64) for k, v in p.items()}
  c = np.asarray(c, dtype=np.float64)
  if float(P.get('usec', 1.0)) < 0.5:
    c = np.zeros_like(c)          # the score ignores the continuous features
  z = np.asarray(z)
  s = (-np.sum(P['wq'][:n] * (c - P['cq'][:n]) ** 2, axis=-1)
       + np.sum(P['wl'][:n] * c, axis=-1))
  bad = np.zeros(s.shape, dtype=bool)
  for k in range(nk):
    zk = np.clip(z[..., k], 0, env.maxcat - 1)
    s = s + P['T'][k][zk]
    bad |= P['Tbad'][k][zk] > 0.5
  s = s + P['A'] * (n + nk)
  if n:
    bad |= np.sum(c * P['e0'][:n], axis=-1) > P['thr']
  tol = score_tol(env, p)
  amb = np.zeros(s.shape, dtype=bool)
  step = float(P['step'])
  if step > 0:
    q = np.floor(s / step) * step
    amb = (np.floor((s - 4 * tol) / step) != np.floor((s + 4 * tol) / step))
    s = q
  samb = np.zeros(s.shape, dtype=bool)
  sr2 = float(P['sr2'])
  if sr2 > 0:
    d2 = np.sum((c - P['sc'][:n]) ** 2, axis=-1) if n else np.zeros(s.shape)
    hit = np.ones(s.shape, dtype=bool)
    for k in range(nk):
      zk = np.clip(z[..., k], 0, env.maxcat - 1)
      hit &= P['Ts'][k][zk] > 0.5
    with np.errstate(invalid='ignore'):
      samb = hit & (np.abs(d2 - sr2) <= (1e-14 if g['x64'] else 1e-8)) & ~bad
      s = np.where(hit & (d2 < sr2), float(P['sv']), s)
  with np.errstate(invalid='ignore'):
    s = np.where(bad, float(P['badval']), s)
  amb = amb & ~bad
  return s, amb, samb


def score_tol(env, p):
  P = {k: np.abs(np.asarray(v, dtype=np.float64)) for k, v in p.items()}
  n, nk = env.g['ncont'], len(env.g['cats'])
  mag = float(np.sum(P['wq'][:n]) + np.sum(P['wl'][:n]))
  if nk:
    mag += float(np.sum(np.max(P['T'][:nk], axis=-1)))
  mag = mag + float(P['A']) * (n + nk) + 1e-30
  rel = 1e-11 if env.g['x64'] else 5e-5
  return rel * mag * max(1, env.g['n_parallel'] or 1)


def optimum(env, p, nrng):
  """A maximiser of the unquantised score over the box (ignores bad region)."""
  g = env.g
  n = g['ncont']
  wq = p['wq'][:n].astype(np.float64); cq = p['cq'][:n].astype(np.float64)
  wl = p['wl'][:n].astype(np.float64)
  with np.errstate(divide='ignore', invalid='ignore'):
    c = np.where(wq > 0, cq + wl / (2 * np.where(wq > 0, wq, 1.0)),
                 np.where(wl > 0, 1.0, np.where(wl < 0, 0.0, 0.5)))
  c = np.clip(c, 0.0, 1.0)
  z = np.array([int(np.argmax(p['T'][k][:size]))
                for k, size in enumerate(g['cats'])], dtype=np.int32)
  if float(p['sr2']) > 0:
    # the needle
    c = p['sc'][:n].astype(np.float64)
    z = np.array([int(np.argmax(p['Ts'][k][:size]))
                  for k, size in enumerate(g['cats'])], dtype=np.int32)
  return c, z


def gen_priors(env, p, prior_class, nrng, k=0):
  g = env.g
  m = env.n_prior
  if not m:
    return None, None, None, None
  n, nk = g['ncont'], len(g['cats'])
  c = nrng.uniform(0.0, 1.0, size=(m, n))
  z = np.stack([nrng.integers(0, size, size=m) for size in g['cats']],
               axis=-1).astype(np.int32) if nk else np.zeros((m, 0), np.int32)
  if prior_class == 'corners':
    c = np.round(c)
  if prior_class == 'dups':
    c[:] = c[0]
    z[:] = z[0]
  if prior_class.startswith('opt'):
    oc, oz = optimum(env, p, nrng)
    # opt-edge: around the boundary between the most recent priors that are
    # taken into the pool directly and the older ones that are merged in, and
    # next to the two ends (which one: the case number k)
    left = (env.pool_left or eagle_pool_size(n + nk, g['batch'])) * max(
        1, g['n_parallel'])
    edge = [1, m - 2, m - left + 1, m - left - 1, m - left]
    pos = {'opt-first': 0, 'opt-last': m - 1, 'opt-mid': m // 2,
           'opt-edge': min(m - 1, max(0, edge[k % len(edge)])),
           'opt-rand': int(nrng.integers(m))}[prior_class]
    c[pos] = oc
    z[pos] = oz
  if prior_class == 'outside' and n:
    # completed trials whose values lie outside the current bounds: scaled
    # coordinates beyond the unit cube (the converter does not validate them).
    # They leave the cube in the direction the linear term rewards, so that an
    # unprojected copy would out-score every legitimate candidate.
    rows = sorted({0, m - 1, int(nrng.integers(m)), int(nrng.integers(m))}
                  | {int(i) for i in nrng.integers(0, m, size=m // 4)})
    wl = np.asarray(p['wl'][:n], dtype=np.float64)
    for r in rows:
      direction = np.where(wl != 0, np.sign(wl), nrng.choice([-1.0, 1.0], size=n))
      depth = nrng.uniform(0.05, 0.6, size=n)
      out = np.where(direction > 0, 1.0 + depth, -depth)
      leave = nrng.random(n) < 0.7
      leave[int(nrng.integers(n))] = True
      c[r] = np.where(leave, out, c[r])
  # the features exactly as the optimiser will see them (float32 without x64)
  c = c.astype(env.fdtype).astype(np.float64)
  prior = env.types.ModelInput(
      continuous=env.sched.pad_features(c),
      categorical=env.sched.pad_features(z))
  # the oracle's reference point is the prior projected into the unit cube: a
  # point outside the cube is not a legitimate candidate (the raw coordinates
  # are returned as well: the optimiser ranks the priors by their raw scores)
  return prior, np.clip(c, 0.0, 1.0), z, c


def group_scores(env, p, c, z):
  """Score of rows grouped into parallel sets. c: (N, P, n), z: (N, P, k)."""
  s, amb, samb = np_score_points(env, p, c, z)       # (N, P)
  if env.g['n_parallel']:
    with np.errstate(invalid='ignore'):
      return np.sum(s, axis=-1), np.sum(amb, axis=-1), np.any(samb, axis=-1)
  return s[:, 0], amb[:, 0].astype(int), samb[:, 0]


# ---------------------------------------------------------------------------
# the monitors
# ---------------------------------------------------------------------------
class Reporter:
  """Caps repeated reports of one mechanism per shard."""

  def __init__(self, ctx):
    self.ctx = ctx
    self.seen = {}

  def violation(self, mech, what, case, witness=None):
    k = self.seen.get(mech, 0)
    self.seen[mech] = k + 1
    if k >= MAX_REPORTS_PER_MECH:
      self.ctx.count('repeat_reports_suppressed')
      return
    self.ctx.violation(mech, what, case, witness)


def strategy_family(g):
  return 'random' if g['strategy'] == 'random' else 'eagle'


def bits(a):
  a = np.ascontiguousarray(a)
  return a.tobytes()


def rank_key(r):
  """Sort key realising the optimiser's order: finite desc, -inf, NaN last."""
  r = np.asarray(r, dtype=np.float64)
  return np.where(np.isnan(r), np.inf, -r)


def check_result(rep, env, case, p, prior_c, prior_z, res, log, prior_raw=None):
  """All monitors on one optimiser call. Returns dict of facts for the caller."""
  ctx = rep.ctx
  g = env.g
  fam = strategy_family(g)
  strat = g['strategy']
  n, nk = g['ncont'], len(g['cats'])
  ncp, nkp = env.ncp, env.nkp
  P = g['n_parallel'] or 1
  count = g['count']
  fc = np.asarray(res.features.continuous)
  fz = np.asarray(res.features.categorical)
  rw = np.asarray(res.rewards)
  facts = {'fc': fc, 'fz': fz, 'rw': rw}
  padded = (ncp > n) or (nkp > nk)
  padtag = ':padded-features' if padded else ''

  # -- 1. exactly `count` candidates of the declared layout --------------------
  ctx.count('count_checked')
  if (fc.shape != (count, P, ncp) or fz.shape != (count, P, nkp)
      or rw.shape != (count,)):
    rep.violation(f'wrong-result-shape:{fam}{padtag}',
                  f'{strat}: result shapes {fc.shape}/{fz.shape}/{rw.shape} for '
                  f'count={count} n_parallel={P} padded dims=({ncp},{nkp})', case)
    return facts
  # -- evaluation log ----------------------------------------------------------
  has_prior = prior_c is not None
  loop = [e for e in log if not (has_prior and e[0] == 0)]
  pri = [e for e in log if has_prior and e[0] == 0]

  def norm(a, width):
    a = np.asarray(a)
    return a.reshape(a.shape[0], P, width)
  if loop:
    ev_c = np.concatenate([norm(e[1], ncp) for e in loop], axis=0)
    ev_z = np.concatenate([norm(e[2], nkp) for e in loop], axis=0)
    ev_r = np.concatenate([np.asarray(e[5]).reshape(-1) for e in loop], axis=0)
  else:
    # not a single suggest-evaluate round reached the score function
    ctx.count('runs_without_any_loop_evaluation')
    ev_c = np.zeros((0, P, ncp), dtype=fc.dtype)
    ev_z = np.zeros((0, P, nkp), dtype=fz.dtype)
    ev_r = np.zeros((0,), dtype=rw.dtype)
  ctx.count('evaluations_observed', int(ev_r.size))
  expected_evals = ((g['max_evals'] - 1) // g['batch'] + 1) * g['batch']
  if ev_r.size != expected_evals:
    ctx.count('evaluation_count_differs_from_budget')
  if ev_r.size < g['max_evals']:
    ctx.count('runs_that_evaluated_less_than_max_evaluations')
  n_ranked = int(np.sum(np.isfinite(ev_r)))
  # slots may stay unfilled only once the evaluation budget (>= count) is used
  placeholders_legit = n_ranked < count and ev_r.size >= g['max_evals']
  if placeholders_legit:
    ctx.count('cases_with_fewer_finite_evaluations_than_count')
  with np.errstate(invalid='ignore'):
    if np.isnan(ev_c).any():
      ctx.count('nan_features_evaluated')
    if ((ev_c[..., :n] < 0) | (ev_c[..., :n] > 1)).any():
      ctx.count('out_of_cube_features_evaluated')

  # root cause flag: NaN rewards ranked above every number (see monitor 7).
  # Rows it brings into the result are reported once, under that mechanism.
  # (a NaN is in the result although a candidate with a finite score was left out)
  n_not_nan = int(np.sum(~np.isnan(ev_r)))
  nan_ranked_best = bool(np.isnan(rw).any()) and (
      int(np.sum(np.isfinite(rw))) < min(count, n_ranked))
  facts['nan_ranked_best'] = nan_ranked_best
  # rows on which nothing but the layout is demanded
  unspecified = np.zeros(count, dtype=bool)
  if placeholders_legit:
    unspecified |= ~np.isfinite(rw)
  if nan_ranked_best:
    unspecified |= np.isnan(rw)
  checked = ~unspecified

  # -- 2. masks handed to the score function -----------------------------------
  exp_cm = np.arange(ncp) >= n
  exp_zm = np.arange(nkp) >= nk
  ctx.count('mask_checked')
  if padded:
    ctx.count('mask_checked_with_padding')
  leak_c = bool(ncp > n and not np.all(fc[..., n:] == 0))
  leak_z = bool(nkp > nk and not np.all(fz[..., nk:] == 0))
  mask_ok = True
  for e in log:
    if not (np.array_equal(e[3], exp_cm) and np.array_equal(e[4], exp_zm)):
      mask_ok = False
      all_real = not e[3].any() and not e[4].any()
      rep.violation(
          f'padding-treated-as-feature:{fam}' + ('' if all_real else ':partial'),
          f'{strat}: the score function was told that padded dimensions are real '
          f'features (continuous missing={e[3].tolist()}, expected '
          f'{exp_cm.tolist()}; categorical missing={e[4].tolist()}, expected '
          f'{exp_zm.tolist()}); returned padded dimensions non-zero: continuous='
          f'{leak_c} categorical={leak_z}', case,
          {'features_continuous': fc[:2], 'features_categorical': fz[:2]})
      break

  # -- 3. padded dimensions of the result are the fill -------------------------
  leak = leak_c or leak_z
  if padded:
    ctx.count('padding_zero_checked')
    # with a wrong mask the leak is the same anomaly (reported above)
    if leak_c and mask_ok:
      rep.violation(f'padding-leak:{fam}:continuous',
                    f'{strat}: padded continuous dimensions of the returned '
                    'features are not the fill value 0', case,
                    {'features_continuous': fc[:3]})
    if leak_z and mask_ok:
      rep.violation(f'padding-leak:{fam}:categorical',
                    f'{strat}: padded categorical dimensions of the returned '
                    'features are not the fill value 0', case,
                    {'features_categorical': fz[:3]})

  # which rows are the optimiser's own -inf placeholders?
  is_placeholder = (np.isneginf(rw) & np.all(fc == 0, axis=(1, 2))
                    & np.all(fz == 0, axis=(1, 2))) if placeholders_legit else (
                        np.zeros(count, dtype=bool))
  if is_placeholder.any():
    ctx.count('placeholder_rows_seen', int(is_placeholder.sum()))

  # priors handed over in a trial-padded array: rows beyond the real priors hold
  # the converter's fill (NaN continuous, -1 categorical) and are not priors
  prior_rows_padded = has_prior and (
      padded_dim(prior_c.shape[0], g['padt']) > prior_c.shape[0])
  fill_tag = ''
  if prior_rows_padded:
    fill_tag = ':prior-trial-padding-fill' + (
        ':partial-parallel-set' if prior_c.shape[0] % P else '')
  # -- 4. continuous features in the unit cube ----------------------------------
  bounds_ok = True
  if n:
    ctx.count('cont_in_unit_checked')
    real = fc[..., :n]
    with np.errstate(invalid='ignore'):
      inside = (real >= 0.0) & (real <= 1.0)
    if not inside[checked].all():
      bounds_ok = False
      off = real[checked][~inside[checked]]
      kind = 'nan' if np.isnan(off).any() else (
          'above-1' if (off > 1).any() else 'below-0')
      if np.isnan(off).all():
        kind += fill_tag
      rep.violation(f'continuous-out-of-unit-cube:{strat}:{kind}',
                    f'{strat}: a returned continuous feature is outside [0,1] '
                    f'({kind})', case,
                    {'offending': off[:5], 'rewards': rw[:5]})
    elif not inside.all():
      ctx.count('out_of_cube_only_in_unspecified_rows')
  else:
    ctx.count('zero_continuous_layouts')
  # -- 5. categorical features are valid indices --------------------------------
  if nk:
    ctx.count('cat_in_range_checked')
    if not np.issubdtype(fz.dtype, np.integer):
      bounds_ok = False
      rep.violation(f'categorical-not-integer:{strat}',
                    f'{strat}: categorical features have dtype {fz.dtype}', case)
    else:
      sizes = np.asarray(g['cats'])
      real = fz[..., :nk]
      ok = (real >= 0) & (real < sizes)
      if not ok.all():
        bounds_ok = False
        # -1 is the fill of trial-padding rows of the prior array
        tag = fill_tag if (real[~ok] == -1).all() else ''
        rep.violation(f'categorical-out-of-range:{strat}{tag}',
                      f'{strat}: a returned categorical feature is not in '
                      f'[0, n_categories) (priors: {prior_c.shape[0] if has_prior else 0}'
                      f' rows, n_parallel={P})', case,
                      {'features': real[:5], 'sizes': sizes,
                       'offending_values': real[~ok][:8]})
  else:
    ctx.count('zero_categorical_layouts')

  tol = score_tol(env, p)
  # -- 6. reward == score(features), re-evaluated outside jit -------------------
  if bounds_ok and mask_ok and not leak:
    exp, amb, samb = group_scores(env, p, fc[..., :n], fz[..., :nk])
    step = float(p['step'])
    ctx.count(f'results_reevaluated:{fam}')
    ctx.count('rows_reevaluated', int(count))
    bad_rows = []
    for i in range(count):
      if is_placeholder[i] or not checked[i]:
        continue
      if samb[i]:
        ctx.count('rows_on_needle_boundary_not_rescored')
        continue
      a, b = float(rw[i]), float(exp[i])
      if math.isnan(b) or math.isnan(a):
        same = math.isnan(a) and math.isnan(b)
      elif math.isinf(a) or math.isinf(b):
        same = a == b
      else:
        same = abs(a - b) <= tol + int(amb[i]) * step
      if not same:
        bad_rows.append((i, a, b))
    if bad_rows:
      i, a, b = bad_rows[0]
      shape = ('reported-nonfinite' if not math.isfinite(a) else
               'actual-nonfinite' if not math.isfinite(b) else 'differs')
      rep.violation(
          f'reward-not-score-of-candidate:{fam}:{shape}',
          f'{strat}: reported reward {a!r} but the score function gives {b!r} at '
          f'the returned candidate {i} (tolerance {tol:.3g}; {len(bad_rows)} of '
          f'{count} rows)', case,
          {'row': i, 'reported': repr(a), 'rescored': repr(b),
           'continuous': fc[i], 'categorical': fz[i]})
  # -- 7. the result is the top-`count` of what the loop evaluated --------------
  # (the logged reward and the reward carried by the loop come out of different
  # XLA fusions and may differ by an ulp: compared within the score tolerance)
  ctx.count('topk_checked')
  pool_r = ev_r
  if placeholders_legit:
    pool_r = np.concatenate([ev_r, np.full(count, -np.inf, dtype=ev_r.dtype)])
  if nan_ranked_best:
    rep.violation(
        'nan-reward-returned-as-best',
        f'{strat}: {int(np.isnan(rw).sum())} of the {count} returned rewards are '
        f'NaN and only {int(np.sum(np.isfinite(rw)))} finite although {n_ranked} '
        f'of the {ev_r.size} evaluated candidates have a finite score ('
        f'{n_not_nan} not NaN; best evaluated '
        f'{float(np.nanmax(np.where(np.isnan(ev_r), -np.inf, ev_r)))!r})', case,
        {'returned_rewards': rw[:8], 'continuous': fc[:3], 'categorical': fz[:3],
         'nan_features_among_returned': bool(np.isnan(fc).any())})
  elif pool_r.size >= count:
    # the valid prior rows the optimiser scored before the loop: an optimiser
    # that seeds its best results with them may return them as well
    if pri:
      ngroups = prior_c.shape[0] // P
      pr_c = norm(pri[0][1], ncp)[:ngroups]
      pr_z = norm(pri[0][2], nkp)[:ngroups]
      pr_r = np.asarray(pri[0][5]).reshape(-1)[:ngroups].astype(ev_r.dtype)
    else:
      pr_c, pr_z = ev_c[:0], ev_z[:0]
      pr_r = ev_r[:0]
    all_r = np.concatenate([pool_r, pr_r])

    def top(r):
      return np.sort(rank_key(r))[:count]
    lower = top(pool_r)         # the best the loop evaluated: at least this good
    upper = top(all_r)          # nothing better was ever evaluated
    got = np.sort(rank_key(rw))
    with np.errstate(invalid='ignore'):
      too_bad = ~((got <= lower) | (np.abs(got - lower) <= tol))
      too_good = ~((got >= upper) | (np.abs(got - upper) <= tol))
    if too_bad.any() or too_good.any():
      worse = bool(too_bad.any())
      j = int(np.argmax(too_bad if worse else too_good))
      ref = lower if worse else upper
      rep.violation(
          f'not-best-evaluated:{fam}:' + ('worse-than-evaluated' if worse
                                          else 'better-than-any-evaluated'),
          f'{strat}: the {count} returned rewards are not the {count} best of the '
          f'{ev_r.size} evaluated ones (rank {j}: returned {-got[j]!r}, '
          f'evaluated {-ref[j]!r}, tolerance {tol:.3g})', case,
          {'returned_sorted': (-got)[:8], 'evaluated_top': (-ref)[:8]})
    else:
      # every returned row must be an evaluated (features, reward) row; the
      # logged copy may come out of another XLA fusion than the returned one,
      # so features are matched within a few ulps and rewards within `tol`
      look_c = np.concatenate([ev_c, pr_c.astype(ev_c.dtype)], axis=0)
      look_z = np.concatenate([ev_z, pr_z.astype(ev_z.dtype)], axis=0)
      look_r = np.concatenate([ev_r, pr_r]).astype(np.float64)
      look_c = look_c.reshape(look_c.shape[0], -1).astype(np.float64)
      look_z = look_z.reshape(look_z.shape[0], -1)
      ftol = 1e-13 if g['x64'] else 1e-6
      missing = None
      for i in range(count):
        if is_placeholder[i]:
          continue
        ci = fc[i].reshape(-1).astype(np.float64)
        zi = fz[i].reshape(-1)
        with np.errstate(invalid='ignore'):
          same_f = (np.all((np.abs(look_c - ci) <= ftol)
                           | (np.isnan(look_c) & np.isnan(ci)), axis=1)
                    & np.all(look_z == zi, axis=1))
          ri = float(rw[i])
          same_r = ((look_r == ri) | (np.abs(look_r - ri) <= tol)
                    | (np.isnan(look_r) & math.isnan(ri)))
        hit = same_f & same_r
        if hit[ev_r.size:].any() and not hit[:ev_r.size].any():
          ctx.count('returned_rows_that_are_priors')
        if not hit.any():
          missing = (i, int(same_f.sum()), look_r[same_f][:5])
          break
      ctx.count('rows_looked_up_in_log', int(count))
      if missing is not None:
        i, ncand, logged = missing
        rep.violation(
            f'returned-row-never-evaluated:{fam}:'
            + ('features-unknown' if not ncand else 'reward-of-other-row'),
            f'{strat}: returned candidate {i} (reward {rw[i]!r}) was not '
            'evaluated with these features and this reward during the run', case,
            {'continuous': fc[i], 'categorical': fz[i],
             'rewards_logged_for_these_features': logged})
  else:
    # count <= max_evaluations, yet fewer than `count` candidates were scored:
    # some returned rows cannot carry the score of an evaluated candidate
    ctx.count('fewer_evaluations_than_count')
    rep.violation(
        f'returned-row-never-evaluated:{fam}:budget-not-used',
        f'{strat}: {count} candidates returned but only {ev_r.size} were '
        f'evaluated although max_evaluations={g["max_evals"]} >= count (batch '
        f'size {g["batch"]})', case,
        {'returned_rewards': rw[:8], 'continuous': fc[:3], 'categorical': fz[:3]})
  # -- 8. never worse than the best prior ---------------------------------------
  if has_prior:
    groups = prior_c.shape[0] // P
    pc = prior_c[:groups * P].reshape(groups, P, n)
    pz = prior_z[:groups * P].reshape(groups, P, nk)
    ps, pamb, psamb = group_scores(env, p, pc, pz)
    ps = np.asarray(ps, dtype=np.float64)
    usable = np.isfinite(ps) & ~psamb
    ps_projected, rs_raw, outside_rows = ps.copy(), None, None
    if prior_raw is not None and not np.array_equal(prior_raw, prior_c):
      # a prior outside the cube is ranked by the optimiser with the score of
      # its raw coordinates; when that is below the score of its projection the
      # optimiser may rightly prefer other priors to it (more priors than pool
      # slots): the reference is the lower of the two scores
      pr = prior_raw[:groups * P].reshape(groups, P, n)
      rs, ramb, rsamb = group_scores(env, p, pr, pz)
      rs = np.asarray(rs, dtype=np.float64)
      rs_raw = rs
      outside_rows = np.any(pr != pc, axis=(1, 2))
      usable &= np.isfinite(rs) & ~rsamb
      with np.errstate(invalid='ignore'):
        lower = rs < ps
      if (lower & usable).any():
        ctx.count('outside_prior_raw_score_below_projected_score')
      ps = np.where(lower, rs, ps)
      pamb = np.where(lower, ramb, pamb)
    ctx.count(f'prior_checked:{fam}')
    if usable.any():
      ctx.count('prior_checked_with_finite_prior')
      k = int(np.argmax(np.where(usable, ps, -np.inf)))
      best_prior = float(ps[k])
      with np.errstate(invalid='ignore'):
        best = float(np.nanmax(np.where(np.isnan(rw), -np.inf, rw)))
      slack = tol + int(pamb[k]) * float(p['step'])
      if best < best_prior - slack and nan_ranked_best:
        # consequence of the NaN ranking reported by monitor 7
        ctx.count('worse_than_prior_because_nan_ranked_best')
      elif best < best_prior - slack:
        if fam == 'random':
          cond = ''
        elif env.pool and expected_evals < env.pool:
          # even the rounded-up number of rounds ends before the pool is swept
          cond = ':evaluations-fewer-than-pool'
        elif ev_r.size < expected_evals:
          cond = ':fewer-rounds-than-budget'
        elif np.isnan(ps).any():
          # eagle keeps a NaN-scored prior in its pool instead of a better one
          cond = ':nan-scored-prior'
        else:
          cond = ':full-budget'
        if fam == 'eagle' and cond in (':nan-scored-prior', ':full-budget'):
          # the shape of the prior set / pool under which the prior was lost
          rows = padded_dim(prior_c.shape[0], g['padt'])
          if env.pool % g['batch']:
            cond += ':pool-not-multiple-of-batch'
          elif groups > env.pool_left:
            cond += ':more-priors-than-pool-slots'
          elif rows // P > env.pool_left:
            cond += ':padded-prior-rows-exceed-pool-slots'
          elif rows > prior_c.shape[0]:
            cond += ':padded-prior-rows'
          cond += ':best-prior-' + ('oldest' if k == 0 else 'newest'
                                    if k == groups - 1 else 'inner')
          if rs_raw is not None and ':more-priors-than-pool-slots' in cond:
            # an out-of-cube prior that the optimiser ranks (by the score of its raw
            # coordinates) above the lost prior, although its projection into the cube -
            # the only thing that can be returned - scores below it
            with np.errstate(invalid='ignore'):
              displacing = outside_rows & np.isfinite(rs_raw) & (rs_raw > best_prior) & (ps_projected < best_prior)
            if displacing.any():
              cond = ':displaced-by-out-of-cube-prior-ranked-by-raw-score'
        rep.violation(
            f'worse-than-prior:{fam}{cond}',
            f'{strat}: best returned reward {best!r} < score {best_prior!r} of '
            f'prior point {k} it was seeded with (max_evaluations='
            f'{g["max_evals"]}, batch={g["batch"]}, pool={env.pool}, priors='
            f'{groups} in {padded_dim(prior_c.shape[0], g["padt"]) // P} rows)',
            case,
            {'best_returned': best, 'best_prior': best_prior, 'prior_index': k,
             'prior_continuous': pc[k], 'prior_categorical': pz[k]})
      if pri:
        # cross-check: the optimiser evaluated the priors it was given
        ctx.count('prior_evaluations_observed')
  facts['ev_n'] = int(ev_r.size)
  return facts


def same_result(a, b):
  return (bits(a['fc']) == bits(b['fc']) and bits(a['fz']) == bits(b['fz'])
          and bits(a['rw']) == bits(b['rw'])
          and a['fc'].shape == b['fc'].shape)


# ---------------------------------------------------------------------------
# driving one case / one group
# ---------------------------------------------------------------------------
def refusal_mech(g, e):
  """raised:<strategy family>:<exception>:<message signature>:<layout condition>."""
  fam = strategy_family(g)
  words = re.findall(r'[A-Za-z_]{3,}', str(e))[:4]
  sig = '-'.join(w.lower() for w in words) or 'no-message'
  if padded_dim(len(g['cats']), g['padf']) > len(g['cats']):
    cond = 'padded-categorical'
  elif padded_dim(g['ncont'], g['padf']) > g['ncont']:
    cond = 'padded-continuous'
  elif g['n_parallel']:
    cond = 'parallel'
  elif not g['cats']:
    cond = 'no-categorical'
  elif not g['ncont']:
    cond = 'no-continuous'
  else:
    cond = 'plain'
  return f'raised:{fam}:{type(e).__name__}:{sig}:{cond}'


def run_case(rep, env, case, repeat_check=False):
  """Runs one case, returns facts (or None if the optimiser raised)."""
  ctx = rep.ctx
  g = env.g
  nrng = np.random.default_rng(case['pseed'])
  p = gen_params(env, case['fn'], nrng)
  prior, prior_c, prior_z, prior_raw = gen_priors(env, p, case['prior'], nrng,
                                                  case.get('k', 0))
  try:
    res, log = env.run(p, case['seed'], prior)
  except Exception as e:  # pylint: disable=broad-except
    ctx.case(group_shape(g) + [case['fn'], case['prior']], True)
    rep.violation(refusal_mech(g, e),
                  f'{g["strategy"]}: optimiser raised {type(e).__name__}: '
                  f'{str(e)[:300]}', case)
    return None
  ctx.case(group_shape(g) + [case['fn'], case['prior']], case['fn'] != 'const')
  ctx.count('optimizer_calls')
  facts = check_result(rep, env, case, p, prior_c, prior_z, res, log,
                       prior_raw)
  # classes seen
  total = ((g['max_evals'] - 1) // g['batch'] + 1) * g['batch']
  if g['count'] > g['batch']:
    ctx.count('count_gt_batch_cases')
  if g['count'] == 1:
    ctx.count('count_eq_1_cases')
  if g['count'] == total:
    ctx.count('count_eq_all_evaluations_cases')
  if case['fn'] in ('nanreg', 'infreg'):
    ctx.count('nonfinite_region_cases')
  if g['max_evals'] < g['batch']:
    ctx.count('budget_below_batch_cases')
  if g['max_evals'] % g['batch']:
    ctx.count('budget_not_multiple_of_batch_cases')
  if env.pool and g['max_evals'] < env.pool <= total and g['n_prior']:
    ctx.count('budget_short_of_pool_with_priors_cases')
  if case['prior'] == 'outside' and g['ncont'] and g['n_prior']:
    ctx.count('outside_cube_prior_cases:' + strategy_family(g))
  fam = strategy_family(g)
  if case['fn'] == 'spike':
    ctx.count('needle_cases')
    if env.n_prior and case['prior'].startswith('opt'):
      ctx.count('needle_on_planted_prior_cases:' + fam)
  if env.pool and env.n_prior:
    par = max(1, g['n_parallel'])
    valid = env.n_prior // par
    rows = padded_dim(env.n_prior, g['padt']) // par
    if g.get('near_pool'):
      ctx.count('priors_near_pool_slots_cases')
    if valid <= env.pool_left < rows:
      ctx.count('padded_prior_rows_exceed_pool_slots_cases')
    if valid > env.pool_left:
      ctx.count('more_priors_than_pool_slots_cases')
  if env.pool:
    exponent = UCBPE_EXPONENT if g['strategy'] == 'eagle-ucbpe' else 1.2
    ceiling = g.get('max_pool') or 100
    if raw_pool_size(g['ncont'] + len(g['cats']), exponent) >= ceiling:
      ctx.count('pool_ceiling_reached_cases')
      if ceiling % g['batch']:
        ctx.count('pool_ceiling_reached_batch_not_divisor_cases')
        if env.n_prior:
          ctx.count('pool_ceiling_reached_batch_not_divisor_with_priors_cases')
    if 100 % g['batch']:
      ctx.count('batch_not_divisor_of_100_cases')
  if case['fn'] in ('plateau', 'const', 'cat'):
    ctx.count('plateau_cases')
  if g['n_parallel']:
    ctx.count('parallel_cases')
  par = g['n_parallel'] or 1
  if par >= 2 and env.n_prior:
    rows = padded_dim(env.n_prior, g['padt'])
    if rows > env.n_prior:
      if env.n_prior % par and rows // par > env.n_prior // par:
        # a trailing partial set next to trial-padding rows that would complete it
        ctx.count('parallel_partial_prior_set_trial_padded_cases:' + fam)
        if case['fn'] == 'catneg':
          ctx.count('partial_prior_set_fill_scores_best_cases:' + fam)
      elif env.n_prior % par == 0:
        ctx.count('parallel_exact_prior_sets_trial_padded_cases')
        if case['fn'] == 'spike' and case['prior'] == 'opt-last':
          ctx.count('parallel_needle_in_last_complete_prior_set_cases')
  if case['fn'] == 'catneg' and env.n_prior and (
      padded_dim(env.n_prior, g['padt']) > env.n_prior):
    ctx.count('trial_padding_fill_scores_best_cases')
  if not g['use_fori']:
    ctx.count('python_loop_cases')
  if g['x64']:
    ctx.count('float64_cases')
  if repeat_check and 'rw' in facts:
    res2, _ = env.run(p, case['seed'], prior)
    f2 = {'fc': np.asarray(res2.features.continuous),
          'fz': np.asarray(res2.features.categorical),
          'rw': np.asarray(res2.rewards)}
    ctx.count('determinism_checked')
    if g['mode'] == 'eager':
      ctx.count('determinism_checked_retraced')
    if not same_result(facts, f2):
      rep.violation(
          f'same-seed-different-result:{strategy_family(g)}:{g["mode"]}',
          f'{g["strategy"]}: two calls with the same seed, score function and '
          'priors returned different results', case,
          {'first_rewards': facts['rw'][:5], 'second_rewards': f2['rw'][:5]})
  return facts


def run_group(rep, gi, g, n_cases):
  ctx = rep.ctx
  try:
    env = build_env(g)
  except Exception as e:  # pylint: disable=broad-except
    case = {'group': g, 'gi': gi, 'build_only': True}
    rep.violation(refusal_mech(g, e).replace('raised:', 'factory-raised:'),
                  f'{g["strategy"]}: building the optimiser raised '
                  f'{type(e).__name__}: {str(e)[:300]}', case)
    return
  ctx.count('groups')
  ctx.count(f'groups:{g["strategy"]}')
  if ctx.counters['groups'] % 8 == 0:
    env.jax.clear_caches()
  if g['mode'] == 'eager':
    n_cases = min(n_cases, 2)
  rng = ctx.rng(gi, 'cases')
  off = rng.randrange(1000)
  seed_pairs = []
  failed = 0
  for j in range(n_cases):
    if ctx.out_of_time():
      ctx.note('time budget reached inside a group')
      break
    nf, npc = len(FN_CLASSES), len(PRIOR_CLASSES)
    fn = FN_CLASSES[(off + j) % nf]
    if j == 0 and g['ncont']:
      fn = 'quad'
    # every (score class, prior class) pair comes up: the prior class advances
    # by a step coprime with the number of prior classes per round of the
    # score classes
    step = next(k for k in range(1, npc + 1) if math.gcd(nf + k, npc) == 1)
    prior_class = PRIOR_CLASSES[(off // 7 + j + (j // nf) * step) % npc]
    if g['n_prior'] and 1 <= j <= len(LEAD_CASES):
      fn, prior_class = LEAD_CASES[j - 1]
    if g.get('sched') == 'parallel-priors':
      # groups whose priors are complete sets start with the needle planted on
      # the newest prior (a member of the last complete set)
      exact = g['n_prior'] % g['n_parallel'] == 0
      fn, prior_class = PAR_CASES[(j + int(exact)) % len(PAR_CASES)]
    elif g['n_parallel'] and fn == 'cat' and g['cats'] and j % 2:
      fn = 'catneg'
    case = {'group': g, 'gi': gi, 'fn': fn, 'prior': prior_class, 'k': j,
            'pseed': rng.getrandbits(32), 'seed': rng.getrandbits(30)}
    facts = run_case(rep, env, case, repeat_check=(j % 4 == 0))
    if facts is None:
      failed += 1
      if failed >= 2:
        break
      continue
    if gi < 3 * ctx.nshards and j == 0:
      ctx.sample({'group': g, 'fn': fn, 'prior': prior_class,
                  'rewards': facts.get('rw', np.zeros(0))[:4],
                  'evaluations': facts.get('ev_n')})
    # seed sensitivity on strictly concave scores over a continuous feature
    # (with priors the result may legitimately not depend on the seed: a pool
    # filled from priors alone, or a prior that is the best point of the run)
    if (fn == 'quad' and g['ncont'] and 'rw' in facts and len(seed_pairs) < 3
        and g['n_prior'] == 0):
      case2 = dict(case, seed=case['seed'] + 1)
      nrng = np.random.default_rng(case2['pseed'])
      p = gen_params(env, fn, nrng)
      prior, _, _, _ = gen_priors(env, p, prior_class, nrng, j)
      try:
        res2, _ = env.run(p, case2['seed'], prior)
      except Exception:  # pylint: disable=broad-except
        continue
      ctx.count('seed_sensitivity_pairs')
      seed_pairs.append(bits(np.asarray(res2.features.continuous))
                        != bits(facts['fc']))
  if len(seed_pairs) >= 2 and not any(seed_pairs):
    rep.violation(
        f'seed-has-no-effect:{strategy_family(g)}',
        f'{g["strategy"]}: {len(seed_pairs)} pairs of different seeds returned '
        'bitwise identical candidates on a continuous layout',
        {'group': g, 'gi': gi, 'seed_effect': True,
         'pseed': rng.getrandbits(32), 'seed': 1})


def run_shard(ctx):
  rep = Reporter(ctx)
  n_groups = 400 if ctx.tier == 'quick' else 40000
  n_cases = 60 if ctx.tier == 'quick' else 90
  # parallel acquisition with trial-padded priors: fixed schedule, then random
  n_par = len(PAR_FIRST) if ctx.tier == 'quick' else 96
  for k in range(n_par):
    if not ctx.mine(k):
      continue
    if ctx.elapsed() > 0.3 * ctx.budget_s and k >= len(PAR_FIRST):
      break
    g = gen_par_group(ctx.rng(PAR_GI + k), k, ctx.tier)
    run_group(rep, PAR_GI + k, g, 8 if ctx.tier == 'quick' else 34)
  # groups 0..len(FIRST)-1 are the fixed coverage schedule, the rest is random
  for gi in range(n_groups):
    if not ctx.mine(gi):
      continue
    if ctx.out_of_time():
      ctx.note(f'time budget reached at group {gi}')
      break
    g = gen_group(ctx.rng(gi), gi, ctx.tier)
    run_group(rep, gi, g, n_cases)


def replay(ctx, case):
  rep = Reporter(ctx)
  g = case['group']
  if case.get('build_only'):
    run_group(rep, case['gi'], g, 1)
    return
  if case.get('seed_effect'):
    run_group(rep, case['gi'], g, 60 if ctx.tier == 'quick' else 90)
    return
  env = build_env(g)
  run_case(rep, env, case, repeat_check=True)
