"""C01 — trial lifecycle, illegal calls change nothing, responses equal a model.

Generated RPC programs (online, state-aware) are executed on the real
VizierServicer (RAM and in-memory SQLite) and compared after every call with
the sequential reference model (outcome class, response, complete stored
state); a datastore write monitor asserts the lifecycle invariants on every
stored write; a failing call must leave the stored data bit-for-bit unchanged.
"""
import json

PROPERTY = 'C01'
LEVEL = 'exploration'
RULE = ('programs of 8..40 RPCs generated online against the reference model (ids biased 85/15 '
        'existing/missing, 2% malformed names; all 16 RPC kinds + GetOperation; study states; '
        'feasible/infeasible/measurement-less completion; stub and real algorithms). A program is '
        'non-trivial when it reached >=1 completed trial and >=1 call that the model rejects; '
        'distinct = hash of the multiset of (RPC, pre-state class, outcome class) triples.')
ASSUMPTIONS = [
    'ServiceModel (vv/model.py, DESIGN.md Appendix A) transcribes the documented API; where the '
    'documentation leaves a choice the model follows the observed choice inside the allowed set',
    'timestamps are compared by presence only; the early-stopping boolean is masked',
    'ListTrials is compared as an id-sorted list',
    'in-process servicer (context=None); over-the-wire behaviour is C08',
]
REQUIRED_COUNTERS = ['lifecycle_tails_run', 'calls_checked', 'illegal_calls_checked', 'completed_trial_rewrites_checked',
                     'datastore_writes_checked', 'failed_calls_state_compared', 'snapshots_compared']
MIN_DISTINCT = {'quick': 150, 'thorough': 3000}
BACKENDS = ['ram', 'sqlmem']


def plan(tier, seed):
  return {'shards': 12 if tier == 'quick' else 16, 'budget_s': 70 if tier == 'quick' else 1000}


def classify(d, call):
  """Abstract mechanism id of a discrepancy."""
  kind = d['kind']
  what = d['what']
  op = d['op']
  if kind == 'model' and 'outcome CRASH' in what:
    exc = what.split('(')[1].split(':')[0] if '(' in what else '?'
    return f'crash:{op}:{exc}'
  if kind == 'model' and what.startswith('outcome'):
    return f'wrong-outcome:{op}:{d["outcome"]}:pre={d["pre"].split("/")[-1]}'
  if kind == 'model':
    return f'response-mismatch:{op}'
  if kind == 'failed-call-changed-state':
    return f'failed-call-changed-state:{op}:{d["outcome"]}'
  if kind == 'state':
    return f'state-mismatch:{op}'
  return f'{kind}:{op}'


def run_program(ctx, index, backend, calls=None, weights=None, profile=None, prop_classify=None):
  from vv import rpcprog
  rng = ctx.rng(index, backend)
  # half of the programs keep the service's default early-stopping recycle period
  # (a recent decision is answered from the stored operation), half recompute always
  runner = rpcprog.ProgramRunner(backend, early_stop_recycle_s=[0.0, 60.0][index % 2])
  n = rng.choice([8, 12, 20, 30, 40]) if calls is None else len(calls)
  executed = []
  for k in range(n):
    call = calls[k] if calls is not None else rpcprog.gen_call(rng, runner.model, weights, profile)
    executed.append(call)
    disc = runner.step(call)
    for d in disc:
      mech = (prop_classify or classify)(d, call)
      ctx.violation(mech, f'{d["kind"]} at step {d["step"]} ({d["op"]}, pre={d["pre"]}, outcome={d["outcome"]}): {d["what"]}'[:600],
                    {'backend': backend, 'calls': executed[:], 'index': index}, d)
    if disc:
      break
  else:
    if calls is None and index % 3 == 1:
      # scripted continuation against the state reached: one trial through the rest of its life
      tail = rpcprog.lifecycle_tail(rng, runner.model)
      if tail:
        ctx.count('lifecycle_tails_run')
      for call in tail:
        executed.append(call)
        disc = runner.step(call)
        for d in disc:
          mech = (prop_classify or classify)(d, call)
          ctx.violation(mech, f'{d["kind"]} at step {d["step"]} ({d["op"]}, pre={d["pre"]}, outcome={d["outcome"]}): {d["what"]}'[:600],
                        {'backend': backend, 'calls': executed[:], 'index': index}, d)
        if disc:
          break
  return runner, executed


def account(ctx, runner, executed, backend):
  cov = runner.coverage
  illegal = sum(1 for (_, _, o) in cov if o != 'OK')
  ctx.count('calls_checked', len(cov))
  ctx.count('illegal_calls_checked', illegal)
  ctx.count('failed_calls_state_compared', illegal)
  ctx.count('snapshots_compared', len(cov))
  mon = runner.monitor
  ctx.count('datastore_writes_checked', mon.writes)
  ctx.count('completed_trial_rewrites_checked', mon.completed_rewrites)
  for k, v in mon.transitions.items():
    ctx.counters.setdefault('transitions_seen', {})
    ctx.counters['transitions_seen'][k] = ctx.counters['transitions_seen'].get(k, 0) + v
  cell = ctx.counters.setdefault('cells', {})
  for (op, pre, o) in cov:
    key = f'{op}|{pre}|{o}'
    cell[key] = cell.get(key, 0) + 1
  completed = any(t['state'] in ('SUCCEEDED', 'INFEASIBLE')
                  for st in runner.model.studies.values() for t in st['trials'].values())
  nontrivial = completed and illegal > 0
  ctx.case(sorted(set(map(str, cov))) + [backend], nontrivial)


def run_shard(ctx):
  n_programs = 1400 if ctx.tier == 'quick' else 60000
  for i in range(n_programs):
    if not ctx.mine(i):
      continue
    if ctx.out_of_time():
      ctx.note(f'time budget reached at program {i}')
      break
    backend = BACKENDS[(i // ctx.nshards) % len(BACKENDS)]
    runner, executed = run_program(ctx, i, backend)
    account(ctx, runner, executed, backend)
    if i < ctx.nshards:
      ctx.sample({'backend': backend, 'calls': [
          {k: v for k, v in c.items()} for c in executed[:6]], 'n_calls': len(executed)})


def post_merge(tier, counters, violations, inconclusive):
  cells = counters.get('cells', {})
  counters['distinct_cells_visited'] = len(cells)
  ops = {k.split('|')[0] for k in cells}
  from vv import rpcprog
  missing = [o for o in rpcprog.OPS if o not in ops]
  if missing:
    inconclusive.append(f'RPC kinds never exercised: {missing}')


def replay(ctx, case):
  runner, executed = run_program(ctx, case.get('index', 0), case['backend'], calls=case['calls'])
  account(ctx, runner, executed, case['backend'])
