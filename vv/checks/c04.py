"""C04 — concurrent clients: every interleaving equals a serial order.

For a sequential prefix P and a set S of 2-3 RPCs the harness (a) runs every
permutation of S one at a time on a fresh servicer after P (the serial
outcomes), and (b) runs S as real threads under the controlled scheduler
(vv/sched.py) for every schedule with a bounded number of pre-emptions plus
random schedules. An observed outcome (error class + response of every call,
final stored studies / trials / operations) is accepted iff it equals one of
the serial outcomes up to a bijection of the trial ids created during the run.
Independently: no deadlock, every thread terminates, no stored operation left
unfinished, ids unique, the algorithm's persisted call counter equals the
number of times it ran (lost algorithm-state update), write-monitor invariants.
A second, uncontrolled workload (free-running threads, tiny switch interval)
is judged by invariants / conservation only.
"""
import itertools
import json
import threading

PROPERTY = 'C04'
LEVEL = 'exploration'
RULE = ('(prefix P, concurrent set S) drawn from 8 prefixes (incl. a pool of three queued trials and a paused study being re-activated) x all pairs (and sampled triples) of 12 mutating RPC kinds, plus every multi-step writer paired with each of 4 pure reads (ListTrials, GetTrial, GetStudy, GetOperation; on SQLite the connection then also yields before every statement, commit and rollback), aimed at '
        'the same study / trial / display name; after every schedule three sequential follow-up calls (CreateTrial, SuggestTrials, GetStudy) are compared as well; per (P,S): every schedule with <=2 (quick) / <=3 (thorough) pre-emptions at '
        'datastore-call and service-lock granularity (capped) + random schedules; RAM and in-memory SQLite. A schedule is '
        'non-trivial when a switch happened between the first and last datastore call of some thread; distinct = hash of '
        '(P, S, backend, schedule string).')
ASSUMPTIONS = [
    'yield points: every acquisition of the servicer lock tables and of the datastore\'s own lock (one per datastore '
    'method on the unchanged tree, i.e. entry of every datastore method; a method that released and re-acquired the lock '
    'would be interleaved there)',
    'serial outcomes are computed by running the real servicer sequentially, so the oracle only demands serialisability, '
    'not any particular sequential behaviour (that is C01)',
    'the early-stopping boolean is masked; trial ids created during the run are compared up to a bijection',
    'an escaping bare KeyError is classed NOT_FOUND (it is the base class of the datastore NotFoundError)',
    'the in-memory SQLite half of the matrix runs every handler with a stand-in ServicerContext (abort terminates the '
    'handler, any other escaping exception is StatusCode.UNKNOWN), i.e. with the error classes a remote client sees',
]
REQUIRED_COUNTERS = ['schedules_run', 'schedules_with_switch_inside_rmw', 'serial_orders_computed',
                     'combos_explored', 'stress_operations', 'stress_runs']
MIN_DISTINCT = {'quick': 1500, 'thorough': 30000}

STUDY = 'owners/o/studies/s'


def plan(tier, seed):
  return {'shards': 16, 'budget_s': 110 if tier == 'quick' else 1100}


# ---------------------------------------------------------------------------
# prefixes and the RPC menu
# ---------------------------------------------------------------------------
def T(i):
  return f'{STUDY}/trials/{i}'


CREATE = {'op': 'CreateStudy', 'owner': 'o', 'display': 's', 'algo': 'VVSTUB'}
PREFIXES = {
    'empty': [CREATE],
    'one_active': [CREATE, {'op': 'SuggestTrials', 'study': STUDY, 'count': 1, 'client': 'w1', '_stub_entry': {'delta': 0}}],
    'req_and_active': [CREATE, {'op': 'SuggestTrials', 'study': STUDY, 'count': 1, 'client': 'w1', '_stub_entry': {'delta': 0}},
                       {'op': 'CreateTrial', 'study': STUDY, 'params': {'x': 0.5, 'k': 1, 'c': 'a'}}],
    'one_completed': [CREATE, {'op': 'SuggestTrials', 'study': STUDY, 'count': 1, 'client': 'w1', '_stub_entry': {'delta': 0}},
                      {'op': 'CompleteTrial', 'trial': T(1), 'final': {'metrics': {'obj': 1.0}}}],
    'two_workers': [CREATE, {'op': 'SuggestTrials', 'study': STUDY, 'count': 1, 'client': 'w1', '_stub_entry': {'delta': 0}},
                    {'op': 'SuggestTrials', 'study': STUDY, 'count': 1, 'client': 'w2', '_stub_entry': {'delta': 0}}],
    'no_study': [],
    # a paused study (one ACTIVE trial from before): re-activation racing trial-level calls
    'inactive': [CREATE, {'op': 'SuggestTrials', 'study': STUDY, 'count': 1, 'client': 'w1', '_stub_entry': {'delta': 0}},
                 {'op': 'SetStudyState', 'study': STUDY, 'state': 'INACTIVE'}],
    # a pool of queued (REQUESTED) trials larger than what one suggest call needs
    'pool': [CREATE] + [{'op': 'CreateTrial', 'study': STUDY, 'params': {'x': 0.125 * (i + 1), 'k': i + 1, 'c': 'a'}} for i in range(3)],
}

MENU = {
    'Suggest_w1': {'op': 'SuggestTrials', 'study': STUDY, 'count': 2, 'client': 'w1', '_stub_entry': {'delta': 0}},
    'Suggest_w2': {'op': 'SuggestTrials', 'study': STUDY, 'count': 1, 'client': 'w2', '_stub_entry': {'delta': 0}},
    'CreateTrial': {'op': 'CreateTrial', 'study': STUDY, 'params': {'x': 0.25, 'k': 2, 'c': 'b'}},
    'CreateTrialDone': {'op': 'CreateTrial', 'study': STUDY, 'params': {'x': 0.75, 'k': 3, 'c': 'a'}, 'state': 'SUCCEEDED',
                        'final': {'metrics': {'obj': 2.0}}},
    'Complete1': {'op': 'CompleteTrial', 'trial': T(1), 'final': {'metrics': {'obj': 3.0}}},
    'Complete1b': {'op': 'CompleteTrial', 'trial': T(1), 'final': {'metrics': {'obj': 4.0}}},
    'Measure1': {'op': 'AddTrialMeasurement', 'trial': T(1), 'm': {'metrics': {'obj': 0.5}, 'steps': 1}},
    'Measure1b': {'op': 'AddTrialMeasurement', 'trial': T(1), 'm': {'metrics': {'obj': 0.6}, 'steps': 2}},
    'Stop1': {'op': 'StopTrial', 'trial': T(1)},
    'Delete1': {'op': 'DeleteTrial', 'trial': T(1)},
    'Delete2': {'op': 'DeleteTrial', 'trial': T(2)},
    'Delete3': {'op': 'DeleteTrial', 'trial': T(3)},
    'DeleteStudy': {'op': 'DeleteStudy', 'study': STUDY},
    'MetaStudy': {'op': 'UpdateMetadata', 'study': STUDY, 'delta': [[None, 'u', 'k', 'v1']]},
    'MetaStudy2': {'op': 'UpdateMetadata', 'study': STUDY, 'delta': [[None, 'u', 'k2', 'v2']]},
    'MetaTrial1': {'op': 'UpdateMetadata', 'study': STUDY, 'delta': [[1, 'u', 'k', 'v1']]},
    'MetaTrial2': {'op': 'UpdateMetadata', 'study': STUDY, 'delta': [[2, 'u', 'k', 'v1']]},
    'SetInactive': {'op': 'SetStudyState', 'study': STUDY, 'state': 'INACTIVE'},
    'SetCompleted': {'op': 'SetStudyState', 'study': STUDY, 'state': 'COMPLETED'},
    'SetActive': {'op': 'SetStudyState', 'study': STUDY, 'state': 'ACTIVE'},
    'CreateStudy': dict(CREATE),
    'CreateStudyOther': {'op': 'CreateStudy', 'owner': 'o', 'display': 's2', 'algo': 'VVSTUB'},
    'CreateStudyB': {'op': 'CreateStudy', 'owner': 'o', 'display': 's', 'algo': 'VVSTUB',
                     'metrics': [['obj', 'MINIMIZE']]},
    'EarlyStop1': {'op': 'CheckTrialEarlyStoppingState', 'trial': T(1)},
    # pure reads: their responses are part of the serialisability claim, and a read must
    # never disturb a concurrent write
    'ListTrials': {'op': 'ListTrials', 'study': STUDY},
    'GetTrial1': {'op': 'GetTrial', 'trial': T(1)},
    'GetStudy': {'op': 'GetStudy', 'study': STUDY},
    'GetOp_w1': {'op': 'GetOperation', 'name': 'owners/o/operations/suggestion/s/w1/1'},
}
READS = ('ListTrials', 'GetTrial1', 'GetStudy', 'GetOp_w1')
READ_PARTNERS = ('Suggest_w1', 'Suggest_w2', 'Complete1', 'Measure1', 'Stop1', 'Delete1', 'DeleteStudy', 'MetaStudy',
                 'MetaTrial1', 'CreateTrial', 'SetInactive')


def all_combos():
  """Deterministic list of (prefix name, tuple of menu names)."""
  names = sorted(MENU)
  combos = []
  for p in sorted(PREFIXES):
    if p == 'no_study':
      pool = ['CreateStudy', 'CreateStudyB', 'CreateStudyOther', 'Suggest_w1', 'CreateTrial', 'MetaStudy', 'DeleteStudy']
    elif p == 'empty':
      pool = [n for n in names if not n.endswith('1') and not n.endswith('1b') and n not in ('Delete2', 'Delete3', 'MetaTrial2', 'MetaTrial1', 'EarlyStop1')]
    elif p == 'inactive':
      for other in ('CreateTrial', 'CreateTrialDone', 'Suggest_w1', 'Suggest_w2', 'Complete1', 'Measure1', 'Stop1', 'Delete1',
                    'MetaStudy', 'MetaTrial1', 'EarlyStop1', 'SetCompleted', 'SetInactive', 'DeleteStudy'):
        combos.append((p, ('SetActive', other)))
      continue
    elif p == 'pool':
      pool = ['Suggest_w1', 'Suggest_w2', 'Delete1', 'Delete2', 'Delete3', 'CreateTrial', 'MetaTrial2', 'SetInactive', 'DeleteStudy']
    else:
      pool = [n for n in names if n != 'Delete3']
    pool = [n for n in pool if n not in READS and n != 'SetActive']
    for a, b in itertools.combinations_with_replacement(pool, 2):
      if a == b and a not in ('Suggest_w1', 'CreateTrial', 'CreateStudy', 'MetaStudy', 'Complete1'):
        continue
      combos.append((p, (a, b)))
  for p in ('one_active', 'req_and_active', 'two_workers'):
    for w in READ_PARTNERS:
      for r in READS:
        combos.append((p, (w, r)))
  return combos


OVER = [
    ('empty+over', ('Suggest_w1', 'Suggest_w2')),
    ('empty+over', ('Suggest_w1', 'CreateTrial')),
    ('one_active+over', ('Suggest_w1', 'Suggest_w2')),
    ('one_active+over', ('Suggest_w2', 'Complete1')),
    ('req_and_active+over', ('Suggest_w2', 'Delete2')),
    ('two_workers+over', ('Suggest_w1', 'Suggest_w2')),
]

TRIPLES = [
    ('one_active', ('Suggest_w1', 'CreateTrial', 'Complete1')),
    ('req_and_active', ('Suggest_w1', 'Suggest_w2', 'CreateTrial')),
    ('two_workers', ('Complete1', 'MetaTrial1', 'Measure1')),
    ('one_active', ('MetaStudy', 'SetInactive', 'MetaTrial1')),
    ('req_and_active', ('Suggest_w2', 'Complete1', 'MetaTrial2')),
    ('no_study', ('CreateStudy', 'CreateStudyB', 'CreateStudy')),
    ('empty', ('Suggest_w1', 'Suggest_w2', 'CreateTrialDone')),
    ('one_active', ('Stop1', 'Complete1', 'EarlyStop1')),
]


# ---------------------------------------------------------------------------
# running
# ---------------------------------------------------------------------------
def fresh(backend, pname):
  """Fresh servicer after the sequential prefix. A prefix name ending in '+over'
  makes the harness algorithm deliver one surplus suggestion at every call."""
  from vv import service as S
  ctl = S.Controller()
  mon = S.WriteMonitor()
  sv = S.make_servicer(backend, ctl, mon)
  ctl.stub_studies.add(STUDY)
  ctl.plan.clear()
  ctl.default = {'delta': 1 if pname.endswith('+over') else 0}
  for c in PREFIXES[pname.split('+')[0]]:
    S.call_servicer(sv, c)
  return sv, ctl, mon


def final_state(sv, mon):
  from vv import service as S
  snap = S.snapshot(sv, ['o'])
  ops = []
  inner = sv.datastore._inner
  for client in ('w1', 'w2'):
    try:
      for op in inner.list_suggestion_operations(STUDY, client):
        ops.append(S.abs_operation(op))
    except Exception:  # pylint: disable=broad-except
      pass
  return {'snap': snap, 'ops': sorted(ops, key=lambda o: o['name'])}


FOLLOWUP = [
    {'op': 'CreateTrial', 'study': STUDY, 'params': {'x': 0.9, 'k': 9, 'c': 'b'}},
    {'op': 'SuggestTrials', 'study': STUDY, 'count': 1, 'client': 'w-after', '_stub_entry': {'delta': 0}},
    {'op': 'GetStudy', 'study': STUDY},
]


def followup(sv, backend):
  """Sequential calls made after the concurrent phase (and after the stored state was
  recorded): state that lives only in the server's memory (a cache, a lock table, an
  abandoned operation) shows in what *later* calls do. Summarised without trial ids."""
  from vv import service as S
  out = []
  for call in FOLLOWUP:
    try:
      ocls, oresp, _ = S.call_servicer(sv, call, wire=wire_mode(backend))
    except Exception as e:  # pylint: disable=broad-except
      ocls, oresp = 'HARNESS-EXC:' + type(e).__name__, None
    row = [call['op'], ocls]
    if ocls == 'OK' and call['op'] == 'SuggestTrials':
      row += [bool(oresp.get('done')), bool(oresp.get('error')), len(oresp.get('trials') or [])]
    if ocls == 'OK' and call['op'] == 'GetStudy':
      row += [oresp.get('state')]
    out.append(row)
  return out


def wire_mode(backend):
  """The in-memory SQLite runs execute the handlers with gRPC-handler semantics
  (status codes as a remote client sees them), the RAM runs in-process."""
  return backend == 'sqlmem'


def run_serial(backend, pname, names, order):
  from vv import service as S
  sv, ctl, mon = fresh(backend, pname)
  before_ids = trial_ids(sv)
  outs = {}
  for i in order:
    call = MENU[names[i]]
    ocls, oresp, _ = S.call_servicer(sv, call, wire=wire_mode(backend))
    outs[i] = [ocls, oresp if ocls == 'OK' else None]
  final = final_state(sv, mon)
  return {'outs': [outs[i] for i in range(len(names))], 'final': final, 'before_ids': before_ids,
          'post': followup(sv, backend)}


def trial_ids(sv):
  try:
    return sorted(int(t.id) for t in sv.datastore._inner.list_trials(STUDY))
  except Exception:  # pylint: disable=broad-except
    return []


def run_controlled(backend, pname, names, prefix_choices, rng=None):
  from vv import sched as sched_lib
  from vv import service as S
  sv, ctl, mon = fresh(backend, pname)
  before_ids = trial_ids(sv)
  sch = sched_lib.Scheduler(prefix_choices, rng)
  fine = sched_lib.install(sv, sch)
  if any(n in READS for n in names):
    # with a pure read in the set, the SQL connection also yields before every statement /
    # commit / rollback (a lock-free read may run between a write and its COMMIT)
    sched_lib.install_statement_yields(sv, sch)
  # yield points: with a scheduler-visible datastore lock every acquisition of it
  # yields (finer than, and including, "entry of every datastore method")
  sv.datastore._yield = None if fine else sch.yield_point
  mon.lock = sched_lib.NoLock()
  calls = [MENU[n] for n in names]

  def mk(i, call):
    def fn():
      return S.call_servicer(sv, call, wire=wire_mode(backend))
    return fn
  res, alive = sch.run([mk(i, c) for i, c in enumerate(calls)])
  sv.datastore._yield = None
  outs = []
  for i in range(len(calls)):
    r = res.get(i)
    if r is None:
      outs.append(['NO-RESULT', None])
    elif r[0] == 'ok':
      ocls, oresp, _ = r[1]
      outs.append([ocls, oresp if ocls == 'OK' else None])
    elif r[0] == 'deadlock':
      outs.append(['DEADLOCK', None])
    else:
      outs.append(['HARNESS-EXC:' + type(r[1]).__name__, str(r[1])[:200]])
  final = final_state(sv, mon)
  post = None
  if not alive and not sch.deadlock:
    # back to plain locks for the sequential follow-up calls
    sv.datastore._yield = None
    post = followup(sv, backend)
  return {'outs': outs, 'final': final, 'before_ids': before_ids, 'sched': sch, 'alive': alive,
          'mon': mon, 'ctl': ctl, 'sv': sv, 'post': post}


def rename(x, mapping):
  """Renames trial ids (new -> canonical) everywhere in an abstract structure."""
  if isinstance(x, dict):
    out = {}
    for k, v in x.items():
      if k == 'id' and isinstance(v, str) and v in mapping:
        out[k] = mapping[v]
      elif k == 'name' and isinstance(v, str) and '/trials/' in v and v.rsplit('/', 1)[1] in mapping:
        out[k] = v.rsplit('/', 1)[0] + '/' + mapping[v.rsplit('/', 1)[1]]
      else:
        out[k] = rename(v, mapping)
    if 'trials' in out and isinstance(out['trials'], list) and out['trials'] and isinstance(out['trials'][0], dict) and 'id' in out['trials'][0] and 'done' not in x:
      out['trials'] = sorted(out['trials'], key=lambda t: int(t['id']))
    return out
  if isinstance(x, list):
    return [rename(v, mapping) for v in x]
  return x


def new_ids(result):
  ids = set()
  snap = result['final']['snap'].get('o')
  if isinstance(snap, dict):
    for st in snap.values():
      if isinstance(st['trials'], list):
        ids.update(t['id'] for t in st['trials'])
  for o in result['outs']:
    collect_ids(o, ids)
  for op in result['final']['ops']:
    collect_ids(op, ids)
  before = {str(i) for i in result['before_ids']}
  return sorted(ids - before, key=int)


def collect_ids(x, ids):
  if isinstance(x, dict):
    if 'id' in x and isinstance(x['id'], str) and 'params' in x:
      ids.add(x['id'])
    for v in x.values():
      collect_ids(v, ids)
  elif isinstance(x, list):
    for v in x:
      collect_ids(v, ids)


def strip_ops_for_deleted(result):
  return result


def comparable(result):
  return {'outs': result['outs'], 'final': result['final'], 'post': result.get('post')}


def matches(obs, ser):
  """obs equals ser up to a bijection of the trial ids created during the run."""
  a, b = new_ids(obs), new_ids(ser)
  if len(a) != len(b):
    return False
  co, cs = comparable(obs), comparable(ser)
  target = json.dumps(rename(cs, {}), sort_keys=True)
  if a == b and json.dumps(rename(co, {}), sort_keys=True) == target:
    return True
  if len(a) > 5:
    return False
  for perm in itertools.permutations(b):
    mapping = dict(zip(a, perm))
    if json.dumps(rename(co, mapping), sort_keys=True) == target:
      return True
  return False


def describe_mismatch(obs, serials, names):
  outs = [o[0] for o in obs['outs']]
  ser_outs = sorted({json.dumps([o[0] for o in s['outs']]) for s in serials})
  if json.dumps(outs) not in ser_outs:
    bad = [f'{names[i]}->{outs[i]}' for i in range(len(names))
           if not any(s['outs'][i][0] == outs[i] for s in serials)]
    return 'outcome', f'outcome classes {outs} match no serial order {ser_outs}; calls with an outcome no order produces: {bad}'
  # same classes: find what differs against the closest serial order
  from vv import model as model_lib
  best = None
  for s in serials:
    if [o[0] for o in s['outs']] != outs:
      continue
    d = model_lib.diff(comparable(s), comparable(obs))
    if best is None or len(d) < len(best):
      best = d
  same_but_later = [s for s in serials if [o[0] for o in s['outs']] == outs and matches(
      {'outs': obs['outs'], 'final': obs['final'], 'before_ids': obs['before_ids']},
      {'outs': s['outs'], 'final': s['final'], 'before_ids': s['before_ids']})]
  if same_but_later:
    return 'later', (f'the calls and the stored state fit a serial order, but calls made afterwards, one at a time, '
                     f'behave differently: {obs.get("post")} after the concurrent run, {same_but_later[0].get("post")} after that serial order')
  final_ok = any(matches({'outs': [], 'final': obs['final'], 'before_ids': obs['before_ids']},
                         {'outs': [], 'final': s['final'], 'before_ids': s['before_ids']})
                 for s in serials if [o[0] for o in s['outs']] == outs)
  if final_ok:
    return 'response', (f'outcome classes {outs} and the final stored state fit a serial order, but no single order '
                        f'explains the responses as well: {best}')
  return 'state', f'outcome classes {outs} fit a serial order but the final stored state does not: {best}'


_PREFIX_TRIALS = {}


def prefix_trials(pname):
  """{trial id: (state, client)} after the sequential prefix (RAM, computed once)."""
  if pname not in _PREFIX_TRIALS:
    sv, _, _ = fresh('ram', pname)
    out = {}
    try:
      for t in sv.datastore._inner.list_trials(STUDY):
        from vv import service as S
        out[int(t.id)] = (S.TS.Name(t.state), t.client_id)
    except Exception:  # pylint: disable=broad-except
      pass
    _PREFIX_TRIALS[pname] = out
  return _PREFIX_TRIALS[pname]


def deleted_trial_role(pname, names):
  """What the trial aimed at by a concurrent DeleteTrial was when the concurrent phase began,
  relative to the concurrent SuggestTrials calls (part of the mechanism id: deleting a worker's own
  ACTIVE trial under its feet is a different history from deleting a queued trial)."""
  pt = prefix_trials(pname)
  sug_clients = {MENU[n]['client'] for n in names if MENU[n]['op'] == 'SuggestTrials'}
  roles = set()
  for n in names:
    if MENU[n]['op'] != 'DeleteTrial':
      continue
    tid = int(MENU[n]['trial'].rsplit('/', 1)[1])
    if tid not in pt:
      roles.add('created-in-flight')
    elif pt[tid][0] == 'ACTIVE':
      roles.add('own-active' if pt[tid][1] in sug_clients else 'other-workers-active')
    elif pt[tid][0] == 'REQUESTED':
      roles.add('queued')
    else:
      roles.add('completed')
  return '+'.join(sorted(roles))


def mismatch_site(names, text):
  """Normalised place of the reported difference: whose response / which part of the stored state."""
  import re
  m = re.search(r': /outs\[(\d+)\]\[1\]/(.*?)(?:: |$)', text)
  if m:
    who = MENU[names[int(m.group(1))]]['op'] if int(m.group(1)) < len(names) else '?'
    path = m.group(2)
    site = f'response-of={who}'
  else:
    m = re.search(r': (/final/.*?)(?:: |$)', text)
    if not m:
      return 'site=?'
    path = m.group(1)
    site = 'stored'
  if '/metadata/' in path or path.startswith('metadata/'):
    key = path.split('metadata/', 1)[1]
    field = 'metadata[algorithm-namespace]' if key.startswith('[":') else 'metadata[user-namespace]'
  else:
    field = re.sub(r'\[\d+\]', '', path).strip('/')
    field = '/'.join(field.split('/')[-2:])
  return f'{site}:{field}'


def classify(names, kind, text, obs, pname=None):
  pair = '+'.join(sorted(set(MENU[n]['op'] for n in names)))
  ops = {MENU[n]['op'] for n in names}
  if kind in ('state', 'response') and pname is not None:
    # mechanism ids of known findings name the specific history, so that another
    # violation by the same pair of RPC kinds is still reported
    if {'DeleteTrial', 'SuggestTrials'} <= ops and 'trials' in text and 'metadata' not in text:
      base = ('lost-update' if kind == 'state' else 'non-serialisable-response') + f':{pair}:trials'
      return f'{base}:deleted={deleted_trial_role(pname, names)}'
    if {'SetStudyState', 'SuggestTrials'} <= ops and kind == 'response' and 'metadata' in text:
      return f'non-serialisable-response:{pair}:metadata:{mismatch_site(names, text)}'
  if kind == 'deadlock':
    return f'deadlock:{pair}'
  if kind == 'later':
    bad = sorted({r[0] + '->' + r[1] for r in (obs.get('post') or []) if r[1] != 'OK'})
    return f'later-calls-differ:{pair}:' + (','.join(bad) or 'responses')
  if kind == 'unfinished-op':
    return f'operation-left-unfinished:{pair}'
  if kind == 'outcome':
    outs = sorted({o[0] for o in obs['outs'] if o[0] != 'OK'})
    return f'non-serialisable-outcome:{pair}:{",".join(outs)}'
  if kind in ('state', 'response'):
    tag = ('metadata' if 'metadata' in text else ('measurements' if 'measurements' in text else
           ('study-state' if '/study/state' in text else ('trials' if 'trials' in text else 'other'))))
    return ('lost-update' if kind == 'state' else 'non-serialisable-response') + f':{pair}:{tag}'
  return f'{kind}:{pair}'


def check_observation(ctx, obs, serials, backend, pname, names, how):
  sch = obs['sched']
  case = {'backend': backend, 'prefix': pname, 'calls': list(names), 'schedule': sch.choices(), 'how': how}
  ctx.count('schedules_run')
  # non-triviality: a switch between first and last datastore call of some thread
  labels = [(c, lab) for (_, c, _, lab) in sch.trace]
  inside = False
  for tid in range(len(names)):
    idx = [i for i, (c, lab) in enumerate(labels) if c == tid]
    if idx and any(labels[j][0] != tid for j in range(idx[0], idx[-1])):
      inside = True
  if inside:
    ctx.count('schedules_with_switch_inside_rmw')
  ctx.case([backend, pname, list(names), sch.schedule_string()], nontrivial=inside)
  problems = []
  if sch.deadlock or obs['alive'] or any(o[0] in ('DEADLOCK', 'NO-RESULT') for o in obs['outs']):
    blocked = {t: type(l).__name__ for t, l in sch.blocked_on.items()}
    problems.append(('deadlock', f'deadlock / non-termination: outs {[o[0] for o in obs["outs"]]} blocked {blocked}'))
  for o in obs['outs']:
    if o[0].startswith('HARNESS-EXC'):
      ctx.inconclusive_reason(f'scheduler harness error {o}')
      return True
  for op in obs['final']['ops']:
    if not op['done']:
      problems.append(('unfinished-op', f'stored operation {op["name"]} left done=False'))
  for kind, detail in obs['mon'].anomalies:
    problems.append((f'monitor:{kind}', json.dumps(detail, default=str)[:200]))
  if not problems and not any(matches(obs, s) for s in serials):
    problems.append(describe_mismatch(obs, serials, names))
  # lost algorithm-state update: persisted call counter vs actual calls (only when the study survived)
  snap = obs['final']['snap'].get('o')
  if isinstance(snap, dict) and STUDY in snap and not any('DeleteStudy' in n for n in names):
    md = snap[STUDY]['study']['metadata']
    stored = int(md.get('[":vvstub", "calls"]', 'str:0')[4:])
    actual = obs['ctl'].suggest_calls
    ctx.count('algorithm_state_counters_checked')
    if stored != actual and not problems:
      problems.append(('lost-algorithm-state', f'algorithm ran {actual}x but its persisted counter says {stored}'))
  stop = False
  for kind, text in problems[:1]:
    mech = classify(names, kind, text, obs, pname)
    ctx.violation(mech, f'{backend} prefix={pname} S={list(names)} schedule={sch.schedule_string()}: {text}'[:700],
                  case)
    # a listed finding must not hide a different violation reachable by another schedule
    # of the same combination: exploration only stops at mechanisms that are not listed
    if mech not in _known_mechs():
      stop = True
  return not stop


_KNOWN = {}


def _known_mechs():
  if 'm' not in _KNOWN:
    from vv import common
    _KNOWN['m'] = {k['id'] for k in common.load_known_findings().get('findings', []) if k['property'] == PROPERTY}
  return _KNOWN['m']


def explore_combo(ctx, backend, pname, names, max_pre, cap, n_random, rng):
  from vv import sched as sched_lib
  serials = []
  for order in itertools.permutations(range(len(names))):
    serials.append(run_serial(backend, pname, names, order))
    ctx.count('serial_orders_computed')
  ctx.count('combos_explored')
  ok = [True]

  def run(prefix):
    obs = run_controlled(backend, pname, names, prefix)
    if ok[0]:
      ok[0] = check_observation(ctx, obs, serials, backend, pname, names, 'dfs')
    return obs['sched']
  n, complete = sched_lib.explore(run, max_pre, cap, stop=lambda: not ok[0])
  if complete:
    ctx.count('combos_exhaustive_within_preemption_bound')
  for _ in range(n_random):
    if not ok[0]:
      break
    import random
    r = random.Random(rng.getrandbits(32))
    obs = run_controlled(backend, pname, names, [], rng=r)
    ok[0] = check_observation(ctx, obs, serials, backend, pname, names, 'random')
  return n


# ---------------------------------------------------------------------------
# uncontrolled stress
# ---------------------------------------------------------------------------
def stress(ctx, index, backend, n_threads, ops_per_thread):
  import sys
  from vv import service as S
  rng = ctx.rng(index, 'stress')
  ctl = S.Controller()
  mon = S.WriteMonitor()
  sv = S.make_servicer(backend, ctl, mon)
  ctl.stub_studies.add(STUDY)
  S.call_servicer(sv, CREATE)
  old = sys.getswitchinterval()
  sys.setswitchinterval(1e-6)
  acked_measures = []
  acked_md = []
  lock = threading.Lock()
  errors = []
  seeds = [rng.getrandbits(32) for _ in range(n_threads)]
  progress = [0]
  reads = [0]

  def worker(w):
    import random
    r = random.Random(seeds[w])
    client = f'w{w}'
    mine = []
    last_op = None
    for j in range(ops_per_thread):
      x = r.random()
      try:
        if x < 0.3 or not mine:
          ocls, resp, _ = S.call_servicer(sv, {'op': 'SuggestTrials', 'study': STUDY, 'count': 1, 'client': client})
          if ocls == 'OK' and resp['trials']:
            mine = [t['id'] for t in resp['trials']]
          elif ocls != 'OK':
            errors.append(('SuggestTrials', ocls, resp))
          if ocls == 'OK':
            last_op = resp['name']
        elif x < 0.42:
          # pure reads racing the writers (operation polls, listings): a read must never
          # disturb somebody else's write
          which = r.choice(['GetOperation', 'ListTrials', 'GetStudy', 'GetTrial'])
          if which == 'GetOperation' and last_op:
            ocls, resp, _ = S.call_servicer(sv, {'op': 'GetOperation', 'name': last_op})
          elif which == 'ListTrials':
            ocls, resp, _ = S.call_servicer(sv, {'op': 'ListTrials', 'study': STUDY})
          elif which == 'GetTrial':
            ocls, resp, _ = S.call_servicer(sv, {'op': 'GetTrial', 'trial': T(mine[0])})
          else:
            ocls, resp, _ = S.call_servicer(sv, {'op': 'GetStudy', 'study': STUDY})
          if ocls != 'OK':
            errors.append((which, ocls, resp))
          with lock:
            reads[0] += 1
        elif x < 0.6:
          uid = f'{w}-{j}'
          tid = mine[0]
          ocls, resp, _ = S.call_servicer(sv, {'op': 'AddTrialMeasurement', 'trial': T(tid),
                                               'm': {'metrics': {'obj': float(w * 100000 + j)}, 'steps': j + 1}})
          if ocls == 'OK':
            with lock:
              acked_measures.append((tid, float(w * 100000 + j)))
        elif x < 0.8:
          key = f'k{w}-{j}'
          tid = mine[0] if r.random() < 0.5 else None
          ocls, resp, _ = S.call_servicer(sv, {'op': 'UpdateMetadata', 'study': STUDY, 'delta': [[tid and int(tid), 'u', key, 'v']]})
          if ocls == 'OK' and not resp['error_details']:
            with lock:
              acked_md.append((tid, key))
        else:
          tid = mine.pop(0)
          S.call_servicer(sv, {'op': 'CompleteTrial', 'trial': T(tid), 'final': {'metrics': {'obj': 1.0}}})
        with lock:
          progress[0] += 1
      except Exception as e:  # pylint: disable=broad-except
        errors.append(('harness', type(e).__name__, str(e)[:100]))
  threads = [threading.Thread(target=worker, args=(w,), daemon=True) for w in range(n_threads)]
  for t in threads:
    t.start()
  # Deadlock is decided on progress, not on wall-clock duration: as long as some
  # thread still completes operations the run is merely slow (loaded machine,
  # growing trial table). No completed operation by any thread for 180 s while
  # threads are alive means every client is blocked.
  import time
  last_n, last_t, t_start = -1, time.time(), time.time()
  stuck = gave_up = False
  while any(t.is_alive() for t in threads):
    time.sleep(0.2)
    n_done = progress[0]
    if n_done != last_n:
      last_n, last_t = n_done, time.time()
    elif time.time() - last_t > 180:
      stuck = True
      break
    if time.time() - t_start > 900:
      gave_up = True
      break
  sys.setswitchinterval(old)
  case = {'stress': True, 'backend': backend, 'index': index, 'threads': n_threads, 'ops': ops_per_thread}
  ctx.count('stress_runs')
  ctx.count('stress_operations', progress[0])
  ctx.count('stress_reads_racing_writes', reads[0])
  if stuck:
    ctx.violation('stress:no-client-makes-progress', 'no client thread completed an operation for 180 s while '
                  f'{sum(t.is_alive() for t in threads)} threads were still inside calls (deadlock)', case)
    return
  if gave_up:
    ctx.note('stress run still progressing after 900 s (slow machine): abandoned without verdict')
    ctx.count('stress_runs_abandoned_slow')
    return
  whole = S.snapshot(sv, ['o'])['o']
  if not isinstance(whole, dict) or STUDY not in whole or not isinstance(whole[STUDY]['trials'], list):
    ctx.violation('stress:final-state-unreadable',
                  f'after the concurrent run the study cannot be read back: {str(whole)[:300]}', case)
    return
  snap = whole[STUDY]
  trials = {t['id']: t for t in snap['trials']}
  ids = [t['id'] for t in snap['trials']]
  if len(set(ids)) != len(ids):
    ctx.violation('stress:duplicate-trial-id', f'duplicate ids {ids}', case)
  for kind, detail in mon.anomalies[:3]:
    ctx.violation(f'stress:monitor:{kind}', json.dumps(detail, default=str)[:300], case)
  for (op, ocls, resp) in errors[:3]:
    ctx.violation(f'stress:call-failed:{op}:{ocls}', f'{op} failed under concurrency with {ocls}: {str(resp)[:200]}', case)
  lost_m = [(tid, v) for tid, v in acked_measures
            if tid in trials and not any(m['metrics'].get('obj') == v for m in trials[tid]['measurements'])]
  if lost_m:
    ctx.violation('stress:lost-measurement', f'{len(lost_m)} acknowledged measurements missing, e.g. {lost_m[:3]}', case)
  lost_md = []
  for tid, key in acked_md:
    holder = snap['study']['metadata'] if tid is None else trials.get(tid, {}).get('metadata')
    if holder is not None and json.dumps(['u', key]) not in holder:
      lost_md.append((tid, key))
  ctx.count('stress_acked_metadata', len(acked_md))
  ctx.count('stress_acked_measurements', len(acked_measures))
  if lost_md:
    on_trial = sum(1 for tid, _ in lost_md if tid is not None)
    mech = 'stress:lost-metadata:' + ('trial' if on_trial == len(lost_md) else ('study' if on_trial == 0 else 'both'))
    ctx.violation(mech, f'{len(lost_md)} of {len(acked_md)} acknowledged metadata keys missing, e.g. {lost_md[:3]}', case)
  inner = sv.datastore._inner
  for w in range(n_threads):
    try:
      pend = inner.list_suggestion_operations(STUDY, f'w{w}', lambda op: not op.done)
    except Exception:  # pylint: disable=broad-except
      pend = []
    if pend:
      ctx.violation('stress:operation-left-unfinished', f'operation {pend[0].name} left done=False', case)
  ctx.case(['stress', backend, n_threads, ops_per_thread, index], nontrivial=True)


# ---------------------------------------------------------------------------
def run_shard(ctx):
  combos = all_combos() + OVER + TRIPLES
  quick = ctx.tier == 'quick'
  max_pre = 2 if quick else 3
  cap = 30 if quick else 140
  n_random = 6 if quick else 25
  items = []
  # backends interleaved: a run cut short by its time budget loses combos of both evenly
  for ci, (pname, names) in enumerate(combos):
    for bi, backend in enumerate(['ram', 'sqlmem'] if ci % 2 == 0 else ['sqlmem', 'ram']):
      items.append((backend, pname, names))
  # stress first (bounded), then the matrix in a seed-dependent rotation so that a
  # time-boxed run covers different combos on different seeds
  n_stress = 1 if quick else 10
  for k in range(n_stress):
    idx = ctx.shard * 100 + k
    stress(ctx, idx, ['ram', 'sqlmem'][(ctx.shard + k) % 2], n_threads=8 if quick else 12,
           ops_per_thread=60 if quick else 150)
  # a seed-dependent shuffle: a run cut short by its time budget covers every kind of
  # combination (prefixes, backends, reads) proportionally, and other seeds cover the rest
  import random as _random
  _random.Random(ctx.seed * 1000003 + 7).shuffle(items)
  done = 0
  for i, (backend, pname, names) in enumerate(items):
    if not ctx.mine(i):
      continue
    if ctx.out_of_time():
      ctx.note(f'time budget reached after {done} combos of this shard')
      break
    rng = ctx.rng(i, 'combo')
    c = 25 if (quick and len(names) == 3) else cap
    n = explore_combo(ctx, backend, pname, names, max_pre, c, n_random, rng)
    done += 1
    if done <= 1:
      ctx.sample({'backend': backend, 'prefix': pname, 'concurrent': list(names), 'schedules_run': n})
  ctx.count('combos_total', len(items) if ctx.shard == 0 else 0)


def replay(ctx, case):
  if case.get('stress'):
    stress(ctx, case['index'], case['backend'], case['threads'], case['ops'])
    return
  names = tuple(case['calls'])
  serials = [run_serial(case['backend'], case['prefix'], names, order)
             for order in itertools.permutations(range(len(names)))]
  obs = run_controlled(case['backend'], case['prefix'], names, case['schedule'])
  check_observation(ctx, obs, serials, case['backend'], case['prefix'], names, 'replay')
