"""C18 — output warping keeps the ranking of trials and yields finite labels.

Monitors on every warp() call of the real warpers (wrapped from the harness):
shape, finiteness, input-not-mutated (bitwise snapshot), infeasible entries no
higher than the worst feasible one, rank preservation (default pipeline),
no order reversal (every pipeline and component), unwarp(warp(y)) == y where an
inverse exists.
"""
import copy
import math

import numpy as np

PROPERTY = 'C18'
LEVEL = 'exploration'
RULE = ('label arrays of length 1..60 drawn from 12 generator classes (uniform, '
        'wide-magnitude, duplicates, constant, all-NaN, one-finite-among-NaN, '
        'heavy-tail outliers, alternating signs, lattice ties, -inf entries, tiny '
        'spread on a large offset, extreme>=1e150) x 14 subjects (default pipeline '
        'and its flag variants, outlier pipeline, each component alone). A case is '
        'non-trivial when the array has >=2 distinct feasible values; distinct = '
        'hash of (subject, class, length, #nan, #ties, sign pattern, exponent span).')
ASSUMPTIONS = [
    'distinct-stays-distinct is only demanded for pairs whose gap exceeds 1e-9 of '
    'the feasible range (float rounding may merge closer values)',
    'order reversal is flagged only beyond 1e-12 relative slack (8 float32 eps for subjects containing TransformToGaussian, '
    'which computes in float32)',
    'extreme magnitudes (>=1e150) are a separate class; only finiteness / shape / '
    'no-mutation are demanded there',
    '+inf labels must be rejected with ValueError (documented)',
]
REQUIRED_COUNTERS = ['gp_bandit_refit_scenarios_checked', 'gp_designer_multi_metric_pipelines_checked', 'reused_warper_unwarp_compared', 'reused_warper_compared', 'default_rank_checked', 'arrays_with_ties_and_nan',
                     'unwarp_roundtrips', 'no_reversal_checked',
                     'input_snapshot_checked', 'posinf_rejections']
MIN_DISTINCT = {'quick': 300, 'thorough': 3000}


def plan(tier, seed):
  return {'shards': 12 if tier == 'quick' else 16,
          'budget_s': 60 if tier == 'quick' else 900}


CLASSES = ['uniform', 'wide', 'dups', 'constant', 'allnan', 'onefinite',
           'outliers', 'altsign', 'lattice', 'neginf', 'offset', 'extreme']


def gen_array(rng, cls):
  n = rng.choice([1, 2, 2, 3, 3, 4, 5, 6, 8, 10, 14, 15, 16, 20, 30, 45, 60, 70, 75])
  def fin():
    if cls == 'uniform':
      return rng.uniform(-10, 10)
    if cls == 'wide':
      return rng.choice([-1, 1]) * rng.uniform(1, 10) * 10 ** rng.randint(-12, 12)
    if cls == 'dups':
      return rng.choice([-3.5, 0.0, 1.0, 1.0, 2.25, 7.0])
    if cls == 'constant':
      return 4.25
    if cls == 'outliers':
      return (rng.gauss(5, 1) if rng.random() < 0.85 else
              -rng.uniform(1, 10) * 10 ** rng.randint(3, 30))
    if cls == 'altsign':
      return rng.choice([-1, 1]) * rng.uniform(0.1, 100)
    if cls == 'lattice':
      return float(rng.randint(-3, 3))
    if cls == 'neginf':
      return rng.uniform(-5, 5)
    if cls == 'offset':
      return 1e6 + rng.randint(0, 1000) * 1e-3
    if cls == 'extreme':
      return rng.choice([-1, 1]) * rng.uniform(1, 9) * 10 ** rng.choice(
          [150, 200, 250, 300, -300, 0, 3])
    return rng.uniform(-1, 1)
  if cls == 'allnan':
    vals = [float('nan')] * n
  elif cls == 'onefinite':
    vals = [float('nan')] * n
    vals[rng.randrange(n)] = rng.uniform(-100, 100)
  else:
    p_nan = rng.choice([0.0, 0.0, 0.15, 0.4])
    if cls == 'neginf':
      p_nan = 0.3
    vals = []
    for _ in range(n):
      if rng.random() < p_nan:
        vals.append(float('-inf') if (cls == 'neginf' and rng.random() < 0.6)
                    else float('nan'))
      else:
        vals.append(fin())
  return np.array(vals, dtype=np.float64).reshape(-1, 1)


def subjects():
  from vizier._src.algorithms.designers.gp import output_warpers as ow
  S = {}
  S['default'] = lambda: ow.create_default_warper()
  S['default_nohalf'] = lambda: ow.create_default_warper(half_rank_warp=False)
  S['default_nolog'] = lambda: ow.create_default_warper(log_warp=False)
  S['default_onlyinf'] = lambda: ow.create_default_warper(
      half_rank_warp=False, log_warp=False)
  S['default_noinf'] = lambda: ow.create_default_warper(infeasible_warp=False)
  S['outlier'] = lambda: ow.create_warp_outliers_warper()
  S['outlier_nogauss'] = lambda: ow.create_warp_outliers_warper(
      transform_gaussian=False)
  S['halfrank'] = ow.HalfRankComponent
  S['log'] = ow.LogWarperComponent
  S['infeasible'] = ow.InfeasibleWarperComponent
  S['zscore'] = ow.ZScoreLabels
  S['normalize'] = ow.NormalizeLabels
  S['detect'] = ow.DetectOutliers
  S['gauss'] = ow.TransformToGaussian
  return S

# which guarantees are demanded of which subject
FINITE = {'default', 'default_nohalf', 'default_nolog', 'default_onlyinf',
          'outlier', 'outlier_nogauss', 'infeasible'}
RANK = {'default', 'default_nohalf', 'default_nolog', 'default_onlyinf'}
UNWARP = {'default', 'default_nohalf', 'default_nolog', 'default_onlyinf',
          'halfrank', 'log', 'infeasible'}
NAN_INTOLERANT = {'gauss'}   # documented to run after the infeasible warper


def abstraction(name, cls, y):
  f = y[np.isfinite(y)]
  n_nan = int((~np.isfinite(y)).sum())
  ties = int(f.size - np.unique(f).size)
  signs = (bool((f < 0).any()), bool((f > 0).any()), bool((f == 0).any()))
  span = 0
  nz = np.abs(f[f != 0])
  if nz.size:
    span = int(round(math.log10(float(nz.max())) - math.log10(float(nz.min()))))
  return [name, cls, int(y.size), min(n_nan, 5), min(ties, 5), signs, span]


def check_one(ctx, name, factory, cls, y, index):
  case = {'subject': name, 'class': cls, 'labels': [repr(float(v)) for v in y.flatten()],
          'index': index}
  snapshot = y.copy()
  feasible = np.isfinite(y.flatten())
  nfeas = int(feasible.sum())
  yf = y.flatten()[feasible]
  nontrivial = np.unique(yf).size >= 2
  extreme = cls == 'extreme'
  warper = factory()
  if name in NAN_INTOLERANT and nfeas < y.size:
    return
  if nfeas == 0 and name not in FINITE:
    # no observed value at all: the pipelines guard this case themselves before
    # any component runs; single components are not required to accept it.
    return
  try:
    with np.errstate(all='ignore'):
      w = np.asarray(warper.warp(y))
  except Exception as e:  # pylint: disable=broad-except
    ctx.case(abstraction(name, cls, y), nontrivial)
    if extreme and name not in FINITE:
      ctx.count('extreme_component_exceptions')
      return
    ctx.violation(f'warp-raised:{name}:{type(e).__name__}' + (':extreme' if extreme else ''),
                  f'{name}.warp raised {type(e).__name__}: {e}', case)
    return
  ctx.case(abstraction(name, cls, y), nontrivial)
  ctx.count('warps_observed')
  tag = ':extreme' if extreme else ''
  # --- input unchanged (bitwise) ------------------------------------------
  ctx.count('input_snapshot_checked')
  if not np.array_equal(snapshot.view(np.uint64), y.view(np.uint64)):
    ctx.violation(f'input-mutated:{name}', f'{name}.warp modified its input', case,
                  {'after': [repr(float(v)) for v in y.flatten()]})
    y = snapshot.copy()
  # --- shape ----------------------------------------------------------------
  if w.shape != snapshot.shape:
    ctx.violation(f'shape:{name}', f'{name}.warp returned shape {w.shape} for {snapshot.shape}', case)
    return
  wf = w.flatten()
  # --- finiteness -----------------------------------------------------------
  if name in FINITE:
    ctx.count('finite_checked')
    if not np.isfinite(wf).all():
      if (name.startswith('outlier') and np.unique(yf).size == 1
          and abs(float(yf[0])) >= 2.0 ** 53 and nfeas < y.size):
        # the infeasible replacement `min - (0.5*range + 1)` is absorbed by a
        # lone feasible label of magnitude >= 2^53, the Gaussian transform
        # then divides 0 by 0.
        tag = ':lone-feasible-label-beyond-2^53'
      ctx.violation(f'nonfinite:{name}{tag}', f'{name}.warp produced non-finite labels', case,
                    {'warped': [repr(float(v)) for v in wf]})
      return
    # infeasible no higher than worst feasible
    if 0 < nfeas < y.size:
      ctx.count('infeasible_position_checked')
      if wf[~feasible].max() > wf[feasible].min():
        ctx.violation(f'infeasible-above-feasible:{name}{tag}',
                      f'{name}: infeasible entry warped above a feasible one', case,
                      {'warped': [repr(float(v)) for v in wf]})
  if extreme:
    ctx.count('extreme_arrays')
    return
  if nfeas >= 2:
    ties = np.unique(yf).size < yf.size
    if ties and nfeas < y.size:
      ctx.count('arrays_with_ties_and_nan')
    wfe = wf[feasible]
    rng_ = float(yf.max() - yf.min())
    # --- no order reversal (all subjects) -----------------------------------
    ctx.count('no_reversal_checked')
    order = np.argsort(yf, kind='stable')
    ys, ws = yf[order], wfe[order]
    both = np.isfinite(ws)
    ys2, ws2 = ys[both], ws[both]
    if ws2.size >= 2:
      # running maximum of w over strictly smaller y must not exceed w by > slack
      # TransformToGaussian computes in float32 (tfp / jax default): labels that
      # normalise to the same float32 may come back a few float32 ulps apart.
      rel = 8 * float(np.finfo(np.float32).eps) if name in ('gauss', 'outlier') else 1e-12
      slack = rel * max(1.0, float(np.abs(ws2).max()))
      runmax = -np.inf
      j = 0
      bad = None
      for i in range(ws2.size):
        while ys2[j] < ys2[i]:
          runmax = max(runmax, ws2[j])
          j += 1
        if runmax - ws2[i] > slack:
          bad = (float(ys2[i]), float(ws2[i]), float(runmax))
          break
      if bad:
        ctx.violation(f'order-reversed:{name}', f'{name}: a smaller label got a larger warped value',
                      case, {'y,w,earlier_max_w': bad})
    # --- rank preservation (default pipeline family) -------------------------
    if name in RANK:
      ctx.count('default_rank_checked')
      # equal stay equal
      bad = None
      for v in np.unique(yf):
        grp = wfe[yf == v]
        if grp.size > 1 and not np.all(grp == grp[0]):
          bad = ('equal-labels-warped-apart', float(v))
          break
      if not bad and rng_ > 0:
        gap_ok = np.diff(ys) > 1e-9 * rng_
        merged = (np.diff(ws) <= 0) & gap_ok
        if merged.any():
          k = int(np.argmax(merged))
          bad = ('distinct-labels-merged-or-reversed', float(ys[k]), float(ys[k + 1]),
                 float(ws[k]), float(ws[k + 1]))
      if bad:
        ctx.violation(f'rank-not-preserved:{name}:{bad[0]}',
                      f'{name}: ranking of observed values changed ({bad[0]})', case,
                      {'detail': bad, 'warped': [repr(float(v)) for v in wf]})
  # --- unwarp ---------------------------------------------------------------
  if name in UNWARP and nfeas >= 1:
    degenerate = (np.unique(yf).size == 1)
    if degenerate:
      # documented special cases of the pipeline (constant array -> zeros);
      # nothing is demanded of the inverse there.
      ctx.count('unwarp_degenerate_skipped')
      return
    try:
      arg = w.copy()
      if name == 'halfrank':
        arg = w[feasible.reshape(-1)].reshape(-1, 1)  # documented: no NaN support
        target = yf
      else:
        target = None
      with np.errstate(all='ignore'):
        u = np.asarray(warper.unwarp(arg)).flatten()
    except Exception as e:  # pylint: disable=broad-except
      ctx.violation(f'unwarp-raised:{name}:{type(e).__name__}',
                    f'{name}.unwarp(warp(y)) raised {type(e).__name__}: {e}', case)
      return
    ctx.count('unwarp_roundtrips')
    if target is None:
      u = u[feasible]
      target = yf
    scale = max(float(np.abs(target).max()), float(target.max() - target.min()), 1e-300)
    err = np.abs(u - target)
    if not np.all(err <= 1e-6 * scale):
      k = int(np.nanargmax(np.where(np.isnan(err), np.inf, err)))
      ctx.violation(f'unwarp-mismatch:{name}',
                    f'{name}: unwarp(warp(y)) != y on an observed value', case,
                    {'y': float(target[k]), 'unwarped': repr(float(u[k])), 'scale': scale})


def check_posinf(ctx, name, factory, rng):
  y = np.array([[1.0], [float('inf')], [2.0]])
  try:
    with np.errstate(all='ignore'):
      factory().warp(y)
  except ValueError:
    ctx.count('posinf_rejections')
    return
  except Exception as e:  # pylint: disable=broad-except
    ctx.violation(f'posinf-wrong-exception:{name}', f'{name}: +inf label raised {type(e).__name__}',
                  {'subject': name, 'labels': ['1.0', 'inf', '2.0']})
    return
  ctx.violation(f'posinf-accepted:{name}', f'{name}: +inf label was warped instead of rejected',
                {'subject': name, 'labels': ['1.0', 'inf', '2.0']})


def check_reuse(ctx, name, reused, factory, cls, y, index, history):
  """One warper object used for successive label arrays (as VizierGPBandit does)
  must warp each array exactly as a fresh warper would."""
  feasible = np.isfinite(y.flatten())
  if name in NAN_INTOLERANT and feasible.sum() < y.size:
    return
  if feasible.sum() == 0 and name not in FINITE:
    return
  fresh = factory()
  try:
    with np.errstate(all='ignore'):
      a = np.asarray(reused.warp(y.copy()), dtype=np.float64)
      b = np.asarray(fresh.warp(y.copy()), dtype=np.float64)
  except Exception:  # pylint: disable=broad-except
    return  # exceptions are judged by check_one on the fresh object
  ctx.count('reused_warper_compared')
  if name in UNWARP and a.shape == b.shape and np.array_equal(a, b, equal_nan=True):
    # ... and its inverse must be the inverse of *this* fit, like the fresh object's
    try:
      with np.errstate(all='ignore'):
        ub = np.asarray(fresh.unwarp(b.copy()), dtype=np.float64)
    except Exception:  # pylint: disable=broad-except
      ub = None
    if ub is not None:
      try:
        with np.errstate(all='ignore'):
          ua = np.asarray(reused.unwarp(a.copy()), dtype=np.float64)
      except Exception as e:  # pylint: disable=broad-except
        ua = None
        ctx.violation(f'reused-warper-unwarp-raises:{name}:{type(e).__name__}',
                      f'{name}: unwarp raises on a re-used warper object but not on a fresh one: {e}'[:300],
                      {'subject': name, 'class': cls, 'labels': [repr(float(v)) for v in y.flatten()], 'index': index,
                       'reuse_history': [[repr(float(v)) for v in h.flatten()] for h in history[-3:]]})
      if ua is not None:
        ctx.count('reused_warper_unwarp_compared')
        ok = ua.shape == ub.shape and np.array_equal(np.isnan(ua), np.isnan(ub)) and np.allclose(
            np.nan_to_num(ua, posinf=1e308, neginf=-1e308), np.nan_to_num(ub, posinf=1e308, neginf=-1e308),
            rtol=1e-6, atol=1e-9)
        if not ok:
          ctx.violation(f'reused-warper-unwarp-differs-from-fresh:{name}',
                        f'{name}: a warper object that had warped {len(history)} earlier arrays un-warps its own warped '
                        'labels differently from a fresh object fitted on the same array (stale state of an earlier fit)',
                        {'subject': name, 'class': cls, 'labels': [repr(float(v)) for v in y.flatten()], 'index': index,
                         'reuse_history': [[repr(float(v)) for v in h.flatten()] for h in history[-3:]]},
                        {'reused': [repr(float(v)) for v in ua.flatten()][:20], 'fresh': [repr(float(v)) for v in ub.flatten()][:20]})
  same = a.shape == b.shape and np.array_equal(np.isnan(a), np.isnan(b)) and np.allclose(
      np.nan_to_num(a, posinf=1e308, neginf=-1e308), np.nan_to_num(b, posinf=1e308, neginf=-1e308), rtol=1e-6, atol=1e-9)
  if not same:
    ctx.violation(f'reused-warper-differs-from-fresh:{name}',
                  f'{name}: a warper object that had warped {len(history)} earlier arrays warps this array differently from a fresh one',
                  {'subject': name, 'class': cls, 'labels': [repr(float(v)) for v in y.flatten()], 'index': index,
                   'reuse_history': [[repr(float(v)) for v in h.flatten()] for h in history[-3:]]},
                  {'reused': [repr(float(v)) for v in a.flatten()][:20], 'fresh': [repr(float(v)) for v in b.flatten()][:20]})


def check_gp_designer_layer(ctx, slot, n_cases, replay_case=None):
  """The label pipeline as the multi-metric GP designer applies it before model fitting:
  every metric column must be transformed, and later un-warped, exactly as the default
  pipeline fitted on *that* column alone would (differential against a fresh pipeline)."""
  from vizier import pyvizier as vz
  from vizier._src.algorithms.designers import gp_ucb_pe
  from vizier._src.algorithms.designers.gp import output_warpers as ow
  rng = ctx.rng(20_000_000 + slot, 'gp-layer')
  for k in range(n_cases):
    if replay_case is not None:
      cols, goals = replay_case['cols'], replay_case['goals']
    else:
      n = rng.choice([1, 2, 3, 5, 8, 13, 20])
      m = rng.choice([1, 2, 2, 3])
      classes = [rng.choice(['uniform', 'wide', 'dups', 'constant', 'outliers', 'offset', 'lattice', 'altsign'])
                 for _ in range(m)]
      cols = []
      for c in classes:
        col = []
        while len(col) < n:
          col.extend(float(v) for v in gen_array(rng, c).flatten() if np.isfinite(v))
        cols.append([repr(v) for v in col[:n]])
      goals = [rng.choice(['MAXIMIZE', 'MINIMIZE']) for _ in range(m)]
    n, m = len(cols[0]), len(cols)
    case = {'gp_layer': True, 'cols': cols, 'goals': goals, 'slot': slot}
    p = vz.ProblemStatement()
    p.search_space.root.add_float_param('x', 0.0, 1.0)
    for j, g in enumerate(goals):
      p.metric_information.append(vz.MetricInformation(f'm{j}', goal=getattr(vz.ObjectiveMetricGoal, g)))
    trials = []
    for i in range(n):
      t = vz.Trial(id=i + 1, parameters={'x': (i + 0.5) / n})
      t.complete(vz.Measurement(metrics={f'm{j}': float(cols[j][i]) for j in range(m)}))
      trials.append(t)
    try:
      d = gp_ucb_pe.VizierGPUCBPEBandit(p)
      with np.errstate(all='ignore'):
        pre = np.asarray(d._converter.to_xy(trials).labels.unpad(), dtype=np.float64)  # pylint: disable=protected-access
        data = d._trials_to_data(trials)  # pylint: disable=protected-access
        warped = np.asarray(data.labels.unpad(), dtype=np.float64)
        warpers = list(d._output_warpers)  # pylint: disable=protected-access
    except AttributeError as e:
      ctx.note(f'GP designer label layer not reachable through the attributes known to the harness: {e}')
      return
    except Exception as e:  # pylint: disable=broad-except
      ctx.violation(f'gp-designer-label-pipeline-raised:{type(e).__name__}', f'{type(e).__name__}: {e}'[:300], case)
      continue
    ctx.count('gp_designer_label_pipelines_checked')
    if m > 1:
      ctx.count('gp_designer_multi_metric_pipelines_checked')
    if len(warpers) != m or warped.shape != pre.shape:
      ctx.violation('gp-designer-label-pipeline:shape', f'{len(warpers)} pipelines / labels {warped.shape} for {m} metrics x {n} trials', case)
      continue
    for j in range(m):
      col = pre[:, j:j + 1]
      try:
        with np.errstate(all='ignore'):
          fresh = ow.create_default_warper()
          fw = np.asarray(fresh.warp(col.copy()), dtype=np.float64)
          fu = np.asarray(fresh.unwarp(fw.copy()), dtype=np.float64)
          du = np.asarray(warpers[j].unwarp(warped[:, j:j + 1].copy()), dtype=np.float64)
      except Exception:  # pylint: disable=broad-except
        continue
      # the designer computes in float32: differences are judged against the scale of the column
      fin = col[np.isfinite(col)]
      scale = float(np.max(np.abs(fin))) if fin.size else 1.0

      def close(a, b, atol):
        return a.shape == b.shape and np.array_equal(np.isnan(a), np.isnan(b)) and np.allclose(
            np.nan_to_num(a, posinf=1e308, neginf=-1e308), np.nan_to_num(b, posinf=1e308, neginf=-1e308), rtol=1e-4, atol=atol)
      wfin = fw[np.isfinite(fw)]
      wscale = float(np.max(np.abs(wfin))) if wfin.size else 1.0
      if not close(warped[:, j:j + 1], fw, 1e-5 * max(wscale, 1e-30)):
        ctx.violation('gp-designer-label-pipeline:metric-warped-differently-from-default-pipeline',
                      f'metric {j} of {m}: the designer warps this column differently from the default pipeline fitted on it alone', case,
                      {'designer': warped[:, j].tolist()[:10], 'fresh': fw.flatten().tolist()[:10]})
        break
      if not close(du, fu, 1e-5 * max(scale, 1e-30)):
        ctx.violation('gp-designer-label-pipeline:metric-unwarped-with-another-fit',
                      f'metric {j} of {m}: the pipeline the designer keeps for this metric does not invert its own warped labels '
                      'the way the default pipeline fitted on this column does (it holds the fit of another label set)', case,
                      {'designer_unwarp': du.flatten().tolist()[:10], 'fresh_unwarp': fu.flatten().tolist()[:10],
                       'labels': col.flatten().tolist()[:10]})
        break
    ctx.case(['gp-layer', m, n, goals], nontrivial=m > 1)
    if replay_case is not None:
      return


def check_gp_bandit_refit(ctx, slot, replay_case=None):
  """The single-metric GP designer keeps ONE long-lived label pipeline and re-fits it in several
  methods (update / predict / sample / set_priors). Whatever the order of those calls, what it
  un-warps predictions with must be the fit of the study's own labels: predictions at the
  observed trials stay on the scale of the observed values, and its pipeline inverts the
  default pipeline's warping of the study labels."""
  import jax
  from vizier import algorithms as vza
  from vizier import pyvizier as vz
  from vizier._src.algorithms.designers import gp_bandit
  from vizier._src.algorithms.designers.gp import output_warpers as ow
  from vizier.jax import optimizers
  rng = ctx.rng(30_000_000 + slot, 'gp-bandit')
  if replay_case is not None:
    ys, scale, shift, order = replay_case['ys'], replay_case['scale'], replay_case['shift'], replay_case['order']
  else:
    n = rng.choice([5, 7, 9])
    ys = [round(rng.uniform(0.5, 3.0), 3) for _ in range(n)]
    scale, shift = rng.choice([1000.0, 0.001, -50.0]), rng.choice([5000.0, 0.0, -300.0])
    order = rng.choice([['predict', 'set_priors', 'predict'], ['sample', 'set_priors', 'predict'],
                        ['predict', 'set_priors', 'sample', 'predict'], ['set_priors', 'predict']])
  case = {'gp_bandit': True, 'ys': ys, 'scale': scale, 'shift': shift, 'order': order, 'slot': slot}
  xs = [(i + 0.5) / len(ys) for i in range(len(ys))]

  def mk(vals):
    out = []
    for i, (x, y) in enumerate(zip(xs, vals)):
      t = vz.Trial(id=i + 1, parameters={'x': x})
      t.complete(vz.Measurement(metrics={'obj': y}))
      out.append(t)
    return out
  problem = vz.ProblemStatement()
  problem.search_space.root.add_float_param('x', 0.0, 1.0)
  problem.metric_information.append(vz.MetricInformation('obj', goal=vz.ObjectiveMetricGoal.MAXIMIZE))
  study, prior = mk(ys), mk([scale * y + shift for y in ys])
  try:
    d = gp_bandit.VizierGPBandit(problem, ard_optimizer=optimizers.default_optimizer(maxiter=0),
                                 rng=jax.random.PRNGKey(rng.getrandbits(30)))
    d.update(vza.CompletedTrials(study), vza.ActiveTrials())
    key = jax.random.PRNGKey(1)
    last = None
    for op in order:
      if op == 'predict':
        last = np.asarray(d.predict(study, rng=key, num_samples=100).mean, dtype=np.float64)
      elif op == 'sample':
        d.sample(study, rng=key, num_samples=10)
      elif op == 'set_priors':
        d.set_priors([vza.CompletedTrials(prior)])
    warper = d._output_warper  # pylint: disable=protected-access
  except AttributeError as e:
    ctx.note(f'GP bandit label layer not reachable through the attributes known to the harness: {e}')
    return
  except Exception as e:  # pylint: disable=broad-except
    ctx.note(f'GP bandit scenario raised {type(e).__name__}: {e}'[:200])
    ctx.count('gp_bandit_scenarios_raised')
    return
  ctx.count('gp_bandit_refit_scenarios_checked')
  lo, hi = min(ys), max(ys)
  margin = 3 * (hi - lo) + 1e-6
  if last is not None and not (np.all(np.isfinite(last)) and np.all((last > lo - margin) & (last < hi + margin))):
    ctx.violation('gp-bandit:predictions-unwarped-with-another-label-set',
                  f'after {order} the predictions at the observed trials are not on the scale of the observed '
                  f'values [{lo}, {hi}]: {np.round(last, 3).tolist()[:8]}', case)
  labels = np.asarray(ys, dtype=np.float64)[:, np.newaxis]
  try:
    with np.errstate(all='ignore'):
      back = np.asarray(warper.unwarp(ow.create_default_warper().warp(labels.copy())), dtype=np.float64)
    if not np.allclose(back, labels, rtol=1e-4, atol=1e-6 * max(abs(lo), abs(hi))):
      ctx.violation('gp-bandit:kept-pipeline-does-not-invert-the-study-labels',
                    f'after {order} the pipeline the designer un-warps with maps the warped study labels to '
                    f'{np.round(back.flatten(), 4).tolist()[:8]} instead of {ys[:8]}', case)
  except Exception:  # pylint: disable=broad-except
    pass
  ctx.case(['gp-bandit', order, scale, shift], nontrivial=True)


def run_shard(ctx):
  if ctx.shard in (1, 2) or ctx.tier == 'thorough':
    check_gp_designer_layer(ctx, ctx.shard, 40 if ctx.tier == 'quick' else 400)
  S = subjects()
  names = sorted(S)
  reused = {name: S[name]() for name in names}
  history = {name: [] for name in names}
  n_cases = 2400 if ctx.tier == 'quick' else 120000
  if ctx.shard == 0:
    for name in names:
      if name not in ('gauss',):
        check_posinf(ctx, name, S[name], None)
  for i in range(n_cases):
    if not ctx.mine(i):
      continue
    if ctx.out_of_time():
      ctx.note(f'time budget reached at case {i}')
      break
    rng = ctx.rng(i)
    # every shard cycles through all classes (a reused warper must see a mixed history)
    cls = CLASSES[(i // ctx.nshards) % len(CLASSES)]
    y = gen_array(rng, cls)
    for name in names:
      check_one(ctx, name, S[name], cls, y.copy(), i)
      if cls != 'extreme':
        check_reuse(ctx, name, reused[name], S[name], cls, y, i, history[name])
        history[name].append(y.copy())
        if len(history[name]) > 3:
          history[name].pop(0)
    if i < 3 * ctx.nshards:
      ctx.sample({'class': cls, 'labels': [repr(float(v)) for v in y.flatten()][:12],
                  'subjects': len(names)})
  # last (it costs a GP fit): the single-metric GP designer's long-lived pipeline
  if ctx.shard == 3 or (ctx.tier == 'thorough' and ctx.shard in (4, 5)):
    check_gp_bandit_refit(ctx, ctx.shard)


def replay(ctx, case):
  if case.get('gp_bandit'):
    check_gp_bandit_refit(ctx, case.get('slot', 0), replay_case=case)
    return
  if case.get('gp_layer'):
    check_gp_designer_layer(ctx, case.get('slot', 0), 1, replay_case=case)
    return
  S = subjects()
  y = np.array([float(v) for v in case['labels']], dtype=np.float64).reshape(-1, 1)
  if 'class' not in case:
    check_posinf(ctx, case['subject'], S[case['subject']], None)
    return
  if 'reuse_history' in case:
    w = S[case['subject']]()
    hist = [np.array([float(v) for v in h], dtype=np.float64).reshape(-1, 1) for h in case['reuse_history']]
    for h in hist:
      try:
        with np.errstate(all='ignore'):
          w.warp(h.copy())
      except Exception:  # pylint: disable=broad-except
        pass
    check_reuse(ctx, case['subject'], w, S[case['subject']], case['class'], y, case.get('index', 0), hist)
    return
  check_one(ctx, case['subject'], S[case['subject']], case['class'], y, case.get('index', 0))
