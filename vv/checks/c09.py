"""C09 — study configs, trials and measurements survive the wire format unchanged.

For every generated value x of the twelve pyvizier wire types:

  M1  from_proto(to_proto(x)) == x      compared on canonical forms read through
                                        public accessors (vv/c09_lib.py), under
                                        the property's equivalence
  M2  to_proto(from_proto(to_proto(x))) byte-identical to to_proto(x)
                                        (deterministic serialisation)
  M3  from_proto(parse(serialize(to_proto(x)))) == from_proto(to_proto(x))
                                        (the in-memory message and the real wire
                                        bytes mean the same)
  M4  through-service read-back         CreateStudy/GetStudy, CreateTrial/GetTrial,
                                        CreateTrial -> SuggestTrials ->
                                        AddTrialMeasurement* -> CompleteTrial ->
                                        GetTrial on a VizierServicer over SQLite
  M5  ParameterType.CUSTOM              has no wire form: to_proto must refuse
                                        with ValueError (documented refusal)
  M6  strict_validation=True            ParameterConfigConverter.from_proto must accept
                                        every proto the library itself produced
  M7  received, edited, sent again      y = from_proto(wire bytes of to_proto(x)); y is changed
                                        through its public mutators (metadata items deleted /
                                        namespaces emptied / changed / added, parameters and
                                        metrics removed / added, algorithm, noise, stopping
                                        config, endpoint set or reset); then
                                        from_proto(wire(to_proto(y))) == y and the second
                                        conversion of that is identical. StudyConfig (which keeps
                                        the message it was created from) and ProblemStatement;
                                        also through the service: GetStudy -> edit -> CreateStudy
                                        -> GetStudy
"""
import json
import os
import math

from vv import c09_lib as L

PROPERTY = 'C09'
LEVEL = 'exploration'
RULE = ('values of 12 wire types (ParameterConfig, MetricInformation, StudyConfig, '
        'ProblemStatement, Measurement, Trial, TrialSuggestion, MetadataDelta, '
        'SuggestRequest, SuggestDecision, EarlyStopRequest, EarlyStopDecisions) drawn '
        'from JSON descriptions: all parameter kinds x scalings x external types x '
        'defaults (incl. 0, 0.0, -0.0, "", "False"), conditional trees of depth 0..3 '
        'with multi-parent values and re-used child names, metrics with goals / safety '
        'threshold / min-safe-fraction (incl. 0.0), algorithm/noise/stopping/endpoint, '
        'metadata in namespaces of 0..3 components with separator characters, strings '
        'and (packed) protos, all trial states, instants with microsecond fractions and '
        'time zones, fractional elapsed seconds; plus 3 through-service slices; plus '
        'received-then-edited StudyConfig / ProblemStatement values (1..2 rounds of 1..4 edit '
        'ops drawn from: delete / pop a metadata item, empty a namespace, replace the Metadata '
        'object, change / add an item, remove / add a parameter, add a child parameter, remove / '
        'add / flip a metric, set algorithm / noise incl. back to the default, set / clear the '
        'stopping config, set / clear the endpoint), directly and through GetStudy/CreateStudy. Built '
        'through ParameterConfig.factory and through the add_*_param/select builders. '
        'distinct = hash of (type, structural shape of the description with strings and '
        'numbers replaced by their class); non-trivial = canonical form has >= 6 leaves.')
ASSUMPTIONS = [
    'equality is decided on canonical forms read through public accessors, not by the '
    'classes\' own __eq__ (Metadata.__eq__ only sees the current namespace; '
    'StudyConfig.__eq__ compares the cached proto; Trial.__eq__ ignores completion_time)',
    'numbers are compared by value (True -> 1.0 and 3 -> 3.0 are legitimate); integers '
    'beyond 2^53 are only generated where the wire type is int64 (integer bounds, '
    'steps, ids), not as parameter values (number_value is a double)',
    'instants (microsecond-resolution datetimes) must be equal; durations within 0.5 microsecond plus '
    'float rounding',
    'masked as documented not-transmitted: Metric.std, Measurement.checkpoint_path, '
    'Trial.related_links, the text of Trial.stopping_reason (its presence is compared)',
    'metric order is not compared (name-keyed); MetricInformation.min_value/max_value/'
    'safety_std_threshold and ParameterConfig.fidelity_config are not generated (no '
    'wire field); desired_min_safe_trials_fraction only together with a safety threshold',
    'None and the proto3 default of a presence-less field are one value: Trial.description, '
    'Trial.assigned_worker, checkpoint_dir (None == ""), EarlyStopRequest.trial_ids '
    '(None == empty); an on_trials entry without items equals no entry',
    'ScaleType.UNIFORM_DISCRETE has no wire enum value and is skipped explicitly by '
    'to_proto: it is treated as "unset"',
    'StudyConfig.pythia_endpoint is compared as the effective endpoint (attribute, else '
    'the (service, PYTHIA_ENDPOINT) metadata item), as the class documents the duplication',
    'trial states are generated coherently (is_requested only without stopping reason / '
    'completion; completion_time only on completed trials)',
    'the second conversion is compared after sorting metrics by name and aligning '
    'Timestamp/Duration fields that agree to within half a microsecond; a pure re-ordering of the '
    'repeated metadata KeyValue entries (a map by meaning; the datastore itself keeps it '
    'sorted) is counted (reconversions_identical_up_to_metadata_order) but not flagged',
    'received-then-edited cases: the expectation is the canonical form of the edited object '
    'itself (public accessors), the edits use public mutators only (Metadata del/pop/clear/'
    'item assignment, attribute assignment, SearchSpace.pop/add, add_*_param/select); an edit '
    'op without a target in the received object is a no-op, an edit the builders refuse '
    '(ValueError/TypeError) is skipped and counted; the reserved (service, PYTHIA_ENDPOINT) '
    'item is never written by an edit (only deleted), the endpoint is edited via the attribute',
    'through-service slices run on VizierServicer(database_url="sqlite:///:memory:") '
    'called in-process (SQL datastore serialises every proto); service-assigned fields '
    '(name, id, state, client_id, start/end time) are not compared',
]
KINDS = ['ParameterConfig', 'MetricInformation', 'StudyConfig', 'ProblemStatement',
         'Measurement', 'Trial', 'TrialSuggestion', 'MetadataDelta', 'SuggestRequest',
         'SuggestDecision', 'EarlyStopRequest', 'EarlyStopDecisions']
SERVICE = ['Service:study', 'Service:trial-created', 'Service:trial-lifecycle']
EDITED = ['Edited:StudyConfig', 'Edited:ProblemStatement', 'Service:study-edited']
# effects of edit ops that must have been exercised (and compared) at least once
EDIT_EFFECTS = ['metadata-entry-deleted', 'metadata-namespace-emptied', 'metadata-object-replaced',
                'metadata-entry-changed', 'metadata-entry-added', 'parameter-removed',
                'parameter-added', 'child-parameter-added', 'metric-removed', 'metric-added',
                'metric-goal-flipped', 'algorithm-changed:to-default', 'algorithm-changed:to-other',
                'noise-changed:to-default', 'stopping-config-set', 'stopping-config-cleared',
                'endpoint-changed', 'endpoint-cleared']
REQUIRED_COUNTERS = (['shards_under_non_utc_time_zone'] + ['roundtrips:' + k for k in KINDS]
                     + ['reconversions_compared', 'wire_reparse_compared',
                        'service_readbacks:study', 'service_readbacks:trial-created',
                        'service_readbacks:trial-lifecycle',
                        'seen:default:falsy', 'seen:elapsed:fractional', 'seen:depth>=2',
                        'seen:depth>=3', 'seen:multi-parent-values', 'seen:metadata:proto',
                        'seen:metadata:ns-separator', 'seen:time:microsecond-fraction',
                        'seen:trial:INFEASIBLE', 'seen:trial:STOPPING', 'seen:safety:zero',
                        'custom_param_refusals', 'strict_validations']
                     + ['edited_resends_compared:' + k for k in EDITED]
                     + ['edited_second_conversions_compared']
                     + ['seen:edit:' + e for e in EDIT_EFFECTS])
MIN_DISTINCT = {'quick': 1500, 'thorough': 30000}

# schedule: weight of each kind in the case index cycle
SCHEDULE = (['StudyConfig'] * 4 + ['ParameterConfig'] * 3 + ['Trial'] * 4
            + ['Measurement'] * 2 + ['ProblemStatement'] * 2 + ['MetricInformation']
            + ['TrialSuggestion'] + ['MetadataDelta'] * 2 + ['SuggestRequest']
            + ['SuggestDecision'] + ['EarlyStopRequest'] + ['EarlyStopDecisions'] * 2
            + SERVICE + ['Edited:StudyConfig'] * 2 + ['Edited:ProblemStatement', 'Service:study-edited'])


def plan(tier, seed):
  return {'shards': 12 if tier == 'quick' else 16,
          'budget_s': 40 if tier == 'quick' else 900}


# ---------------------------------------------------------------------------
# shape abstraction of a description
# ---------------------------------------------------------------------------
def _shape(d, depth=0):
  if isinstance(d, dict):
    return {k: _shape(v, depth + 1) for k, v in d.items()
            if k not in ('name', 'key', 'guid', 'via')}
  if isinstance(d, list):
    shapes = [_shape(v, depth + 1) for v in d]
    if all(not isinstance(s, (dict, list)) for s in shapes):
      return sorted(set(map(str, shapes)))
    return shapes
  if d is None or isinstance(d, bool):
    return repr(d)
  if isinstance(d, str):
    if d == '':
      return 's:empty'
    if d in ('nan', 'inf', '-inf'):
      return 's:' + d
    if any(c in d for c in ':\\/ \n\t'):
      return 's:sep'
    return 's:ascii' if d.isascii() else 's:unicode'
  if isinstance(d, int):
    return 'i:0' if d == 0 else ('i:big' if abs(d) >= 2 ** 31 else ('i:neg' if d < 0 else 'i:pos'))
  if isinstance(d, float):
    if d == 0:
      return 'f:-0' if math.copysign(1, d) < 0 else 'f:0'
    if d == math.floor(d):
      return 'f:integral'
    return 'f:tiny' if abs(d) < 1e-5 else ('f:neg' if d < 0 else 'f:frac')
  return type(d).__name__


def _leaves(c):
  if isinstance(c, dict):
    return sum(_leaves(v) for v in c.values())
  if isinstance(c, list):
    return sum(_leaves(v) for v in c)
  return 1


def _walk(c, fn):
  if isinstance(c, dict):
    for k, v in c.items():
      fn(k, v)
      _walk(v, fn)
  elif isinstance(c, list):
    for v in c:
      _walk(v, fn)


def _md_key(k):
  """Parses a canonical metadata key; returns (ns list, key) or None."""
  if not (isinstance(k, str) and k.startswith('[[')):
    return None
  try:
    ns, key = json.loads(k)
    if isinstance(ns, list) and isinstance(key, str):
      return ns, key
  except (ValueError, TypeError):
    pass
  return None


def observe(ctx, kind, cx):
  """Counts which input classes the canonical form of x actually contains."""
  feats = set()

  def fn(k, v):
    if k == '@children' and v:
      feats.add('conditional')
    if k == 'default' and v is not None and not v[1]:
      feats.add('default:falsy')
    if k == 'elapsed' and isinstance(v, dict):
      s = v['__secs__']
      if s != math.floor(s):
        feats.add('elapsed:fractional')
    if k in ('creation_time', 'completion_time') and isinstance(v, dict):
      if v['__us__'] % 10 ** 6:
        feats.add('time:microsecond-fraction')
    if k == 'safety_threshold' and v is not None and v == 0:
      feats.add('safety:zero')
    if k == 'min_safe_fraction' and v is not None and v == 0:
      feats.add('min-safe-fraction:zero')
    m = _md_key(k)
    if m:
      if isinstance(v, str) and v.startswith('any:'):
        feats.add('metadata:proto')
      if v == 's:':
        feats.add('metadata:empty-string')
      if any(':' in comp for comp in m[0]):
        feats.add('metadata:ns-separator')
      if any(comp.endswith('\\') for comp in m[0]):
        feats.add('metadata:ns-trailing-backslash')
      if len(m[0]) >= 2:
        feats.add('metadata:ns-depth>=2')
    if k == 'parameters' and isinstance(v, dict):
      for pv in v.values():
        if pv[0] == 'n' and pv[1] == 0:
          feats.add('pvalue:zero')
        if pv[0] == 'n' and isinstance(pv[1], float) and not math.isfinite(pv[1]):
          feats.add('pvalue:nonfinite')
        if pv[0] == 's' and pv[1] == '':
          feats.add('pvalue:empty-string')
    if k == 'metrics' and isinstance(v, dict):
      for mv in v.values():
        if isinstance(mv, float) and mv == 0:
          feats.add('metric:zero')
        if isinstance(mv, float) and mv != mv:
          feats.add('metric:nan')
  _walk(cx, fn)
  spaces = []
  if kind == 'ParameterConfig':
    spaces.append({cx['name']: cx})
  _walk(cx, lambda k, v: spaces.append(v) if k == 'space' else None)
  for sp in spaces:
    d = L.space_depth(sp)
    for j in range(1, d + 1):
      feats.add('depth>=%d' % j)
    sf = set()
    L.space_features(sp, sf)
    feats.update(f for f in sf if f.startswith(('kind:', 'scale:', 'ext:', 'multi')))
  if kind == 'Trial':
    st = cx['status']
    if cx['infeasible']:
      st = 'INFEASIBLE'
    feats.add('trial:' + st)
  for f in feats:
    ctx.count('seen:' + f)
  return feats


# ---------------------------------------------------------------------------
# classification of differences into abstract mechanisms
# ---------------------------------------------------------------------------
def classify(kind, diffs, cx, prefix='roundtrip-mismatch'):
  """Maps each difference to a mechanism id computed from its shape."""
  out = {}
  # metadata items whose namespace has a component ending in a backslash and that
  # did not come back where they were sent: (key, value) pairs
  lost = set()
  for path, a, b in diffs:
    m = _md_key(path[-1]) if path and isinstance(path[-1], str) else None
    if m and a != '<absent>' and any(comp.endswith('\\') for comp in m[0]):
      lost.add((m[1], a))
  for path, a, b in diffs:
    keys = [p for p in path if isinstance(p, str)]
    last = keys[-1] if keys else ''
    structural = [k for k in keys if k in (
        'default', 'elapsed', 'completion_time', 'creation_time', 'predicted', 'metadata',
        'on_study', 'on_trials', '@children', 'scale', 'external', 'bounds', 'feasible',
        'type', 'steps', 'metrics', 'parameters', 'final_measurement', 'measurements',
        'safety_threshold', 'min_safe_fraction', 'goal', 'algorithm', 'noise', 'stopping',
        'endpoint', 'id', 'description', 'assigned_worker', 'status', 'is_requested',
        'infeasible', 'infeasibility_reason', 'count', 'checkpoint_dir', 'trial_ids',
        'guid', 'max_trial_id', 'reason', 'should_stop', 'suggestions', 'decisions',
        'space')]
    leafkey = structural[-1] if structural else last
    mech = None
    if leafkey == 'default' and b is None and isinstance(a, list) and not a[1]:
      mech = 'param-default-dropped:falsy-value'
    elif leafkey == 'elapsed' and isinstance(a, dict) and isinstance(b, dict) \
        and '__secs__' in a and '__secs__' in b \
        and a['__secs__'] != b['__secs__'] and b['__secs__'] == math.floor(a['__secs__']):
      mech = 'measurement-elapsed-fraction-dropped:nanos-ignored'
    elif leafkey == '@children' and b == '<absent>' and keys.count('@children') >= 2:
      mech = 'child-parameters-lost:depth>=2'
    elif leafkey == 'completion_time' and kind in ('Trial', 'Service:trial-created') \
        and isinstance(cx, dict) and cx.get('infeasible'):
      mech = 'trial-completion-time-lost:infeasible'
    elif leafkey == 'predicted' and a is None and isinstance(b, dict):
      mech = 'earlystop-predicted-measurement:none-becomes-empty'
    elif any(k in ('metadata', 'on_study', 'on_trials') for k in keys):
      m = _md_key(last)
      if m and a != '<absent>' and any(comp.endswith('\\') for comp in m[0]):
        # sent under a namespace with a component ending in '\\', not found there
        mech = 'metadata-namespace-corrupted:component-ends-with-backslash'
      elif m and (m[1], b) in lost:
        # ... and the very same (key, value) surfaced under another namespace
        mech = 'metadata-namespace-corrupted:component-ends-with-backslash'
      else:
        mech = f'{prefix}:{kind}:metadata'
    if mech is None:
      mech = f'{prefix}:{kind}:{leafkey}'
    out.setdefault(mech, []).append({'path': list(map(str, path)), 'x': a, 'back': b})
  return out


def _oneline(s, n=300):
  return ' '.join(str(s).split())[:n]


def report(ctx, kind, mechs, case, what):
  for mech, ds in sorted(mechs.items()):
    d0 = ds[0]
    ctx.violation(
        mech,
        _oneline(f'{kind}: {what}: at {"/".join(d0["path"])} sent {d0["x"]!r} got '
                 f'{d0["back"]!r} ({len(ds)} difference(s) of this kind)'),
        case, {'differences': ds[:6]})


# ---------------------------------------------------------------------------
# M1..M3 on one value
# ---------------------------------------------------------------------------
def check_value(ctx, kind, desc, index):
  case = {'kind': kind, 'desc': desc, 'index': index}
  try:
    x = L.BUILDERS[kind](desc)
  except (ValueError, TypeError) as e:
    # the description is not a legal pyvizier value (constructor refused it)
    ctx.count('descriptions_refused_by_constructor')
    ctx.note(f'constructor refused a {kind} description: {type(e).__name__}: {str(e)[:120]}')
    return
  to_proto, from_proto = L.converters()[kind]
  canon = L.CANON[kind]
  cx = canon(x)
  ctx.case([kind, _shape(desc)], nontrivial=_leaves(cx) >= 6)
  observe(ctx, kind, cx)
  try:
    p1 = to_proto(x)
  except Exception as e:  # pylint: disable=broad-except
    ctx.violation(f'to_proto-raised:{kind}:{type(e).__name__}',
                  _oneline(f'{kind}: to_proto raised {type(e).__name__}: {e}'), case)
    return
  try:
    x2 = from_proto(p1)
  except Exception as e:  # pylint: disable=broad-except
    ctx.violation(f'from_proto-raised:{kind}:{type(e).__name__}',
                  _oneline(f'{kind}: from_proto(to_proto(x)) raised {type(e).__name__}: {e}'),
                  case, {'proto': L.proto_text(p1)})
    return
  cx2 = canon(x2)
  ctx.count('roundtrips:' + kind)
  diffs = L.diff(cx, cx2)
  mechs = classify(kind, diffs, cx)
  if mechs:
    report(ctx, kind, mechs, case, 'from_proto(to_proto(x)) != x')
  else:
    ctx.count('roundtrips_equal:' + kind)
  # ---- M2 second conversion ------------------------------------------------
  try:
    p2 = to_proto(x2)
  except Exception as e:  # pylint: disable=broad-except
    ctx.violation(f'second-to_proto-raised:{kind}:{type(e).__name__}',
                  _oneline(f'{kind}: to_proto(from_proto(to_proto(x))) raised {type(e).__name__}: {e}'),
                  case)
    return
  ctx.count('reconversions_compared')
  verdict = L.protos_compare(p1, p2)
  if verdict == 'identical-up-to-metadata-order':
    ctx.count('reconversions_identical_up_to_metadata_order')
  elif verdict == 'different':
    if mechs:
      # same root cause as the value loss already reported for this case
      ctx.count('reconversion_differences_attributed_to_reported_value_loss')
    else:
      ctx.violation(f'second-conversion-differs:{kind}',
                    f'{kind}: to_proto(from_proto(to_proto(x))) is not identical to to_proto(x)',
                    case, {'first': L.proto_text(p1), 'second': L.proto_text(p2)})
  # ---- strict validation accepts what the library itself produced --------------
  if kind == 'ParameterConfig':
    ctx.count('strict_validations')
    try:
      from_proto(p1, strict_validation=True)
    except ValueError as e:
      if mechs:
        ctx.count('strict_validation_rejections_attributed_to_reported_value_loss')
      else:
        ctx.violation('strict-validation-rejects-own-proto:ParameterConfig',
                      _oneline('ParameterConfigConverter.from_proto(to_proto(x), strict_validation=True) '
                               f'raised although the documented condition from_proto(p).to_proto == p is '
                               f'what the property demands: {e}'), case)
  # ---- M3 the real wire bytes ------------------------------------------------
  try:
    if isinstance(p1, (list, tuple)):
      pw = [type(m).FromString(m.SerializeToString()) for m in p1]
    else:
      pw = type(p1).FromString(p1.SerializeToString())
    cx3 = canon(from_proto(pw))
  except Exception as e:  # pylint: disable=broad-except
    ctx.violation(f'wire-reparse-raised:{kind}:{type(e).__name__}',
                  f'{kind}: from_proto(parse(serialize(to_proto(x)))) raised {type(e).__name__}', case)
    return
  ctx.count('wire_reparse_compared')
  d3 = L.diff(cx2, cx3)
  if d3:
    m3 = classify(kind, d3, cx, prefix='in-memory-vs-wire-differs')
    report(ctx, kind, m3, case, 'from_proto of the in-memory message differs from from_proto of its wire bytes')


# ---------------------------------------------------------------------------
# M4 through-service slices
# ---------------------------------------------------------------------------
class Service:
  """One in-process servicer on an in-memory SQLite datastore per shard."""

  def __init__(self, ctx):
    from vizier._src.service import vizier_service
    self.servicer = vizier_service.VizierServicer(database_url='sqlite:///:memory:')
    self.owner = f'owners/c09-{ctx.seed}-{ctx.shard}'
    self.n = 0
    self.study = None
    self.study_uses = 0

  def create_study(self, spec, label):
    from vizier._src.service import study_pb2, vizier_service_pb2
    self.n += 1
    st = self.servicer.CreateStudy(vizier_service_pb2.CreateStudyRequest(
        parent=self.owner,
        study=study_pb2.Study(display_name=f'{label}-{self.n}', study_spec=spec)))
    return st.name

  def plain_study(self):
    """A study with a minimal spec, renewed every 40 uses."""
    if self.study is None or self.study_uses >= 40:
      vz = L._vz()  # pylint: disable=protected-access
      sc = vz.StudyConfig(metric_information=[
          vz.MetricInformation(name='obj', goal=vz.ObjectiveMetricGoal.MAXIMIZE)])
      sc.search_space.root.add_float_param('x', 0.0, 1.0)
      self.study = self.create_study(sc.to_proto(), 'plain')
      self.study_uses = 0
    self.study_uses += 1
    return self.study


def _subset(c, keys):
  return {k: c[k] for k in keys}


def check_service(ctx, svc, kind, desc, index):
  from vizier._src.pyvizier.oss import proto_converters as pc
  from vizier._src.service import vizier_service_pb2 as vs
  vz = L._vz()  # pylint: disable=protected-access
  case = {'kind': kind, 'desc': desc, 'index': index}
  s = svc.servicer
  if kind == 'Service:study':
    try:
      x = L.build_study_config(desc)
    except (ValueError, TypeError) as e:
      ctx.count('descriptions_refused_by_constructor')
      ctx.note(f'constructor refused a StudyConfig description: {type(e).__name__}: {str(e)[:120]}')
      return
    cx = L.canon_study_config(x)
    ctx.case([kind, _shape(desc)], nontrivial=_leaves(cx) >= 6)
    observe(ctx, 'StudyConfig', cx)
    name = svc.create_study(x.to_proto(), 'cfg')
    got = s.GetStudy(vs.GetStudyRequest(name=name))
    cx2 = L.canon_study_config(vz.StudyConfig.from_proto(got.study_spec))
    ctx.count('service_readbacks:study')
    mechs = classify(kind, L.diff(cx, cx2), cx, prefix='service-readback-mismatch')
    if mechs:
      report(ctx, kind, mechs, case, 'StudyConfig read back with GetStudy differs from the one created')
    else:
      ctx.count('service_readbacks_equal:study')
    return
  x = L.build_trial(desc)
  cx = L.canon_trial(x)
  ctx.case([kind, _shape(desc)], nontrivial=_leaves(cx) >= 6)
  observe(ctx, 'Trial', cx)
  study = svc.plain_study()
  if kind == 'Service:trial-created':
    created = s.CreateTrial(vs.CreateTrialRequest(parent=study, trial=pc.TrialConverter.to_proto(x)))
    got = s.GetTrial(vs.GetTrialRequest(name=created.name))
    cx2 = L.canon_trial(pc.TrialConverter.from_proto(got))
    ctx.count('service_readbacks:trial-created')
    keys = ['parameters', 'metadata', 'measurements']
    if cx['status'] == 'COMPLETED' and not cx['infeasible']:
      keys += ['final_measurement']          # SUCCEEDED is stored as given
    mechs = classify(kind, L.diff(_subset(cx, keys), _subset(cx2, keys)), cx,
                     prefix='service-readback-mismatch')
    if mechs:
      report(ctx, kind, mechs, case, 'Trial read back with GetTrial differs from the one given to CreateTrial')
    else:
      ctx.count('service_readbacks_equal:trial-created')
    return
  # ---- lifecycle: the user-visible write path of measurements -----------------
  bare = vz.Trial(parameters=x.parameters, metadata=x.metadata)
  created = s.CreateTrial(vs.CreateTrialRequest(parent=study, trial=pc.TrialConverter.to_proto(bare)))
  op = s.SuggestTrials(vs.SuggestTrialsRequest(parent=study, suggestion_count=1,
                                                client_id=f'w{index}'))
  resp = vs.SuggestTrialsResponse.FromString(op.response.value)
  if not op.done or len(resp.trials) != 1 or resp.trials[0].name != created.name:
    ctx.inconclusive_reason('service slice: SuggestTrials did not hand out the trial just created')
    return
  for m in x.measurements:
    s.AddTrialMeasurement(vs.AddTrialMeasurementRequest(
        trial_name=created.name, measurement=pc.MeasurementConverter.to_proto(m)))
  req = vs.CompleteTrialRequest(name=created.name)
  final = x.final_measurement
  expect_final = None
  if final is not None and final.metrics:
    req.final_measurement.CopyFrom(pc.MeasurementConverter.to_proto(final))
    expect_final = L.canon_measurement(final)
  elif x.measurements and not x.infeasible:
    expect_final = L.canon_measurement(x.measurements[-1])
  elif not x.infeasible:
    # nothing to complete with: complete as infeasible instead (documented requirement)
    req.trial_infeasible = True
    req.infeasible_reason = 'no measurement'
  if x.infeasible:
    req.trial_infeasible = True
    req.infeasible_reason = x.infeasibility_reason
  s.CompleteTrial(req)
  got = pc.TrialConverter.from_proto(s.GetTrial(vs.GetTrialRequest(name=created.name)))
  cx2 = L.canon_trial(got)
  ctx.count('service_readbacks:trial-lifecycle')
  want = {'parameters': cx['parameters'], 'metadata': cx['metadata'],
          'measurements': cx['measurements'], 'final_measurement': expect_final,
          'infeasible': bool(req.trial_infeasible),
          'infeasibility_reason': req.infeasible_reason if req.trial_infeasible else None}
  mechs = classify(kind, L.diff(want, _subset(cx2, list(want))), cx,
                   prefix='service-readback-mismatch')
  if mechs:
    report(ctx, kind, mechs, case,
           'Trial written with CreateTrial/AddTrialMeasurement/CompleteTrial differs when read back')
  else:
    ctx.count('service_readbacks_equal:trial-lifecycle')


# ---------------------------------------------------------------------------
# M7 received, edited through the public mutators, sent again
# ---------------------------------------------------------------------------
_EDIT_SUBJECT = {'Edited:StudyConfig': 'StudyConfig', 'Edited:ProblemStatement': 'ProblemStatement',
                 'Service:study-edited': 'StudyConfig'}


def _wire(p):
  return type(p).FromString(p.SerializeToString())


def classify_edited(kind, diffs, cx, effects):
  """Mechanism ids for differences between an edited object and what arrived.

  The anomaly class is derived from which edit the difference undoes: an item / parameter /
  metric / stopping config that the sender removed and that arrived nevertheless, a change or
  an addition that did not arrive; everything else keeps the generic per-field id.
  """
  subject = _EDIT_SUBJECT[kind]
  prefix = 'received-then-edited-mismatch'
  did = {}
  for name, what in effects:
    did.setdefault(name, set()).add(what)
  out = {}
  for mech, ds in classify(kind, diffs, cx, prefix=prefix).items():
    for d in ds:
      m = mech
      path, a, b = d['path'], d['x'], d['back']
      if mech.startswith(prefix):
        top = path[0] if path else ''
        two = len(path) == 2
        if top == 'metadata' and two and a == '<absent>' and path[1] in did.get('metadata-entry-deleted', ()):
          m = f'received-then-edited:{subject}:metadata-entry-deleted-but-resent'
        elif top == 'metadata' and two and b == '<absent>' and path[1] in did.get('metadata-entry-added', ()):
          m = f'received-then-edited:{subject}:metadata-entry-added-but-not-sent'
        elif top == 'metadata' and two and path[1] in did.get('metadata-entry-changed', ()):
          m = f'received-then-edited:{subject}:metadata-entry-change-lost'
        elif top == 'space' and two and a == '<absent>' and path[1] in did.get('parameter-removed', ()):
          m = f'received-then-edited:{subject}:parameter-removed-but-resent'
        elif top == 'space' and two and b == '<absent>' and path[1] in did.get('parameter-added', ()):
          m = f'received-then-edited:{subject}:parameter-added-but-not-sent'
        elif top == 'metrics' and two and a == '<absent>' and path[1] in did.get('metric-removed', ()):
          m = f'received-then-edited:{subject}:metric-removed-but-resent'
        elif top == 'metrics' and two and b == '<absent>' and path[1] in did.get('metric-added', ()):
          m = f'received-then-edited:{subject}:metric-added-but-not-sent'
        elif path == ['stopping'] and a is None and b is not None and 'stopping-config-cleared' in did:
          m = f'received-then-edited:{subject}:stopping-config-cleared-but-resent'
        elif path == ['stopping'] and b is None and a is not None and 'stopping-config-set' in did:
          m = f'received-then-edited:{subject}:stopping-config-set-but-not-sent'
        elif path == ['algorithm'] and 'algorithm-changed' in did:
          m = f'received-then-edited:{subject}:algorithm-change-lost:' + sorted(did['algorithm-changed'])[0]
        elif path == ['noise'] and 'noise-changed' in did:
          m = f'received-then-edited:{subject}:noise-change-lost:' + sorted(did['noise-changed'])[0]
        elif path == ['endpoint'] and ('endpoint-changed' in did or 'endpoint-cleared' in did):
          m = f'received-then-edited:{subject}:endpoint-change-lost'
      out.setdefault(m, []).append(d)
  return out


def check_edited(ctx, svc, kind, desc, index):
  vz = L._vz()  # pylint: disable=protected-access
  from vizier._src.service import vizier_service_pb2 as vs
  case = {'kind': kind, 'desc': desc, 'index': index}
  subject = _EDIT_SUBJECT[kind]
  try:
    x = L.BUILDERS[subject](desc['base'])
  except (ValueError, TypeError) as e:
    ctx.count('descriptions_refused_by_constructor')
    ctx.note(f'constructor refused a {subject} description: {type(e).__name__}: {str(e)[:120]}')
    return
  to_proto, from_proto = L.converters()[subject]
  canon = L.CANON[subject]

  if kind == 'Service:study-edited':
    def send(obj):
      name = svc.create_study(to_proto(obj), 'edit')
      got = svc.servicer.GetStudy(vs.GetStudyRequest(name=name))
      return None, from_proto(got.study_spec)
  else:
    def send(obj):
      p = to_proto(obj)
      return p, from_proto(_wire(p))

  observe(ctx, subject, canon(x))
  try:
    _, y = send(x)                       # y: the object as a receiver holds it
  except Exception as e:  # pylint: disable=broad-except
    # the plain conversion of this value fails: that is M1's / M4's finding, not this route's
    ctx.count('edited_cases_skipped_because_plain_conversion_raised')
    ctx.note(f'{kind}: plain conversion raised {type(e).__name__}: {str(e)[:120]}')
    return
  all_effects = []
  reported = False
  p_sent = None
  for r, ops in enumerate(desc['rounds']):
    effects = L.apply_edits(y, ops)
    all_effects.extend(effects)
    want = canon(y)
    try:
      p_sent, z = send(y)
    except Exception as e:  # pylint: disable=broad-except
      ctx.violation(f'edited-resend-raised:{kind}:{type(e).__name__}',
                    _oneline(f'{kind}: converting / sending a received and then edited {subject} raised '
                             f'{type(e).__name__}: {e} (round {r}, edits {effects!r})'), case)
      return
    ctx.count('edited_resends_compared:' + kind)
    if any(n != 'edit-refused' for n, _ in effects):
      ctx.count('edited_resends_compared_with_effective_edit')
    for n, w in effects:
      ctx.count('seen:edit:' + n + (':' + w if n in ('algorithm-changed', 'noise-changed') else ''))
    mechs = classify_edited(kind, L.diff(want, canon(z)), want, effects)
    if mechs:
      reported = True
      report(ctx, kind, mechs, case,
             f'a received {subject} edited through its public mutators (round {r}: '
             f'{sorted(set(n for n, _ in effects))}) and sent again does not arrive as it was sent')
    else:
      ctx.count('edited_resends_equal:' + kind)
    y = z
  ctx.case([kind, _shape(desc)],
           nontrivial=any(n != 'edit-refused' for n, _ in all_effects) and _leaves(canon(y)) >= 6)
  if p_sent is not None:
    try:
      p_again = to_proto(y)
    except Exception as e:  # pylint: disable=broad-except
      ctx.violation(f'second-to_proto-raised:{kind}:{type(e).__name__}',
                    _oneline(f'{kind}: to_proto of the re-received edited {subject} raised '
                             f'{type(e).__name__}: {e}'), case)
      return
    ctx.count('edited_second_conversions_compared')
    if L.protos_compare(p_sent, p_again) == 'different':
      if reported:
        ctx.count('reconversion_differences_attributed_to_reported_value_loss')
      else:
        ctx.violation(f'second-conversion-differs:{kind}',
                      f'{kind}: to_proto(from_proto(to_proto(edited))) is not identical to to_proto(edited)',
                      case, {'first': L.proto_text(p_sent), 'second': L.proto_text(p_again)})


# ---------------------------------------------------------------------------
# M5 documented refusal
# ---------------------------------------------------------------------------
def check_custom_refusal(ctx):
  from vizier._src.pyvizier.oss import proto_converters as pc
  vz = L._vz()  # pylint: disable=protected-access
  for dv in (None, 'x', 0.0):
    cfg = vz.ParameterConfig.factory('custom', default_value=dv)
    try:
      pc.ParameterConfigConverter.to_proto(cfg)
    except ValueError:
      ctx.count('custom_param_refusals')
      continue
    except Exception as e:  # pylint: disable=broad-except
      ctx.violation(f'custom-param-wrong-exception:{type(e).__name__}',
                    'to_proto of a CUSTOM parameter raised something other than ValueError',
                    {'kind': 'CustomRefusal', 'default': dv})
      continue
    ctx.violation('custom-param-silently-converted',
                  'to_proto accepted a CUSTOM parameter although no wire form exists',
                  {'kind': 'CustomRefusal', 'default': dv})


# ---------------------------------------------------------------------------
# driver
# ---------------------------------------------------------------------------
def gen_case(rng, kind):
  hostile = rng.random() < 0.5
  if kind in EDITED:
    return L.gen_edited(rng, hostile, study=_EDIT_SUBJECT[kind] == 'StudyConfig')
  if kind == 'Service:study':
    return L.gen_study_config(rng, hostile)
  if kind.startswith('Service:trial'):
    d = L.gen_trial(rng, hostile)
    if kind == 'Service:trial-lifecycle':
      # the write path needs a measurement with metrics to complete with
      d['state'] = rng.choice(['SUCCEEDED', 'SUCCEEDED', 'INFEASIBLE', 'INFEASIBLE_WITH_MEASUREMENT'])
      d['stopping_reason'] = None
      d['completion_time'] = None
      d['infeasibility_reason'] = (rng.choice(['', 'bad', 'é']) if d['state'] != 'SUCCEEDED' else None)
      d['final_measurement'] = (L.gen_measurement(rng, hostile)
                                if d['state'] != 'INFEASIBLE' else None)
      if d['final_measurement'] is not None and not d['final_measurement']['metrics']:
        d['final_measurement']['metrics'] = [{'name': 'obj', 'value': 0.0, 'std': None}]
    return d
  return L.GENERATORS[kind](rng, hostile)


def run_one(ctx, svc, kind, desc, index):
  if kind.startswith('Edited:'):
    check_edited(ctx, svc, kind, desc, index)
  elif kind.startswith('Service:'):
    try:
      if kind == 'Service:study-edited':
        check_edited(ctx, svc, kind, desc, index)
      else:
        check_service(ctx, svc, kind, desc, index)
    except Exception as e:  # pylint: disable=broad-except
      # a legal value written through the public RPCs must be storable and readable
      ctx.violation(f'service-slice-raised:{kind}:{type(e).__name__}',
                    _oneline(f'{kind}: writing / reading the value through the servicer raised '
                             f'{type(e).__name__}: {e}'),
                    {'kind': kind, 'desc': desc, 'index': index})
  elif kind == 'CustomRefusal':
    check_custom_refusal(ctx)
  else:
    check_value(ctx, kind, desc, index)


TIME_ZONES = ['UTC', 'JST-9', 'PST8', 'CET-1CEST,M3.5.0,M10.5.0/3', 'UTC', 'NPT-5:45']


def set_time_zone(tz):
  import time
  os.environ['TZ'] = tz
  time.tzset()


def _wrap_violation(ctx, tz):
  """Every recorded case carries the process time zone and the description as one JSON string.

  (The evidence writer stringifies anything nested deeper than 12 levels, which a description
  with a conditional tree of depth >= 2 exceeds: `desc_json` keeps the case replayable.)
  """
  raw_violation = ctx.violation

  def violation_with_tz(mech, what, case, witness=None):
    if isinstance(case, dict):
      case = dict(case, tz=tz)
      if case.get('desc') is not None:
        case['desc_json'] = json.dumps(case['desc'], default=repr)
    raw_violation(mech, f'[TZ={tz}] {what}', case, witness)
  ctx.violation = violation_with_tz


def run_shard(ctx):
  import logging
  from absl import logging as absl_logging
  absl_logging.set_verbosity(absl_logging.ERROR)
  logging.getLogger().setLevel(logging.ERROR)
  n_cases = 60000 if ctx.tier == 'quick' else 3000000
  # the process time zone is part of the environment a conversion runs in: shards run
  # under different zones (POSIX TZ strings, no tzdata needed), incl. one with DST rules
  tz = TIME_ZONES[(ctx.shard + ctx.seed) % len(TIME_ZONES)]
  set_time_zone(tz)
  _wrap_violation(ctx, tz)
  ctx.count('shards_under_time_zone:' + tz)
  if tz != 'UTC':
    ctx.count('shards_under_non_utc_time_zone')
  if ctx.tier == 'thorough':
    L.CFG.update({'max_params': 8, 'depths_hostile': [0, 1, 1, 2, 3, 4],
                  'depths_clean': [0, 0, 1, 1], 'max_md': 9, 'max_measurements': 6})
  svc = Service(ctx)
  if ctx.shard == 0:
    check_custom_refusal(ctx)
  sampled = 0
  for i in range(n_cases):
    if not ctx.mine(i):
      continue
    if ctx.out_of_time():
      ctx.note(f'time budget reached at case {i}')
      break
    rng = ctx.rng(i)
    kind = SCHEDULE[rng.randrange(len(SCHEDULE))]
    desc = gen_case(rng, kind)
    run_one(ctx, svc, kind, desc, i)
    if sampled < 3 and kind in ('StudyConfig', 'Trial', 'Measurement') and i >= 3 * ctx.nshards:
      sampled += 1
      ctx.sample({'kind': kind, 'desc': json.loads(json.dumps(desc, default=repr))})


def replay(ctx, case):
  import logging
  from absl import logging as absl_logging
  absl_logging.set_verbosity(absl_logging.ERROR)
  logging.getLogger().setLevel(logging.ERROR)
  kind = case['kind']
  tz = case.get('tz', 'UTC')
  set_time_zone(tz)
  _wrap_violation(ctx, tz)
  desc = json.loads(case['desc_json']) if case.get('desc_json') else case.get('desc')
  svc = Service(ctx) if kind.startswith('Service:') else None
  run_one(ctx, svc, kind, desc, case.get('index', 0))
