"""C10 — metadata is an exact last-writer-wins key-value store across namespaces.

Three monitors:
 A. namespace codec: for namespace tuples over an adversarial alphabet,
    decode(encode(ns)) == ns (icontract post-condition on the real
    Namespace.encode, also firing through metadata_util) and no two distinct
    namespaces share an encoding (exhaustive for tuples of length <= 3 over the
    8-component alphabet).
 B. store: sequences of user study/trial updates (clients API), algorithm-issued
    MetadataDelta (harness algorithm behind the real service), trial completion
    and failed updates (missing trial) on both datastores; after *every* update
    the complete {(namespace tuple, key) -> value} maps of the study and of each
    trial read back through pyvizier are compared with a last-writer-wins model.
 C. InRamPolicySupporter: the same model for algorithm-issued deltas applied by
    the in-RAM supporter's SuggestTrials.
"""
import itertools
import json

PROPERTY = 'C10'
LEVEL = 'exploration'
RULE = ('A: all namespace tuples of length <=3 over {"", ":", "\\\\", "a", "é", "::", "\\\\:", ":\\\\"} (exhaustive, '
        '585 tuples) + random tuples up to length 5; B: sequences of 4..15 metadata operations (user study / user trial '
        '/ algorithm study / algorithm trial / failed update naming a missing trial / completion) over namespaces drawn '
        'from a 10-tuple pool, keys incl. "", values str (incl. "") or packed proto, RAM and in-memory SQLite. '
        'Non-trivial = sequence with >=1 overwrite of an existing (ns,key) and >=2 namespaces; distinct = hash of the '
        'op-kind sequence + namespace multiset.')
ASSUMPTIONS = [
    'values are compared as (kind, payload): str vs packed Any are distinct',
    'namespaces used in part B avoid components ending in a backslash (the codec finding of part A would otherwise '
    'mask store behaviour); part A covers them',
    'a failed update must raise at the client (RuntimeError) or carry error_details, and change nothing',
]
REQUIRED_COUNTERS = ['supporter_deltas_given_as_positioned_views', 'user_updates_given_as_positioned_views', 'namespaces_checked', 'encode_contract_evaluations', 'updates_applied', 'failed_updates_checked',
                     'readbacks_compared', 'overwrites', 'algorithm_deltas_applied', 'supporter_updates']
MIN_DISTINCT = {'quick': 150, 'thorough': 3000}

ALPHABET = ['', ':', '\\', 'a', 'é', '::', '\\:', ':\\']
NS_POOL = [(), ('a',), ('a', 'b'), ('',), ('', ''), (':',), ('a:b',), ('é', ':x'), ('b', 'a'), ('::', 'a')]
# ('a',)/'b' vs ()/'a:b' and ('a','b')/'k' vs ('a',)/'b:k' would collide in any scheme that joins namespace and key
KEYS = ['k', 'k2', '', 'ключ', 'a:b', 'b', 'b:k']
STR_VALUES = ['v1', 'v2', '', 'x:y', 'é']


def plan(tier, seed):
  return {'shards': 12 if tier == 'quick' else 16, 'budget_s': 60 if tier == 'quick' else 900}


class CodecBroken(Exception):
  pass


_contract_state = {'n': 0, 'installed': False, 'failures': []}


def install_contract():
  """icontract post-condition on the real Namespace.encode (counted)."""
  if _contract_state['installed']:
    return
  import icontract
  from vizier._src.pyvizier.shared import common

  def roundtrips(self, result):
    _contract_state['n'] += 1
    ok = tuple(common.Namespace.decode(result)) == tuple(self)
    if not ok:
      _contract_state['failures'].append(tuple(self))
    return True  # record, never abort what is being observed

  common.Namespace.encode = icontract.ensure(roundtrips, error=CodecBroken)(common.Namespace.encode)
  _contract_state['installed'] = True


def ns_mech(t):
  if any(c.endswith('\\') for c in t):
    return 'namespace-codec:component-ends-with-backslash'
  return 'namespace-codec:other'


def check_namespaces(ctx, tuples, tag):
  from vizier._src.pyvizier.shared import common
  seen = {}
  for t in tuples:
    ns = common.Namespace(t)
    enc = ns.encode()
    ctx.count('namespaces_checked')
    back = tuple(common.Namespace.decode(enc))
    if back != tuple(t):
      ctx.violation(ns_mech(t) + ':roundtrip', f'decode(encode({t!r})) == {back!r} (encoding {enc!r})',
                    {'part': 'A', 'tuple': list(t)})
    if enc in seen and seen[enc] != tuple(t):
      a, b = seen[enc], tuple(t)
      culprit = a if any(c.endswith('\\') for c in a) else b
      ctx.violation(ns_mech(culprit) + ':collision', f'namespaces {a!r} and {b!r} share the encoding {enc!r}',
                    {'part': 'A', 'tuple': list(a), 'other': list(b)})
    seen.setdefault(enc, tuple(t))
    ctx.case(['ns', len(t), sorted(set(t))], nontrivial=len(t) >= 1)


# ---------------------------------------------------------------------------
# part B
# ---------------------------------------------------------------------------
def flatten(md):
  from google.protobuf import any_pb2
  out = {}
  for ns, key, value in md.all_items():
    if isinstance(value, str):
      v = ['str', value]
    elif isinstance(value, any_pb2.Any):
      v = ['any', value.type_url, value.value.decode('latin1')]
    else:
      v = ['msg', type(value).__name__, value.SerializeToString().decode('latin1')]
    out[json.dumps([list(ns), key])] = v
  return out


def make_value(spec):
  from google.protobuf import any_pb2
  if spec[0] == 'str':
    return spec[1]
  return any_pb2.Any(type_url='type.googleapis.com/vv.Blob', value=spec[1].encode())


def model_value(spec):
  if spec[0] == 'str':
    return ['str', spec[1]]
  return ['any', 'type.googleapis.com/vv.Blob', spec[1]]


def build_md(entries, position=None):
  """Metadata holding `entries` (absolute namespaces). With `position` the returned object is
  a *view positioned at that namespace* of the same store (what `md.ns('tuner')` hands to a
  policy that keeps working inside its namespace): its absolute content is the same."""
  from vizier import pyvizier as vz
  md = vz.Metadata()
  for ns, key, spec in entries:
    md.abs_ns(ns)[key] = make_value(spec)
  if position is not None:
    return md.abs_ns(vz.Namespace(tuple(position)))
  return md


def pick_position(prng, entries):
  if not entries or prng.random() < 0.5:
    return None
  return list(prng.choice(entries)[0]) if prng.random() < 0.7 else ['elsewhere']


def gen_entries(rng):
  out = []
  for _ in range(rng.randint(1, 3)):
    ns = rng.choice(NS_POOL)
    spec = ['str', rng.choice(STR_VALUES)] if rng.random() < 0.7 else ['any', rng.choice(['blob', '', 'b2'])]
    out.append([list(ns), rng.choice(KEYS), spec])
  return out


def gen_sequence(rng):
  steps = [{'kind': 'suggest', 'count': 2, 'entry': {}}]
  for _ in range(rng.randint(4, 15)):
    r = rng.random()
    if r < 0.3:
      steps.append({'kind': 'user_study', 'entries': gen_entries(rng)})
    elif r < 0.55:
      steps.append({'kind': 'user_trial', 'trial': rng.choice([1, 2]), 'entries': gen_entries(rng)})
    elif r < 0.65:
      steps.append({'kind': 'user_missing_trial', 'trial': rng.choice([9007, 4242]), 'entries': gen_entries(rng)})
    elif r < 0.72:
      steps.append({'kind': 'mixed_missing', 'trial': rng.choice([9007, 4242]), 'entries': gen_entries(rng),
                    'study_entries': gen_entries(rng)})
    elif r < 0.88:
      # algorithm-issued delta through a suggest that needs the algorithm
      ent = {'study_md': [[rng.choice(['algo', 'user', 'a']), rng.choice(KEYS[:3]), rng.choice(STR_VALUES)]]}
      if rng.random() < 0.5:
        ent['trial_md'] = [[rng.choice([1, 2]), rng.choice(['algo', 'a']), rng.choice(KEYS[:3]), rng.choice(STR_VALUES)]]
      steps.append({'kind': 'algo', 'entry': ent})
    else:
      steps.append({'kind': 'complete', 'trial': rng.choice([1, 2])})
  return steps


def run_store_case(ctx, index, backend, steps):
  from vizier import pyvizier as vz
  from vizier._src.service import clients
  from vizier._src.service import vizier_client
  from vv import service as S
  ctl = S.Controller()
  mon = S.WriteMonitor()
  servicer = S.make_servicer(backend, ctl, mon)
  servicer.CreateStudy(S.build_request({'op': 'CreateStudy', 'owner': 'o', 'display': 's'})[1])
  sname = 'owners/o/studies/s'
  vc = vizier_client.VizierClient(study_resource_name=sname, client_id='w', service=servicer)
  study = clients.Study(vc)
  m_study = {}
  m_trials = {}
  n_suggest = 0
  overwrites = 0
  case = {'part': 'B', 'backend': backend, 'steps': steps, 'index': index}

  def apply(model, entries, algo=False):
    nonlocal overwrites
    for ns, key, spec in entries:
      k = json.dumps([list(ns), key])
      if k in model:
        overwrites += 1
      model[k] = model_value(spec)

  def readback(step_no, what):
    ctx.count('readbacks_compared')
    got = flatten(study.materialize_study_config().metadata)
    if got != m_study:
      diff = sorted(set(got.items() if False else [json.dumps([k, v]) for k, v in got.items()]) ^
                    set(json.dumps([k, v]) for k, v in m_study.items()))
      ctx.violation(f'study-metadata-mismatch:after-{what}', f'{backend} step {step_no} ({what}): study metadata read back '
                    f'differs from last-writer-wins model: {diff[:4]}', case)
      return False
    for t in study.trials().get():
      g = flatten(t.metadata)
      if g != m_trials.get(t.id, {}):
        ctx.violation(f'trial-metadata-mismatch:after-{what}', f'{backend} step {step_no} ({what}): trial {t.id} metadata '
                      f'{g} != model {m_trials.get(t.id, {})}', case)
        return False
    return True

  kinds = []
  for step_no, st in enumerate(steps):
    kind = st['kind']
    kinds.append(kind)
    if kind in ('suggest', 'algo'):
      n_suggest += 1
      ent = dict(st.get('entry') or {})
      ctl.plan.clear()
      ctl.plan.append(ent)
      # a fresh worker each time so that the algorithm is always reached
      trials = study.suggest(count=2 if kind == 'suggest' else 1, client_id=f'w{n_suggest}')
      ctl.plan.clear()
      for t in trials:
        m_trials.setdefault(t.id, {})
      base_n = int(m_study.get(json.dumps([['vvstub'], 'n']), ['str', '0'])[1])
      calls = int(m_study.get(json.dumps([['vvstub'], 'calls']), ['str', '0'])[1])
      delivered = 2 if kind == 'suggest' else 1
      m_study[json.dumps([['vvstub'], 'n'])] = ['str', str(base_n + delivered)]
      m_study[json.dumps([['vvstub'], 'calls'])] = ['str', str(calls + 1)]
      apply(m_study, [[[ns], k, ['str', v]] for ns, k, v in ent.get('study_md', [])])
      for tid, ns, k, v in ent.get('trial_md', []):
        apply(m_trials.setdefault(int(tid), {}), [[[ns], k, ['str', v]]])
      if kind == 'algo':
        ctx.count('algorithm_deltas_applied')
    elif kind == 'user_study':
      # every other update is handed over as a view positioned inside one of its namespaces
      pos = list(st['entries'][0][0]) if (step_no % 2 and st['entries']) else None
      if pos is not None:
        ctx.count('user_updates_given_as_positioned_views')
      study.update_metadata(build_md(st['entries'], pos))
      apply(m_study, st['entries'])
      ctx.count('updates_applied')
    elif kind == 'user_trial':
      pos = list(st['entries'][0][0]) if (step_no % 2 and st['entries']) else None
      if pos is not None:
        ctx.count('user_updates_given_as_positioned_views')
      clients.Trial(vc, st['trial']).update_metadata(build_md(st['entries'], pos))
      apply(m_trials.setdefault(st['trial'], {}), st['entries'])
      ctx.count('updates_applied')
    elif kind in ('user_missing_trial', 'mixed_missing'):
      ctx.count('failed_updates_checked')
      try:
        if kind == 'user_missing_trial':
          clients.Trial(vc, st['trial']).update_metadata(build_md(st['entries']))
        else:
          delta = vz.MetadataDelta(on_study=build_md(st['study_entries']),
                                   on_trials={st['trial']: build_md(st['entries'])})
          vc.update_metadata(delta)
        ctx.violation('failed-update-not-reported', f'{backend} step {step_no}: metadata update naming missing trial '
                      f'{st["trial"]} returned normally', case)
      except Exception as e:  # pylint: disable=broad-except
        if not isinstance(e, (RuntimeError, KeyError)) and type(e).__name__ not in ('LocalRpcError', '_InactiveRpcError'):
          ctx.violation(f'failed-update-wrong-exception:{type(e).__name__}',
                        f'{backend} step {step_no}: missing-trial update raised {type(e).__name__}: {e}', case)
    elif kind == 'complete':
      try:
        clients.Trial(vc, st['trial']).complete(vz.Measurement(metrics={'obj': 1.0}))
      except Exception:  # pylint: disable=broad-except
        pass  # already completed: allowed
    if not readback(step_no, kind):
      break
  for k_, d_ in mon.anomalies:
    ctx.violation(f'monitor:{k_}', f'{backend}: {k_} {d_}'[:300], case)
  ctx.count('overwrites', overwrites)
  nss = {json.dumps(e[0]) for s in steps for e in s.get('entries', [])}
  ctx.case([backend, kinds, sorted(nss)], nontrivial=overwrites > 0 and len(nss) >= 2)


class _DeltaPolicy:
  """Algorithm whose decision carries only a metadata delta."""

  def __init__(self, delta):
    self._delta = delta

  def suggest(self, request):
    from vizier import pythia
    return pythia.SuggestDecision([], self._delta)


def run_supporter_case(ctx, index):
  """Part C: InRamPolicySupporter stores deltas last-writer-wins."""
  from vizier import pyvizier as vz
  from vizier._src.pythia import local_policy_supporters
  rng = ctx.rng(index, 'supporter')
  prng = ctx.rng(index, 'supporter-position')
  problem = vz.ProblemStatement()
  problem.search_space.root.add_float_param('x', 0.0, 1.0)
  problem.metric_information.append(vz.MetricInformation('obj', goal=vz.ObjectiveMetricGoal.MAXIMIZE))
  sup = local_policy_supporters.InRamPolicySupporter(problem)
  sup.AddTrials([vz.Trial(parameters={'x': 0.1}), vz.Trial(parameters={'x': 0.2})])
  m_study, m_trials = {}, {1: {}, 2: {}}
  steps = []
  for _ in range(rng.randint(3, 10)):
    se = gen_entries(rng) if rng.random() < 0.7 else []
    te = {rng.choice([1, 2]): gen_entries(rng)} if rng.random() < 0.6 else {}
    steps.append([se, {str(k): v for k, v in te.items()}])
    pos_s, pos_t = pick_position(prng, se), {k: pick_position(prng, v) for k, v in te.items()}
    if pos_s is not None or any(v is not None for v in pos_t.values()):
      ctx.count('supporter_deltas_given_as_positioned_views')
    steps[-1].append([pos_s, {str(k): v for k, v in pos_t.items()}])
    delta = vz.MetadataDelta(on_study=build_md(se, pos_s),
                             on_trials={int(k): build_md(v, pos_t[k]) for k, v in te.items()})
    sup.SuggestTrials(_DeltaPolicy(delta), count=1)
    ctx.count('supporter_updates')
    for ns, key, spec in se:
      m_study[json.dumps([list(ns), key])] = model_value(spec)
    for k, v in te.items():
      for ns, key, spec in v:
        m_trials[int(k)][json.dumps([list(ns), key])] = model_value(spec)
    got = flatten(sup.GetStudyConfig().metadata)
    case = {'part': 'C', 'index': index, 'steps': steps}
    if got != m_study:
      ctx.violation('supporter-study-metadata-mismatch', f'InRamPolicySupporter study metadata {got} != model {m_study}', case)
      break
    bad = False
    for t in sup.GetTrials():
      if flatten(t.metadata) != m_trials[t.id]:
        ctx.violation('supporter-trial-metadata-mismatch', f'InRamPolicySupporter trial {t.id} metadata '
                      f'{flatten(t.metadata)} != model {m_trials[t.id]}', case)
        bad = True
    if bad:
      break
  ctx.case(['supporter', len(steps)], nontrivial=True)


def run_shard(ctx):
  install_contract()
  # ---- part A -----------------------------------------------------------------
  if ctx.shard == 0:
    tuples = [()]
    for L in (1, 2, 3):
      tuples.extend(itertools.product(ALPHABET, repeat=L))
    check_namespaces(ctx, tuples, 'exhaustive<=3')
    ctx.count('exhaustive_namespace_tuples', len(tuples))
  nA = 400 if ctx.tier == 'quick' else 20000
  rnd = []
  for i in range(nA):
    if not ctx.mine(i):
      continue
    rng = ctx.rng(i, 'ns')
    pool = ALPHABET + ['ab', 'x\\y', 'Z:', '\\\\', ' ', 'a\\:b:']
    rnd.append(tuple(rng.choice(pool) for _ in range(rng.randint(1, 5))))
  check_namespaces(ctx, rnd, 'random')
  # ---- part B / C -------------------------------------------------------------
  nB = 900 if ctx.tier == 'quick' else 40000
  for i in range(nB):
    if not ctx.mine(i):
      continue
    if ctx.out_of_time():
      ctx.note(f'time budget reached at sequence {i}')
      break
    rng = ctx.rng(i, 'store')
    if i % 6 == 5:
      run_supporter_case(ctx, i)
      continue
    backend = ['ram', 'sqlmem'][(i // ctx.nshards) % 2]
    steps = gen_sequence(rng)
    run_store_case(ctx, i, backend, steps)
    if i < ctx.nshards:
      ctx.sample({'backend': backend, 'steps': steps[:5]})
  ctx.count('encode_contract_evaluations', _contract_state['n'])
  for t in _contract_state['failures'][:50]:
    if not any(c.endswith('\\') for c in t):
      ctx.violation('namespace-codec:other:contract', f'Namespace.encode contract failed for {t!r} inside a workload',
                    {'part': 'A', 'tuple': list(t)})


def replay(ctx, case):
  install_contract()
  if case.get('part') == 'A':
    ts = [tuple(case['tuple'])]
    if case.get('other'):
      ts.append(tuple(case['other']))
    check_namespaces(ctx, ts, 'replay')
  elif case.get('part') == 'C':
    run_supporter_case(ctx, case['index'])
  else:
    steps = [dict(s, entries=[[tuple(e[0]), e[1], e[2]] for e in s['entries']]) if 'entries' in s else s
             for s in case['steps']]
    run_store_case(ctx, case.get('index', 0), case['backend'], steps)
