"""C05 — SQL-backed service survives a crash at any point.

A forked child process runs the real VizierServicer on an SQLite *file*, replays
a prefix (acknowledging every returned call through a pipe), arms a trigger and
issues the victim RPC; the trigger SIGKILLs the process at the n-th boundary
(before/after every execute() and commit() of the datastore's connection). A
dry run counts the boundaries so that every one of them is hit. The parent then
opens a fresh servicer on the same file (restart) and runs the recovery oracle:
durability of acknowledged calls, atomicity of single-resource calls,
integrity of every stored record, and "clients can continue".
A thorough-tier slice kills a *fresh* server process inside SQLite's own commit
protocol with strace fault injection at write/sync/unlink syscalls.
"""
import json
import os
import shutil
import signal
import tempfile
import time

PROPERTY = 'C05'
LEVEL = 'fault_enumeration'
RULE = ('crash case = (prefix of 1..6 calls, victim RPC, boundary index k): the server process is SIGKILLed at the k-th of the '
        'B before/after-execute/commit boundaries the victim issues (B measured by a dry run; all k in 1..B are run, exhaustive '
        'per (prefix, victim)); 13 victim kinds x 5 prefixes. Non-trivial = the crash really happened inside the victim (child '
        'killed by SIGKILL, victim not acknowledged); distinct = (prefix, victim, k).')
ASSUMPTIONS = [
    'process death is injected at SQL statement / commit boundaries (and, thorough tier, at pwrite64/fdatasync/unlink syscalls '
    'of SQLite); power loss, torn sectors and filesystem re-ordering cannot be produced in this sandbox',
    'the restarted server is a fresh VizierServicer (new engine, new connection) on the same file, opened in a process that '
    'never had the file open before',
    'expected states come from running the same calls on the real servicer without a crash (acknowledged calls only / plus the '
    'victim); for SuggestTrials and CheckTrialEarlyStoppingState (multi-resource) each stored trial / metadata key must equal '
    'one of the two versions',
    'the child is created with fork() from an already initialised worker (no jax / grpc use in the child)',
]
REQUIRED_COUNTERS = ['answered_calls_checked_for_pending_writes', 'crash_points_hit', 'boundaries_counted', 'recoveries_checked', 'continue_probes_same_worker',
                     'continue_probes_new_worker', 'atomicity_checks', 'victim_kinds_covered']
MIN_DISTINCT = {'quick': 300, 'thorough': 1500}

STUDY = 'owners/o/studies/s'


def T(i):
  return f'{STUDY}/trials/{i}'


CREATE = {'op': 'CreateStudy', 'owner': 'o', 'display': 's', 'algo': 'VVSTUB'}
SUG = lambda w, n, d=0: {'op': 'SuggestTrials', 'study': STUDY, 'count': n, 'client': w, '_stub_entry': {'delta': d}}  # noqa: E731
PREFIXES = {
    'fresh': [CREATE],
    'two_active': [CREATE, SUG('w1', 2)],
    'pool': [CREATE, SUG('w1', 1), {'op': 'CreateTrial', 'study': STUDY, 'params': {'x': 0.5, 'k': 1, 'c': 'a'}},
             {'op': 'CreateTrial', 'study': STUDY, 'params': {'x': 0.6, 'k': 2, 'c': 'b'}}],
    'mixed': [CREATE, SUG('w1', 2), {'op': 'CompleteTrial', 'trial': T(1), 'final': {'metrics': {'obj': 1.0}}},
              {'op': 'AddTrialMeasurement', 'trial': T(2), 'm': {'metrics': {'obj': 0.5}, 'steps': 1}},
              {'op': 'UpdateMetadata', 'study': STUDY, 'delta': [[None, 'u', 'k', 'v0'], [2, 'u', 'k', 'v0']]}],
    # a refused call in the prefix (metadata update naming a missing trial, with study-level and
    # existing-trial parts): nothing of it may be pending when later calls commit or the server dies
    'refused_md': [CREATE, SUG('w1', 2),
                   {'op': 'UpdateMetadata', 'study': STUDY, 'delta': [[None, 'u', 'r', 'refused'], [1, 'u', 'r', 'refused'],
                                                                    [99, 'u', 'r', 'refused']]}],
    'two_studies': [CREATE, {'op': 'CreateStudy', 'owner': 'o', 'display': 's2', 'algo': 'VVSTUB'}, SUG('w1', 1),
                    {'op': 'SuggestTrials', 'study': 'owners/o/studies/s2', 'count': 1, 'client': 'w1', '_stub_entry': {'delta': 0}}],
}
SINGLE = 'single'   # single-resource call: applied fully or not at all
MULTI = 'multi'
VICTIMS = {
    'CreateStudy': (SINGLE, {'op': 'CreateStudy', 'owner': 'o', 'display': 'new', 'algo': 'VVSTUB'}),
    'CreateStudyNewOwner': (SINGLE, {'op': 'CreateStudy', 'owner': 'p', 'display': 'new', 'algo': 'VVSTUB'}),
    'SetStudyState': (SINGLE, {'op': 'SetStudyState', 'study': STUDY, 'state': 'INACTIVE'}),
    'CreateTrial': (SINGLE, {'op': 'CreateTrial', 'study': STUDY, 'params': {'x': 0.1, 'k': 3, 'c': 'a'}}),
    'CreateTrialDone': (SINGLE, {'op': 'CreateTrial', 'study': STUDY, 'params': {'x': 0.2, 'k': 4, 'c': 'b'},
                                 'state': 'SUCCEEDED', 'final': {'metrics': {'obj': 2.0}}}),
    'AddTrialMeasurement': (SINGLE, {'op': 'AddTrialMeasurement', 'trial': T(2), 'm': {'metrics': {'obj': 0.7}, 'steps': 2}}),
    'CompleteTrial': (SINGLE, {'op': 'CompleteTrial', 'trial': T(2), 'final': {'metrics': {'obj': 3.0}}}),
    'CompleteInfeasible': (SINGLE, {'op': 'CompleteTrial', 'trial': T(1), 'infeasible': True, 'reason': 'r'}),
    'StopTrial': (SINGLE, {'op': 'StopTrial', 'trial': T(2)}),
    'DeleteTrial': (SINGLE, {'op': 'DeleteTrial', 'trial': T(1)}),
    'DeleteStudy': (SINGLE, {'op': 'DeleteStudy', 'study': STUDY}),
    'UpdateMetadata': (SINGLE, {'op': 'UpdateMetadata', 'study': STUDY,
                                'delta': [[None, 'u', 'k', 'v1'], [None, 'u', 'k2', 'v2'], [1, 'u', 'k', 'v1'], [2, 'u', 'k', 'v1']]}),
    'SuggestNew': (MULTI, SUG('w2', 2)),
    'SuggestSameWorker': (MULTI, SUG('w1', 4)),
    'SuggestOver': (MULTI, SUG('w2', 2, 2)),
    'EarlyStop': (MULTI, {'op': 'CheckTrialEarlyStoppingState', 'trial': T(2)}),
}


def plan(tier, seed):
  return {'shards': 12 if tier == 'quick' else 16, 'budget_s': 75 if tier == 'quick' else 1100}


class Crasher:
  """Counting proxy around SQLDataStore._connection."""

  def __init__(self, conn):
    self._c = conn
    self.n = 0
    self.armed = False
    self.kill_at = 0
    self.labels = []

  def _boundary(self, what):
    if not self.armed:
      return
    self.n += 1
    self.labels.append(what)
    if self.n == self.kill_at:
      os.kill(os.getpid(), signal.SIGKILL)

  def execute(self, *a, **k):
    self._boundary('before-execute')
    r = self._c.execute(*a, **k)
    self._boundary('after-execute')
    return r

  def commit(self):
    self._boundary('before-commit')
    self._c.commit()
    self._boundary('after-commit')

  def rollback(self):
    self._boundary('before-rollback')
    self._c.rollback()
    self._boundary('after-rollback')

  def __getattr__(self, name):
    return getattr(self._c, name)


def open_servicer(db_path):
  from vv import service as S
  ctl = S.Controller()
  sv = S.make_servicer(f'sqlite:///{db_path}', ctl, None)
  ctl.stub_studies.update({STUDY, 'owners/o/studies/s2', 'owners/o/studies/new', 'owners/p/studies/new'})
  return sv, ctl


def do_call(sv, ctl, call):
  from vv import service as S
  ctl.plan.clear()
  if call.get('_stub_entry') is not None:
    ctl.plan.append(dict(call['_stub_entry']))
  out = S.call_servicer(sv, call)
  ctl.plan.clear()
  return out


def child_run(db_path, prefix, victim, kill_at, wfd):
  """Runs in the forked child. Never returns."""
  try:
    sv, ctl = open_servicer(db_path)
    ds = sv.datastore
    if not hasattr(ds, '_connection'):
      os.write(wfd, b'NOHOOK\n')
      os._exit(3)
    crasher = Crasher(ds._connection)
    ds._connection = crasher
    for i, c in enumerate(prefix):
      ocls, _, _ = do_call(sv, ctl, c)
      os.write(wfd, f'ACK {i} {ocls}\n'.encode())
    crasher.kill_at = kill_at
    crasher.armed = True
    ocls, _, _ = do_call(sv, ctl, victim)
    crasher.armed = False
    os.write(wfd, f'VICTIM {ocls}\n'.encode())
    os.write(wfd, ('BOUNDARIES %d %s\n' % (crasher.n, json.dumps(crasher.labels))).encode())
    os._exit(0)
  except BaseException as e:  # pylint: disable=broad-except
    try:
      os.write(wfd, f'CHILDERR {type(e).__name__}: {e}\n'.encode())
    finally:
      os._exit(4)


def fork_case(db_path, prefix, victim, kill_at, timeout=60):
  r, w = os.pipe()
  pid = os.fork()
  if pid == 0:
    os.close(r)
    child_run(db_path, prefix, victim, kill_at, w)
  os.close(w)
  t0 = time.time()
  status = None
  while time.time() - t0 < timeout:
    p, st = os.waitpid(pid, os.WNOHANG)
    if p:
      status = st
      break
    time.sleep(0.002)
  if status is None:
    os.kill(pid, signal.SIGKILL)
    os.waitpid(pid, 0)
    os.close(r)
    return {'timeout': True}
  data = b''
  while True:
    chunk = os.read(r, 65536)
    if not chunk:
      break
    data += chunk
  os.close(r)
  lines = data.decode().splitlines()
  out = {'timeout': False, 'signaled': os.WIFSIGNALED(status), 'exit': os.WEXITSTATUS(status) if os.WIFEXITED(status) else None,
         'acks': [l for l in lines if l.startswith('ACK')], 'victim': [l for l in lines if l.startswith('VICTIM')],
         'err': [l for l in lines if l.startswith('CHILDERR') or l.startswith('NOHOOK')], 'boundaries': None, 'labels': None}
  for l in lines:
    if l.startswith('BOUNDARIES'):
      _, n, lab = l.split(' ', 2)
      out['boundaries'] = int(n)
      out['labels'] = json.loads(lab)
  return out


PENDING = {'checked': 0, 'found': [], 'journal_modes': []}


def drain_pending(ctx, case):
  ctx.count('answered_calls_checked_for_pending_writes', PENDING['checked'])
  PENDING['checked'] = 0
  for mode in PENDING['journal_modes']:
    ctx.count('journal_mode_observed:' + mode)
    if mode in ('memory', 'off'):
      ctx.violation(f'no-crash-safe-journal:journal_mode={mode}',
                    f'the live server connection runs with PRAGMA journal_mode={mode}: a transaction interrupted by a '
                    'process death while its pages are being written to the database file cannot be rolled back', case)
  PENDING['journal_modes'].clear()
  for op, out, pend in PENDING['found'][:3]:
    ctx.violation(f'acknowledged-write-not-committed:{op}',
                  f'after {op} ({out}) was answered the SQLite file lacks changes the server already shows '
                  f'(lost by a crash at any later instant): {pend}'[:500], case)
  PENDING['found'].clear()


def reference_state(tmp, calls, tag):
  """State after running `calls` without a crash (fresh file)."""
  from vv import service as S
  path = os.path.join(tmp, f'ref-{tag}.db')
  for suffix in ('', '-journal', '-wal', '-shm'):
    # a reference run always starts from an empty file
    try:
      os.remove(path + suffix)
    except OSError:
      pass
  sv, ctl = open_servicer(path)
  outs = []
  for i, c in enumerate(calls):
    outs.append(do_call(sv, ctl, c)[0])
    # an answered call leaves nothing pending on the connection: what the server shows
    # is what a second connection (a restarted server) finds in the file
    PENDING['checked'] += 1
    pend = S.uncommitted_writes(sv, path)
    if pend:
      PENDING['found'].append((c.get('op'), outs[-1], pend))
  snap = S.snapshot(sv, ['o', 'p'])
  # how the server's own connection journals its transactions (asked of the live connection,
  # after real traffic): without an on-disk rollback journal or WAL a process death in the
  # middle of a commit cannot be undone
  try:
    mode = str(sv.datastore._connection.exec_driver_sql('PRAGMA journal_mode').scalar()).lower()
    PENDING['journal_modes'].append(mode)
  except Exception:  # pylint: disable=broad-except
    pass
  try:
    sv.datastore._connection.close()
    sv.datastore._engine.dispose()
  except Exception:  # pylint: disable=broad-except
    pass
  return snap, outs


def trial_map(snap):
  out = {}
  for o, od in snap.items():
    if isinstance(od, dict):
      for sname, st in od.items():
        for t in st['trials']:
          out[t['name']] = t
  return out


def study_map(snap):
  out = {}
  for o, od in snap.items():
    if isinstance(od, dict):
      for sname, st in od.items():
        out[sname] = st['study']
  return out


def recover_and_check(ctx, db_path, case, kind, without, with_, victim_acked, prefix_ok):
  """The restart + oracle. Returns list of (mech, what)."""
  from vv import model as model_lib
  from vv import service as S
  problems = []
  pname, vname, k = case['prefix'], case['victim'], case['k']
  try:
    sv, ctl = open_servicer(db_path)
    snap = S.snapshot(sv, ['o', 'p'])
  except Exception as e:  # pylint: disable=broad-except
    return [(f'restart-failed:{type(e).__name__}', f'restarted server cannot read the file: {e}')]
  ctx.count('recoveries_checked')
  # -- integrity -----------------------------------------------------------------
  for o, od in snap.items():
    if isinstance(od, str) and od not in ('NOT_FOUND',):
      problems.append((f'integrity:list-studies:{od}', f'ListStudies({o}) -> {od} after restart'))
    if isinstance(od, dict):
      for sname, st in od.items():
        if isinstance(st['trials'], str):
          problems.append(('integrity:list-trials-failed', f'{sname}: {st["trials"]}'))
          continue
        ids = [t['id'] for t in st['trials']]
        if len(set(ids)) != len(ids):
          problems.append(('integrity:duplicate-trial-id', f'{sname}: ids {ids}'))
        for t in st['trials']:
          if t['state'] not in ('REQUESTED', 'ACTIVE', 'STOPPING', 'SUCCEEDED', 'INFEASIBLE'):
            problems.append(('integrity:illegal-trial-state', f'{t["name"]} in state {t["state"]}'))
          if t['state'] == 'ACTIVE' and not t['client_id']:
            problems.append(('integrity:active-without-owner', f'{t["name"]} ACTIVE without client'))
  # orphan rows: trials whose study row is gone
  try:
    import sqlalchemy as sqla
    conn = sv.datastore._connection
    rows = conn.execute(sqla.text(
        'select trial_name from trials t where not exists (select 1 from studies s where s.owner_id = t.owner_id '
        'and s.study_id = t.study_id)')).fetchall()
    if rows:
      problems.append(('integrity:trial-row-without-study', f'orphan trial rows {[r[0] for r in rows][:3]}'))
  except Exception:  # pylint: disable=broad-except
    pass
  # -- durability / atomicity ------------------------------------------------------
  ctx.count('atomicity_checks')
  d_without = model_lib.diff(without, snap)
  d_with = model_lib.diff(with_, snap)
  if victim_acked:
    if d_with:
      problems.append((f'durability:acknowledged-victim-lost:{vname}', f'victim was acknowledged but state differs from prefix+victim: {d_with}'))
  elif kind == SINGLE:
    if d_without and d_with:
      problems.append((f'atomicity:{vname}:torn', f'state is neither "victim not applied" ({d_without}) nor "fully applied" ({d_with})'))
    else:
      ctx.count('outcome_applied' if not d_with and d_without else 'outcome_not_applied')
  else:
    tw, tv, tg = trial_map(without), trial_map(with_), trial_map(snap)
    for name, t in tg.items():
      if not any(name in m and not model_lib.diff(m[name], t) for m in (tw, tv)):
        problems.append((f'multi:{vname}:trial-in-neither-version', f'{name} = {json.dumps(t)[:200]} equals neither the before nor the after version'))
        break
    for name in tw:
      if name not in tg:
        problems.append((f'durability:acknowledged-trial-lost:{vname}', f'{name} existed before the victim and is gone'))
    sw, svv, sg = study_map(without), study_map(with_), study_map(snap)
    for name, st in sg.items():
      for key, val in st['metadata'].items():
        if not any(name in m and m[name]['metadata'].get(key) == val for m in (sw, svv)):
          problems.append((f'multi:{vname}:metadata-in-neither-version', f'{name} metadata {key}={val}'))
  # -- continue ------------------------------------------------------------------------
  studies_now = [n for n in study_map(snap) if study_map(snap)[n]['state'] in ('ACTIVE', 'STATE_UNSPECIFIED')]
  for sname in studies_now[:1]:
    for worker, counter in (('w1', 'continue_probes_same_worker'), ('w2', 'continue_probes_same_worker'), ('fresh-worker', 'continue_probes_new_worker')):
      ctx.count(counter)
      ctl.plan.clear()
      ocls, oresp, raw = S.call_servicer(sv, {'op': 'SuggestTrials', 'study': sname, 'count': 1, 'client': worker})
      polls = 0
      while ocls == 'OK' and not oresp['done'] and polls < 20:
        polls += 1
        ocls, oresp, raw = S.call_servicer(sv, {'op': 'GetOperation', 'name': oresp['name']})
      if ocls != 'OK':
        problems.append((f'continue:suggest-failed:{ocls}', f'{worker}: SuggestTrials after restart -> {ocls} {str(oresp)[:150]}'))
      elif not oresp['done']:
        own = worker == VICTIMS[vname][1].get('client') and VICTIMS[vname][1]['op'] == 'SuggestTrials'
        problems.append((('continue:same-worker-answered-from-abandoned-operation' if own else 'continue:new-worker-wedged'),
                         f'{worker}: operation {oresp["name"]} still done=False after 20 polls (abandoned by the crashed server)'))
      elif oresp['error']:
        problems.append(('continue:suggest-error', f'{worker}: {oresp["error"]}'))
      elif oresp['trials']:
        tid = oresp['trials'][0]['name']
        ocls2, oresp2, _ = S.call_servicer(sv, {'op': 'CompleteTrial', 'trial': tid, 'final': {'metrics': {'obj': 1.0}}})
        if ocls2 != 'OK':
          problems.append((f'continue:complete-failed:{ocls2}', f'{worker}: CompleteTrial({tid}) after restart -> {ocls2}'))
      else:
        problems.append(('continue:suggest-returned-nothing', f'{worker}: suggest returned no trial'))
  try:
    sv.datastore._connection.close()
    sv.datastore._engine.dispose()
  except Exception:  # pylint: disable=broad-except
    pass
  return problems


def applicable(pname, vname):
  v = VICTIMS[vname][1]
  trials_needed = {'AddTrialMeasurement': 2, 'CompleteTrial': 2, 'CompleteInfeasible': 1, 'StopTrial': 2, 'DeleteTrial': 1,
                   'UpdateMetadata': 2, 'EarlyStop': 2}
  have = {'fresh': 0, 'two_active': 2, 'pool': 3, 'mixed': 2, 'two_studies': 1, 'refused_md': 2}[pname]
  return have >= trials_needed.get(vname, 0)


def all_items():
  items = []
  for pname in sorted(PREFIXES):
    for vname in sorted(VICTIMS):
      if applicable(pname, vname):
        items.append((pname, vname))
  return items


def run_item(ctx, tmp, pname, vname, only_k=None):
  kind, victim = VICTIMS[vname]
  prefix = PREFIXES[pname]
  # dry run: count boundaries
  dry = fork_case(os.path.join(tmp, 'dry.db'), prefix, victim, 0)
  if dry.get('timeout') or dry['err'] or dry['boundaries'] is None:
    ctx.inconclusive_reason(f'dry run failed for {pname}/{vname}: {dry}')
    return
  B = dry['boundaries']
  ctx.count('boundaries_counted', B)
  ctx.counters.setdefault('boundaries_per_victim', {})[f'{pname}/{vname}'] = B
  if 'VICTIM OK' not in ' '.join(dry['victim']):
    # the victim itself is rejected after this prefix: nothing to crash inside
    ctx.count('victims_rejected_in_dry_run')
  without, _ = reference_state(tmp, prefix, 'without')
  with_, _ = reference_state(tmp, prefix + [victim], 'with')
  drain_pending(ctx, {'prefix': pname, 'victim': vname, 'k': 0, 'reference_run': True})
  for f in ('ref-without.db', 'ref-with.db', 'dry.db'):
    try:
      os.remove(os.path.join(tmp, f))
    except OSError:
      pass
  ks = range(1, B + 1) if only_k is None else [only_k]
  hit = 0
  for k in ks:
    if ctx.out_of_time():
      ctx.note(f'time budget reached inside {pname}/{vname} at boundary {k}/{B}')
      break
    db = os.path.join(tmp, f'c{k}.db')
    res = fork_case(db, prefix, victim, k)
    case = {'prefix': pname, 'victim': vname, 'k': k, 'B': B, 'label': dry['labels'][k - 1] if k <= len(dry['labels']) else None}
    if res.get('timeout'):
      ctx.violation(f'server-hung:{vname}', f'{pname}/{vname} k={k}: child did not finish within 60 s', case)
      continue
    if res['err']:
      ctx.inconclusive_reason(f'child error {res["err"]} in {pname}/{vname} k={k}')
      continue
    crashed = res['signaled']
    victim_acked = bool(res['victim'])
    if crashed and not victim_acked:
      ctx.count('crash_points_hit')
      hit += 1
    ctx.case([pname, vname, k], nontrivial=crashed and not victim_acked)
    problems = recover_and_check(ctx, db, case, kind, without, with_, victim_acked, len(res['acks']) == len(prefix))
    for mech, what in problems[:3]:
      ctx.violation(mech, f'{pname}/{vname} crash at boundary {k}/{B} ({case["label"]}): {what}'[:600], case)
    for suffix in ('', '-journal', '-wal', '-shm'):
      try:
        os.remove(db + suffix)
      except OSError:
        pass
  if only_k is None and hit == B:
    ctx.count('victims_with_every_boundary_hit')
  kinds = ctx.counters.setdefault('victim_kinds', {})
  kinds[vname] = kinds.get(vname, 0) + hit


def run_shard(ctx):
  tmp = tempfile.mkdtemp(prefix='vv-c05-', dir=os.environ.get('VV_TMP'))
  try:
    if ctx.tier != 'thorough':
      # quick tier: first a thin slice of the syscall-level injector (one item per shard,
      # three kill points inside SQLite's own commit protocol), inside the time budget
      from vv import c05_strace
      c05_strace.run(ctx, tmp, sample=3)
    items = all_items()
    rot = (ctx.seed * 7) % len(items)
    items = items[rot:] + items[:rot]
    n = 0
    for i, (pname, vname) in enumerate(items):
      if not ctx.mine(i):
        continue
      if ctx.out_of_time():
        ctx.note(f'time budget reached after {n} (prefix, victim) items in this shard')
        break
      run_item(ctx, tmp, pname, vname)
      n += 1
      if n == 1:
        ctx.sample({'prefix': pname, 'prefix_calls': PREFIXES[pname], 'victim': VICTIMS[vname][1],
                    'boundaries': ctx.counters.get('boundaries_per_victim', {}).get(f'{pname}/{vname}')})
    if ctx.tier == 'thorough':
      from vv import c05_strace
      c05_strace.run(ctx, tmp)
  finally:
    shutil.rmtree(tmp, ignore_errors=True)
  ctx.count('victim_kinds_covered', len(ctx.counters.get('victim_kinds', {})))


def replay(ctx, case):
  tmp = tempfile.mkdtemp(prefix='vv-c05-', dir=os.environ.get('VV_TMP'))
  try:
    if case.get('strace'):
      from vv import c05_strace
      c05_strace.replay(ctx, tmp, case)
    else:
      run_item(ctx, tmp, case['prefix'], case['victim'], only_k=case['k'])
  finally:
    shutil.rmtree(tmp, ignore_errors=True)
