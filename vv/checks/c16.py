"""C16 — search-space definitions are validated and membership is decided correctly.

Six families of monitors, each with its own counters and mechanism ids:

  member   SearchSpace.contains / assert_contains and ParameterConfig.contains
           (raw + ParameterValue) against the independent oracle vv.gen.member
           on generated assignments (16 classes incl. ulp near-misses, wrong
           types, bool vs 'True', int-as-float, missing / extra / renamed keys)
  cond     conditional spaces (depth 1..3): contains / assert_contains must
           raise NotImplementedError, never answer; a selected-but-empty
           subspace leaves the space flat and it must still answer correctly
  builder  accept / reject table of add_float/int/discrete/categorical/bool_param,
           ParameterConfig.factory, select() under DOUBLE, SearchSpace.add against
           an independent validity predicate + normalisation of accepted ones
  walk     SequentialParameterBuilder (dfs, bfs) vs an independent recursive walk
  client   clients.Study.add_trial (RAM and in-memory SQL servicers): refused
           exactly when the oracle says non-member, nothing stored on refusal
  life     the same refusal rule over the life cycle of a study name: programs of
           create / open / delete / add_trial ops on one fresh servicer, several
           handles per study (plain VizierClient, from_study_config,
           from_owner_and_id, from_resource_name), delete + re-create of the same
           owner / study id with a related space, from_study_config on an existing
           study (config ignored by the service), a sibling study; every add_trial is
           decided against the space the study has at that moment (vv/c16_life.py)
  served   the space a study *has* after StudyConfig.to_proto/from_proto or after being
           stored and read back through a local servicer is the conditional space it was
           defined with (structure per parent kind incl. INTEGER / DISCRETE parents, depth
           1..3); the walker over the served space visits the active set; add_trial on the
           conditional study never accepts a non-member and never answers a member as
           infeasible (vv/c16_served.py)
  alias    a definition is fixed when built: in-place edits of lists handed out by read
           accessors (feasible_values, parameters) or given to builders change neither the
           normalised definition nor any membership answer (vv/c16_alias.py)
"""
from vv import gen
from vv import c16_alias, c16_builder, c16_cond as cond, c16_life, c16_member, c16_served, c16_walk
from vv.c16_util import quiet_logs, dec as c16_util_dec

PROPERTY = 'C16'
LEVEL = 'exploration'
RULE = ('case index -> family (member x4, builder x2, walk x2, cond, client); member: '
        'gen_space(1..5 params, all kinds) x 14 assignments drawn from 16 classes; builder: '
        '6 argument tuples from 8 builders x 5..17 argument classes; walk: conditional tree of '
        'depth 0..3, a value (or skip) for every parameter, dfs and bfs; cond: tree depth 1..3 '
        'x 4 assignments; client: flat space x 5 add_trial calls on RAM/SQL servicers, plus one '
        'conditional study; with every client case one life-cycle program (own random stream '
        "rng(i, 'life')): 1..2 study ids on a fresh RAM/SQL servicer, 1..3 steps from {delete + "
        're-create with a mutated space (narrowed / widened / shifted / parameter dropped, added, '
        'renamed, kind changed / fresh), from_study_config on the existing study, sibling study, '
        're-open}, 2..4 add_trial calls after each step through any handle made so far, '
        'assignments drawn from the current space (16 classes) and from the other spaces of the '
        "program; with every cond case one 'served' case (own stream rng(i, 'served')): "
        'conditional tree depth 1..3 with parents of all four finite kinds x route {to_proto/'
        'from_proto, RAM servicer, SQL servicer}: structure of the served space, dfs + bfs walk '
        'over it, 4 add_trial assignments of known conditional membership; with every member '
        "case that has a finite-domain parameter one 'alias' program (own stream rng(i, "
        "'alias')): 1..4 in-place edits {remove, append, insert-front, overwrite-first, reverse, "
        'clear} of lists obtained from {ParameterConfig.feasible_values, SearchSpace.parameters, '
        'the list given to add_discrete/categorical_param or ParameterConfig.factory}, then read-back of every definition '
        'and membership probes aimed at each edit. distinct = hash(family, space/tree shape, class, value labels; life: op shapes); '
        'non-trivial = non-empty space (walk: depth >= 1).')
ASSUMPTIONS = [
    'a python bool given to a BOOL parameter is a member (documented ParameterValue.as_str); a '
    'python bool given to any other kind is not decided by the property and only counted',
    'a non-member that is refused by an exception other than a False answer (e.g. OverflowError '
    'for inf into an INTEGER parameter) counts as refused, not as a violation',
    'rejection of an invalid definition = any exception at build time; the type is counted',
    'traversal order (dfs/bfs) is not demanded, only the visited set, parent-before-child and '
    'the resulting ParameterDict',
    'INTEGER ranges <= 1e4; names unique over a conditional tree except copies of one child '
    'under several values of the same parent',
    'empty feasible_values lists and out-of-domain default values are not in the property and '
    'are not generated',
    'life: "the space" of add_trial is the space of the study stored under the resource name at '
    'the time of the call (a study name can be deleted and created again; CreateStudy on an '
    'existing display name loads the stored study and ignores the given config, as documented in '
    'Study.from_study_config); add_trial on a name without a study is only counted',
    'life: the implicit local servicer of the public classmethods is pointed at the fresh '
    'per-case servicer through vizier_client.environment_variables.servicer_kwargs (documented '
    'knob) and a cache_clear of the local-servicer factory; restored to in-memory SQL afterwards',
    'served: "the space" of a study is the space as defined by its creator; the transport '
    '(proto, datastore) is part of the library, so the space the client validates against must '
    'have the defined structure (names, kinds, children per parent value); external types, '
    'scale and defaults are not compared here (C09 / C17); on a conditional study add_trial may '
    'refuse everything as unsupported (NotImplementedError) or answer correctly, a ValueError '
    'for exactly the active parameter set with feasible values is a wrong answer',
    'alias: lists returned by read accessors and lists given to builders belong to the caller; '
    'editing them is not a way to redefine a parameter (the repository returns copies and '
    'documents no mutation through them); SearchSpace.get / subspaces() / selectors return live '
    'objects by design and are not edited; an accessor that returns a read-only object passes',
]
REQUIRED_COUNTERS = ['biconditionals_checked', 'members_accepted', 'nonmembers_rejected',
                     'pc_biconditionals_checked', 'pc_true_seen', 'pc_false_seen',
                     'invalid_definitions_rejected', 'valid_definitions_accepted',
                     'normalisations_checked', 'conditional_refusals_checked',
                     'walks_checked', 'walks_with_active_children',
                     'walks_with_inactive_params', 'add_trial_checked',
                     'add_trial_refusals', 'add_trial_accepted_members',
                     'client_conditional_checked', 'empty_subspace_spaces_checked',
                     # life cycle: the deciding observations, not just "programs ran"
                     'life_adds_checked', 'life_stale_handle_refusals',
                     'life_stale_handle_accepts', 'life_recreated_study_refusals',
                     'life_ignored_config_refusals', 'life_ignored_config_accepts',
                     'life_other_study_space_refusals',
                     # served: every parent kind travelled, every monitor decided something
                     'served_spaces_checked:proto', 'served_spaces_checked:service',
                     'served_parent_kind:INTEGER', 'served_parent_kind:DISCRETE',
                     'served_parent_kind:CATEGORICAL', 'served_parent_kind:BOOL',
                     'served_structures_equal', 'served_walks_checked',
                     'served_add_trial_members', 'served_add_trial_nonmembers',
                     # alias: edits really happened on each source and were followed by probes
                     'alias_edits:feasible_values', 'alias_edits:builder-argument',
                     'alias_edits:parameters', 'alias_readbacks_checked',
                     'alias_membership_probes', 'alias_programs_held',
                     'alias_spaces_built_via:selector', 'alias_spaces_built_via:factory']
MIN_DISTINCT = {'quick': 1500, 'thorough': 8000}

FAMILIES = ['member', 'builder', 'walk', 'member', 'cond', 'member', 'builder', 'walk',
            'member', 'client']


def plan(tier, seed):
  return {'shards': 12 if tier == 'quick' else 16,
          'budget_s': 55 if tier == 'quick' else 900}


def run_case(ctx, i):
  rng = ctx.rng(i)
  fam = FAMILIES[i % len(FAMILIES)]
  if fam == 'member':
    desc = gen.gen_space(rng, 1, 5, max_int_width=10 ** 4)
    space = gen.build_space(desc)
    n = 14 if ctx.tier == 'quick' else 24
    for j in range(n):
      cls = c16_member.CLASSES[(i // len(FAMILIES) + j) % len(c16_member.CLASSES)]
      a, labels = c16_member.gen_assignment(rng, desc, cls)
      c16_member.exec_member(ctx, desc, a, labels, cls, space=space, extras=(j == 0))
    if i < 30:
      ctx.sample({'family': fam, 'desc': desc})
    # selected-but-empty subspace keeps the space flat
    finite = [p for p in desc if p['kind'] != 'DOUBLE']
    if finite and rng.random() < 0.3:
      p = rng.choice(finite)
      v = gen.sample_value(rng, p)
      cls = rng.choice(['feasible', 'near-miss', 'missing'])
      a, labels = c16_member.gen_assignment(rng, desc, cls)
      c16_member.exec_empty_subspace(ctx, desc, a, labels, cls, p['name'], v)
    # a definition is fixed when built (own random stream)
    if finite:
      arng = ctx.rng(i, 'alias')
      ops, via = c16_alias.gen_alias_case(arng, desc)
      if ops:
        base, _ = c16_member.gen_assignment(arng, desc, 'feasible')
        c16_alias.exec_alias(ctx, desc, ops, base, via)
  elif fam == 'builder':
    for _ in range(6 if ctx.tier == 'quick' else 12):
      c16_builder.exec_builder(ctx, c16_builder.gen_op(rng))
  elif fam == 'walk':
    tree, choices, skipped = c16_walk.gen_walk_case(rng)
    for order in ('dfs', 'bfs'):
      c16_walk.exec_walk(ctx, tree, choices, skipped, order)
  elif fam == 'cond':
    tree, variants = c16_member.gen_cond_case(rng)
    for name, a in variants:
      c16_member.exec_cond(ctx, tree, name, a)
    # the same guarantees for the space a study has after proto / service transport
    sc = c16_served.gen_served_case(ctx.rng(i, 'served'))
    c16_served.exec_served(ctx, sc['route'], sc['tree'], c16_util_dec(sc['choices']))
  else:
    backend = 'ram' if (i // len(FAMILIES)) % 2 == 0 else 'sql'
    desc = gen.gen_space(rng, 1, 4, max_int_width=10 ** 4)
    trials = []
    for j in range(5):
      cls = rng.choice(c16_member.CLASSES) if j else 'feasible'
      a, labels = c16_member.gen_assignment(rng, desc, cls)
      trials.append((a, labels, cls))
    c16_walk.exec_client(ctx, backend, desc, trials)
    if rng.random() < 0.35:
      tree, variants = c16_member.gen_cond_case(rng)
      act = dict(variants[0][1])
      valid = rng.random() < 0.5
      if not valid:
        act['zz_unknown'] = 1
      c16_walk.exec_client_conditional(ctx, backend, tree, act, valid)
    # handle / study life cycle: own random stream, so the cases above keep their index
    lc = c16_life.gen_life_case(ctx.rng(i, 'life'))
    c16_life.exec_life(ctx, lc['backend'], lc['ops'])


def run_shard(ctx):
  quiet_logs()
  n_cases = 5000 if ctx.tier == 'quick' else 400000
  if ctx.shard == 0:
    # every builder class at least once, deterministically
    rng = ctx.rng(-1)
    for b, classes in c16_builder.CLASSES.items():
      for c in classes:
        c16_builder.exec_builder(ctx, c16_builder.gen_op(rng, b, c))
  for i in range(n_cases):
    if not ctx.mine(i):
      continue
    if ctx.out_of_time():
      ctx.note(f'time budget reached at case {i}')
      break
    run_case(ctx, i)


def replay(ctx, case):
  quiet_logs()
  fam = case['family']
  if fam == 'member':
    c16_member.replay_member(ctx, case)
  elif fam in ('cond', 'emptysub'):
    c16_member.replay_cond(ctx, case)
  elif fam == 'builder':
    c16_builder.replay_builder(ctx, case)
  elif fam == 'walk':
    c16_walk.replay_walk(ctx, case)
  elif fam == 'life':
    c16_life.replay_life(ctx, case)
  elif fam == 'served':
    c16_served.replay_served(ctx, case)
  elif fam == 'alias':
    c16_alias.replay_alias(ctx, case)
  else:
    c16_walk.replay_client(ctx, case)
