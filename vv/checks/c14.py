"""C14 — seeded algorithms and benchmark runs are reproducible.

Every monitor is a relation between two executions of the same JSON case
(designer, problem, seed, history script):

  repeat        same process, straight repeat
  perturbed     after random.seed / np.random.seed / burnt jax keys, wall clock shifted
  interleaved   after another study (another designer) ran in between
  fresh-process `python -m vv.c14_child` with another PYTHONHASHSEED, perturbed globals
  after-servicer after a PythiaServicer was constructed in this process (it flips
                jax_enable_x64 process-wide) — executed last in every shard

  reused-factory (benchmarks described by factories) one ExperimenterDesignerBenchmark-
                StateFactory + one BenchmarkRunner serve several seeded runs in a row;
                every run with the case's seed must equal the run of brand-new objects

  shared-experimenter one deterministic experimenter object (bare BBOB NumpyExperimenter,
                optionally sign-flipped / shifted / hash-infeasible) serves 3-4 seeded
                runs in a row, each with a new supporter and a new policy (in-RAM or
                PartiallySerializableDesignerPolicy, which writes designer state into the
                study metadata); every run must be given the same problem statement and
                every run with the case's seed must equal the run of brand-new objects
  in-ram-twin   (quasi-random, shuffled grid, eagle) a designer rebuilt and restored from the
                study metadata at every request vs the same designer kept in RAM

plus seed sensitivity (different seeds => different streams on >= 2**10 points)
and seeded BenchmarkRunner executions (trial sequence incl. noisy metrics).
"phase" cases take Eagle through its later phases (pool full -> fly removed -> pool
re-populated from the initial quasi-random designer) with a short history, mostly
restored from study metadata at every request; the phase reached is observed from
the public parent_fly_id suggestion metadata and counted.
GP designers (15-40 s per run) live in dedicated tasks at the head of a shard.
"""
import json
import os
import subprocess
import sys
import tempfile
import time

from vv import c13_lib as L
from vv import c14_lib as X
from vv import common
from vv import gen

PROPERTY = 'C14'
LEVEL = 'exploration'
RULE = ('case = (designer in {random, quasi-random, shuffled grid, eagle, NSGA-II, CMA-ES, GP '
        'bandit, GP-UCB-PE}, wrapper in {bare designer, InRamDesignerPolicy via '
        'PolicySuggester}, generated flat space of 1-4 parameters of all kinds, seed in '
        '{0, 1, 16-bit, 31-bit}, 2-5 step script with scripted partial completion and '
        'infeasible trials) or a seeded BenchmarkRunner execution (18 BBOB functions x 9 '
        'noise types x routines of GenerateAndEvaluate / GenerateSuggestions / '
        'FillActiveTrials / EvaluateActiveTrials), the experimenter either built directly or '
        'described by SingleObjectiveExperimenterFactory(BBOBExperimenterFactory) with '
        'shift / normalisation / discretisation / categorisation / seeded permutation / seeded '
        'noise and run through one long-lived ExperimenterDesignerBenchmarkStateFactory + '
        'BenchmarkRunner for 3-4 consecutive seeded runs (same seed again, after another '
        'seed); or an Eagle phase case (FireflyAlgorithmConfig with pool of 3-8 or default, '
        'penalize factor 0.3-0.5, 12-32 requests of 1-9 suggestions, mostly restored from '
        'study metadata per request) whose history demonstrably re-populates the pool. Each '
        'case is executed 3-6 times under the variants above; distinct = hash of (type, '
        'designer, wrapper, space shape, batch profile, seed class, experimenter '
        'transformations); non-trivial when the run made >= 2 suggestions. Seeds: a fifth of '
        'the stream cases and two thirds of the "hosted" cases (quasi-random / shuffled grid / eagle '
        'under a new PartiallySerializableDesignerPolicy per request, 3-6 requests, compared '
        'with the in-RAM twin) draw the seed from the rim of the designer\'s accepted domain '
        '(negative where accepted, 2**31..2**32, beyond 2**32 up to 80 bits). "Shared '
        'experimenter" cases: a deterministic BBOB experimenter object (bare or sign-flipped / '
        'shifted / hash-infeasible) x policy in {in-RAM, PartiallySerializableDesignerPolicy} '
        'x 3-4 consecutive seeded runs on that one object.')
ASSUMPTIONS = [
    'suggestions are compared by parameter values, exactly (repr of float64)',
    'GP designers are compared exactly within one process configuration; a cross-process GP '
    'mismatch only counts when 3 further fresh processes all reproduce it and agree with '
    'each other (XLA CPU determinism is outside the repository)',
    'seed sensitivity is only flagged when three pairwise different seeds give one stream',
    'suggestion metadata (e.g. GP time_spent) is not part of the compared stream',
    'NSGA-II is not given infeasible trials without metrics (it documents a refusal)',
    'reuse across runs is only demanded of ExperimenterDesignerBenchmarkStateFactory (it is '
    'given an experimenter *factory*); a DesignerBenchmarkStateFactory holding one '
    'experimenter object is always built anew per run',
    'an experimenter object held across runs is only demanded to be reusable when it has no '
    'random state of its own (NumpyExperimenter, SignFlip, Shifting, HashingInfeasible); '
    'noisy experimenters are shared only through their factory',
    'restored-per-request == in-RAM is only demanded of the designers whose dump() persists '
    'the whole stream state (quasi-random, shuffled grid, Eagle: generator + pool + initial '
    'designer); NSGA-II / CMA-ES are compared with themselves under the same hosting only',
    'seeds outside a designer\'s accepted domain (negative for numpy-seeded designers, '
    '>= 2**32 for RandomState-seeded ones) are not generated',
    'the Eagle phase reached by a history is read from the eagle/parent_fly_id metadata of '
    'the suggestions (a new fly id after flies were moved = pool re-populated)',
]
REQUIRED_COUNTERS = ['pairs_compared', 'seed_sensitivity_pairs', 'pairs:repeat',
                     'pairs:perturbed', 'pairs:interleaved', 'pairs:fresh-process',
                     'pairs:after-servicer', 'bench_pairs_compared', 'gp_pairs_compared',
                     'gp_fresh_process_pairs', 'seed0_pairs', 'x64_flip_observed',
                     'bench_reused_factory_pairs_noisy', 'eagle_refill_restored_pairs',
                     'hosted_vs_in_ram_pairs', 'hosted_vs_in_ram_pairs_wide_seed',
                     'hosted_vs_in_ram_pairs:seed-class-4',
                     'bench_shared_experimenter_pairs:partial',
                     'bench_shared_experimenter_pairs:inram', 'bench_shared_problem_pairs']
MIN_DISTINCT = {'quick': 60, 'thorough': 1000}

N_GP_TASKS = {'quick': 4, 'thorough': 48}


def plan(tier, seed):
  return {'shards': 12 if tier == 'quick' else 16,
          'budget_s': 55 if tier == 'quick' else 900}


# ---------------------------------------------------------------------------
# generation
# ---------------------------------------------------------------------------
def _seed(rng):
  return rng.choice([0, 0, 1, rng.getrandbits(16), rng.getrandbits(31)])


# the integers each designer accepts as a seed beyond [0, 2**31): (negative, bits).
# RandomDesigner / NSGA-II feed np.random.RandomState ([0, 2**32) only), quasi-random
# and Eagle feed numpy SeedSequence (any non-negative int), the shuffled grid feeds
# random.Random (any int); CMA-ES (a jax key) is kept to 32 bits.
SEED_DOMAIN = {'random': (False, 32), 'nsga2': (False, 32), 'qr': (False, 80),
               'eagle': (False, 80), 'sgrid': (True, 80), 'cmaes': (False, 32)}


def _wide_seed(rng, kind, flavour=None):
  """A seed from the rim of the designer's domain: negative, 2**31.., beyond 2**32."""
  negative, bits = SEED_DOMAIN[kind]
  r16, r31, rbig = rng.getrandbits(16), rng.getrandbits(31), rng.getrandbits(bits)
  positive = [2 ** 31 + r31]
  if bits > 32:
    positive = [2 ** 32, 2 ** 32 + r16, rbig | (1 << (bits - 1))] + positive[:flavour is None]
  minus = [-1, -1 - r16, -1 - r31] if negative else []
  if flavour == 'negative' and minus:
    return rng.choice(minus)
  if flavour == 'positive':
    return rng.choice(positive)
  return rng.choice(positive + minus * 2)


def seed_class(s):
  if s < 0:
    return 4
  if s >= 2 ** 31:
    return 5 if s < 2 ** 32 else 6
  return 0 if s == 0 else (1 if s == 1 else (2 if s < 2 ** 16 else 3))


def gen_stream_case(rng, kind, big=False, wrap=None):
  if kind == 'nsga2':
    pd = L.gen_problem(rng, kind, n_objectives=rng.choice([1, 2, 3]), big=big)
  else:
    pd = L.gen_problem(rng, kind, big=big)
  ds = L.gen_designer(rng, kind)
  if kind == 'eagle':
    ds['cfg'] = {'variant': rng.choice(['default', 'default', 'explore'])}
  n = rng.choice([2, 3, 4, 5]) if kind != 'cmaes' else rng.choice([2, 3])
  script = L.gen_script(rng, n, kind)
  if kind == 'nsga2':
    script['infeasible_with_metrics'] = True
  if kind == 'cmaes':
    pd['space'] = pd['space'][:2] + ([p for p in pd['space'] if p['name'] == 'big_f'][:1] if big else [])
    script['batches'] = [rng.choice([2, 3, 6]) for _ in range(n)]
  if wrap is None:
    wrap = rng.choice(['direct', 'direct', 'inram_policy'])
    if kind in ('qr', 'sgrid', 'grid', 'eagle') and rng.random() < 0.35:
      # hosted the way the service does it (NSGA-II / CMA-ES are left out: their
      # RNG is documented as not persisted, so a rebuilt designer is not seeded)
      wrap = 'stateless_policy'
  if big:
    script['batches'][0] = max(script['batches'][0], 6)
  seed = _seed(rng)
  if not big and rng.random() < 0.2:
    seed = _wide_seed(rng, kind)
  return {'type': 'stream', 'designer': ds, 'problem': pd, 'seed': seed,
          'script': script, 'wrap': wrap}


def gen_hosted_case(rng, kind=None, index=0):
  """A designer hosted the way the service does it, over the whole seed domain.

  A new PartiallySerializableDesignerPolicy per request: the designer is rebuilt and
  restored from the study metadata, the seed included. For the designers whose dump()
  persists the whole stream state the result must be the stream of one designer kept
  in RAM (same seed, same problem, same history) -- the in-RAM twin is executed too.
  """
  if kind is None:
    kind = rng.choice(X.FULLY_PERSISTED_KINDS)
  case = gen_stream_case(rng, kind, wrap='stateless_policy')
  n = rng.choice([3, 4, 5, 6])
  case['script'] = dict(L.gen_script(rng, n, kind), salt=case['script']['salt'])
  # the seed classes rotate with the case index: ordinary, negative, beyond 32 bits
  ordinary, minus, plus = (_seed(rng), _wide_seed(rng, kind, 'negative'),
                           _wide_seed(rng, kind, 'positive'))
  case['seed'] = [ordinary, minus, plus][index % 3]
  return case


def gen_gp_seed_stage_case(rng, kind):
  """GP designers before any GP is fitted: centre + quasi-random seed trials (cheap)."""
  pd = L.gen_problem(rng, 'gp', big=True)
  k = rng.choice([2, 3, 5])
  return {'type': 'stream', 'designer': {'kind': kind, 'cfg': {'num_seed_trials': k}},
          'problem': pd, 'seed': _seed(rng), 'wrap': 'direct',
          'script': {'batches': [k], 'p_complete': 1.0, 'p_infeasible': 0.0,
                     'salt': rng.getrandbits(30)}}


def gen_gp_full_case(rng, kind, tier):
  pd = L.gen_problem(rng, 'gp')
  pd['space'] = pd['space'][:3]
  steps = [1, 2]
  if tier == 'thorough':
    steps = steps + [rng.choice([1, 2])] * rng.choice([1, 2])
  return {'type': 'stream', 'designer': {'kind': kind, 'cfg': {}}, 'problem': pd,
          'seed': _seed(rng), 'wrap': 'direct',
          'script': {'batches': steps, 'p_complete': 1.0, 'p_infeasible': 0.0,
                     'salt': rng.getrandbits(30)}}


def gen_bench_case(rng, kind):
  routine = []
  for _ in range(rng.randint(1, 3)):
    op = rng.choice(['GE', 'GE', 'GS', 'FA', 'EA'])
    routine.append([op, rng.randint(1, 4)])
  routine.append(['EA', None] if rng.random() < 0.5 else ['GE', rng.randint(1, 3)])
  ds = L.gen_designer(rng, kind)
  if kind == 'eagle':
    ds['cfg'] = {'variant': 'default'}
  infeasible = None
  if rng.random() < 0.3:
    infeasible = {'p': rng.choice([0.2, 0.5]), 'seed': rng.choice([0, 3, rng.getrandbits(16)])}
  return {'type': 'bench', 'infeasible': infeasible, 'designer': ds, 'fn': rng.choice(X.BBOB_FNS),
          'fn_seed': rng.choice([0, 1, 7]), 'dim': rng.choice([2, 3, 4]),
          'noise': rng.choice(X.NOISES), 'noise_seed': rng.choice([0, 1, rng.getrandbits(20)]),
          'seed': _seed(rng), 'routine': routine, 'repeats': rng.choice([1, 2, 3])}


def gen_bench_factory_case(rng, kind=None):
  """A benchmark described by factories (experimenter factory + designer factory).

  SingleObjectiveExperimenterFactory over a BBOB factory with its seeded
  transformations; the state factory and the runner are long-lived objects that
  serve several seeded runs (the usual `for seed in ...: state = factory(seed)` loop).
  """
  if kind is None:
    kind = rng.choice(['random', 'qr', 'eagle', 'eagle', 'nsga2', 'sgrid', 'cmaes'])
  case = gen_bench_case(rng, kind)
  dim = case['dim']
  xf = {'shift': None, 'normalize': 0, 'discrete': {}, 'categorical': {},
        'permute_seed': None}
  if rng.random() < 0.4:
    xf['shift'] = [round(rng.uniform(-2.0, 2.0), 3) for _ in range(dim)]
  if rng.random() < 0.2:
    xf['normalize'] = rng.choice([3, 8])
  if kind != 'cmaes':
    idx = list(range(dim))
    rng.shuffle(idx)
    if rng.random() < 0.35:
      xf['discrete'] = {str(idx.pop()): rng.randint(2, 6)}
    if rng.random() < 0.35:
      xf['categorical'] = {str(idx.pop()): rng.randint(2, 5)}
      if rng.random() < 0.6:
        xf['permute_seed'] = rng.choice([0, 1, rng.getrandbits(16)])
  # the noise generator is the state that a run leaves behind in its experimenter
  case['noise'] = rng.choice(X.NOISES[1:] * 2 + ['NO_NOISE', None])
  if case['infeasible'] is not None and rng.random() < 0.5:
    case['infeasible'] = None
  case.update(via='exptr_factory', xf=xf)
  other = _seed(rng)
  while other == case['seed']:
    other = rng.getrandbits(16)
  # same seed again right away, after a run with another seed, and once more
  case['reuse_seeds'] = rng.choice([[case['seed'], other, case['seed']],
                                    [other, case['seed'], case['seed']],
                                    [case['seed'], case['seed'], other, case['seed']]])
  return case


def gen_bench_shared_case(rng, kind=None, index=0):
  """A benchmark that holds ONE deterministic experimenter object for all its runs.

  DesignerBenchmarkStateFactory / PolicyBenchmarkStateFactory hold an experimenter (not
  a factory); a BBOB NumpyExperimenter -- bare or under the deterministic wrappers --
  has no random state, so every seeded run it serves (new supporter, new policy) must
  be the run of brand-new objects. The policy is the in-RAM one or the serializable
  one the service uses (it writes designer state into the study metadata).
  """
  policy = ['partial', 'partial', 'inram'][index % 3]     # rotates with the case index
  kinds = (['qr', 'sgrid', 'eagle', 'nsga2', 'cmaes'] if policy == 'partial' else
           ['random', 'qr', 'sgrid', 'eagle', 'nsga2'])
  if kind is None:
    kind = rng.choice(kinds)
  case = gen_bench_case(rng, kind)
  case['noise'], case['infeasible'] = None, None
  wrappers = []
  if kind != 'cmaes' and rng.random() < 0.2:
    wrappers.append(['infeasible', {'p': rng.choice([0.2, 0.5]),
                                    'seed': rng.choice([0, 3, rng.getrandbits(16)])}])
  if rng.random() < 0.2:
    wrappers.append(['shift', [round(rng.uniform(-2.0, 2.0), 3) for _ in range(case['dim'])]])
  if rng.random() < 0.25:
    wrappers.append(['signflip'])
  case.update(via='shared_exptr', policy=policy, wrappers=wrappers)
  other = _seed(rng)
  while other == case['seed']:
    other = rng.getrandbits(16)
  case['reuse_seeds'] = rng.choice([[case['seed'], case['seed'], other, case['seed']],
                                    [other, case['seed'], case['seed']],
                                    [case['seed'], other, case['seed']]])
  return case


def gen_phase_case(rng, kind='eagle'):
  """A history that takes the designer through its later phases.

  Eagle: a small pool (public config) fills up within a few trials, flies whose
  children do not improve are removed and the pool is re-populated from the
  initial quasi-random designer -- mostly hosted the way the service does it (new
  policy per request, designer rebuilt without its seed and restored from the
  study metadata), where every phase has to come back from the persisted state.
  """
  assert kind == 'eagle'
  pd = L.gen_problem(rng, kind)
  config = {'penalize_factor': rng.choice([0.5, 0.5, 0.3]),
            'perturbation_lower_bound': rng.choice([0.05, 0.05, 0.02])}
  pool = rng.choice([3, 4, 5, 6, 8, None])
  if pool is not None:
    config['max_pool_size'] = pool
  if rng.random() < 0.25:
    config['explore_rate'] = 1.5
  # infeasible_force_factor > 0 is left out (as in gen_stream_case): with an infeasible
  # fly inserted first, FireflyPool.get_next_moving_fly_copy never terminates -- a hang,
  # not a reproducibility matter (see proposed/C14-eagle-infeasible-fly-hang.md)
  n = rng.randint(12, 20) if pool is not None else rng.randint(24, 32)
  script = L.gen_script(rng, 2, kind)
  script['batches'] = [rng.randint(1, 8) if pool is not None else rng.randint(3, 9)
                       for _ in range(n)]
  script['p_infeasible'] = rng.choice([0.0, 0.0, 0.0, 0.1])
  wrap = rng.choice(['stateless_policy', 'stateless_policy', 'stateless_policy', 'direct',
                     'inram_policy'])
  return {'type': 'stream', 'designer': {'kind': kind, 'cfg': {'config': config}},
          'problem': pd, 'seed': _seed(rng), 'script': script, 'wrap': wrap}


def abstraction(case):
  ds = case['designer']
  sc_ = seed_class(case['seed'])
  if case['type'] == 'bench':
    a = ['bench', ds['kind'], case['fn'], case['noise'], case['dim'], case['routine'],
         case['repeats'], sc_]
    if case.get('via') == 'shared_exptr':
      return a + [case['via'], case['policy'], [w[0] for w in case['wrappers']],
                  len(case['reuse_seeds'])]
    if case.get('via'):
      xf = case['xf']
      a += [case['via'], xf['shift'] is not None, bool(xf['normalize']),
            sorted(xf['discrete'].values()), sorted(xf['categorical'].values()),
            xf['permute_seed'] is not None, len(case['reuse_seeds'])]
    return a
  sc = case['script']
  return ['stream', ds['kind'], L.dumps(ds.get('cfg', {})), case.get('wrap'),
          gen.space_shape(case['problem']['space']), len(case['problem']['metrics']),
          sc['batches'], sc['p_complete'], sc['p_infeasible'], sc_]


def size_of(case, stream):
  if case['type'] == 'bench':
    return len(stream)
  return sum(len(step) for step in stream)


def cardinality(pd):
  """Number of points of the space; a non-degenerate DOUBLE counts as 2**20."""
  n = 1
  for p in pd['space']:
    if p['kind'] == 'DOUBLE':
      n *= 1 if p['lo'] == p['hi'] else 2 ** 20
    elif p['kind'] == 'INTEGER':
      n *= p['hi'] - p['lo'] + 1
    else:
      n *= len(p['values'])
  return n


# ---------------------------------------------------------------------------
# fresh process
# ---------------------------------------------------------------------------
def child_run(cases, hashseed, perturb, timeout, construct_servicer=False):
  tmp = tempfile.mkdtemp(prefix='c14-child-', dir=os.environ.get('VV_TMP') or None)
  inp, outp = os.path.join(tmp, 'in.json'), os.path.join(tmp, 'out.json')
  with open(inp, 'w') as fh:
    json.dump({'cases': cases, 'perturb': perturb,
               'construct_servicer': construct_servicer}, fh)
  env = dict(os.environ)
  env['PYTHONHASHSEED'] = str(hashseed)
  try:
    subprocess.run([sys.executable, '-m', 'vv.c14_child', inp, outp], cwd=common.VERIF,
                   env=env, timeout=timeout, stdout=subprocess.DEVNULL,
                   stderr=subprocess.DEVNULL, check=False)
    with open(outp) as fh:
      return json.load(fh)
  except (subprocess.TimeoutExpired, OSError, ValueError):
    return None
  finally:
    import shutil
    shutil.rmtree(tmp, ignore_errors=True)


def child_start(cases, hashseed, perturb):
  tmp = tempfile.mkdtemp(prefix='c14-child-', dir=os.environ.get('VV_TMP') or None)
  inp, outp = os.path.join(tmp, 'in.json'), os.path.join(tmp, 'out.json')
  with open(inp, 'w') as fh:
    json.dump({'cases': cases, 'perturb': perturb}, fh)
  env = dict(os.environ)
  env['PYTHONHASHSEED'] = str(hashseed)
  p = subprocess.Popen([sys.executable, '-m', 'vv.c14_child', inp, outp], cwd=common.VERIF,
                       env=env, stdout=subprocess.DEVNULL, stderr=subprocess.DEVNULL)
  return p, tmp, outp


def child_finish(handle, timeout):
  import shutil
  p, tmp, outp = handle
  try:
    p.wait(timeout=timeout)
    with open(outp) as fh:
      return json.load(fh)
  except (subprocess.TimeoutExpired, OSError, ValueError):
    p.kill()
    p.wait()
    return None
  finally:
    shutil.rmtree(tmp, ignore_errors=True)


# ---------------------------------------------------------------------------
# monitors
# ---------------------------------------------------------------------------
def compare(ctx, case, variant, base, other, extra=None, mech_suffix=''):
  kind = case['designer']['kind']
  ctx.count('pairs_compared')
  ctx.count(f'pairs:{variant}')
  if case['seed'] == 0:
    ctx.count('seed0_pairs')
  if case['type'] == 'bench':
    ctx.count('bench_pairs_compared')
  if kind in X.GP_KINDS and len(case['script']['batches']) > 1:
    ctx.count('gp_pairs_compared')
  if base == other:
    return True
  w = {'first_difference': X.first_diff(base, other)}
  if extra:
    w.update(extra)
  prefix = 'bench-' if case['type'] == 'bench' else ''
  ph = case.get('phases') or {}
  if ph.get('refill_at') and not mech_suffix:
    # where does the stream part: before or from the first suggestion that
    # re-populated the pool (1-based count of suggestions)
    at = X.flat_first_diff(base, other)
    w['phases'] = ph
    w['first_difference_at_suggestion'] = at
    if at is not None:
      mech_suffix = ':from-pool-refill' if at >= ph['refill_at'] else ':before-pool-refill'
  if variant == 'after-servicer' and kind in X.JAX_KINDS:
    mech = f'seeded-stream-changes-after-PythiaServicer-flips-jax_enable_x64:{kind}'
  else:
    mech = f'{prefix}not-reproducible:{kind}:{variant}{mech_suffix}'
    if case.get('wrap') == 'inram_policy':
      mech += ':inram-policy'
    elif case.get('wrap') == 'stateless_policy':
      mech += ':restored-per-request'
  ctx.violation(mech, f'{kind} (seed {case["seed"]}): the {variant} execution produced a '
                'different ' + ('trial sequence' if prefix else 'suggestion stream'),
                dict(case, variant=variant), w)
  return False


def safe_execute(ctx, case, shift=None, perturb=None):
  try:
    if perturb is not None:
      X.perturb_globals(perturb)
    if shift is not None:
      with X.shifted_clock(shift):
        return X.execute(case)
    return X.execute(case)
  except Exception as e:  # pylint: disable=broad-except
    return ('raised', type(e).__name__, str(e)[:200])


def check_case(ctx, case, index, state):
  """base + repeat + perturbed + (interleaved for the previous case)."""
  t0 = time.time()
  base = safe_execute(ctx, case)
  cost = time.time() - t0
  if isinstance(base, tuple):
    # the designer refuses this problem (other properties' business): both runs
    # must at least agree on that
    ctx.count(f'base_raised:{case["designer"]["kind"]}:{base[1]}')
    again = safe_execute(ctx, case)
    if not (isinstance(again, tuple) and again[1] == base[1]):
      ctx.violation(f'not-reproducible:{case["designer"]["kind"]}:raises-only-sometimes',
                    'one execution raised, its repeat did not', dict(case, variant='repeat'),
                    {'first': base, 'second': again if isinstance(again, tuple) else 'ok'})
    return None
  ctx.case(abstraction(case), size_of(case, base) >= 2)
  # which phases did the base run go through (observed, not assumed)
  obs = dict(X.last_obs) if case['type'] == 'stream' else {}
  refilled = obs.get('kind') == 'eagle' and obs.get('refill_at') is not None
  if refilled:
    ctx.count('eagle_refill_histories')
    case['phases'] = obs
  rng = ctx.rng(index, 'variants')
  other = safe_execute(ctx, case)
  compare(ctx, case, 'repeat', base, other)
  k = rng.getrandbits(24)
  shift = -rng.choice([86400.0 * 365, 12345.678, 3.1e8]) - k
  other = safe_execute(ctx, case, shift=shift, perturb=k)
  if refilled and case.get('wrap') == 'stateless_policy':
    # a restored designer re-populating its pool at another wall-clock time
    ctx.count('eagle_refill_restored_pairs')
  compare(ctx, case, 'perturbed', base, other, {'perturb': k, 'clock_shift': shift})
  if (case['type'] == 'stream' and case.get('wrap') == 'stateless_policy'
      and case['designer']['kind'] in X.FULLY_PERSISTED_KINDS):
    check_in_ram_twin(ctx, case, base)
  prev = state.get('prev')
  if prev is not None:
    pcase, pbase = prev
    other = safe_execute(ctx, pcase)
    compare(ctx, pcase, 'interleaved', pbase, other,
            {'study_in_between': case['designer']['kind']})
  state['prev'] = (case, base)
  state['stored'].append((case, base, cost))
  return base


def check_in_ram_twin(ctx, case, base):
  """Restored at every request vs one designer object kept in RAM.

  Same designer, seed, problem and completion script; only the hosting differs. For
  the designers that persist their whole stream state the two streams are one.
  """
  kind = case['designer']['kind']
  twin = safe_execute(ctx, dict(case, wrap='direct'))
  ctx.count('hosted_vs_in_ram_pairs')
  ctx.count(f'hosted_vs_in_ram_pairs:seed-class-{seed_class(case["seed"])}')
  if case['seed'] < 0 or case['seed'] >= 2 ** 32:
    ctx.count('hosted_vs_in_ram_pairs_wide_seed')
  if twin == base:
    return
  at = X.flat_first_diff(twin, base)
  n_first = len(base[0]) if isinstance(base, list) and base and isinstance(base[0], list) else 0
  if isinstance(twin, tuple):
    where = 'in-ram-raises'
  else:
    where = 'from-first-request' if at is not None and at <= n_first else 'after-restore'
  sc_ = {0: 'seed-0', 4: 'negative-seed', 6: 'seed-beyond-32-bits'}.get(
      seed_class(case['seed']), 'seed')
  ctx.violation(f'not-reproducible:{kind}:restored-per-request-vs-in-ram:{where}:{sc_}',
                f'{kind} (seed {case["seed"]}): rebuilt and restored from the study metadata '
                'at every request it produced another suggestion stream than one designer '
                'object kept in RAM (same seed, problem and history)',
                dict(case, variant='in-ram-twin'),
                {'first_difference': X.first_diff(twin, base) if isinstance(twin, list) else twin,
                 'first_difference_at_suggestion': at,
                 'in_ram': twin if isinstance(twin, tuple) else twin[:3],
                 'restored_per_request': base[:3]})


def check_shared_experimenter(ctx, case, base):
  """Consecutive seeded runs on ONE deterministic experimenter vs brand-new objects."""
  seeds = case['reuse_seeds']
  kind = case['designer']['kind']
  tag = f'shared-experimenter:{case["policy"]}-policy'
  try:
    runs, problems = X.execute_shared(case, seeds)
  except Exception as e:  # pylint: disable=broad-except
    ctx.violation(f'bench-not-reproducible:{kind}:{tag}:raises',
                  f'a later run on the same experimenter raised {type(e).__name__}: '
                  f'{str(e)[:200]} where the run of new objects did not',
                  dict(case, variant='shared-experimenter'))
    return
  for j, (s, got) in enumerate(zip(seeds, runs)):
    ctx.count('bench_shared_problem_pairs')
    if problems[j] != problems[0]:
      changed = [k for k in problems[0] if problems[0][k] != problems[j][k]]
      ctx.violation(f'bench-not-reproducible:{kind}:{tag}:problem-statement-changed:'
                    + '+'.join(c for c in changed if c != 'metadata_head'),
                    f'run {j} on the same experimenter object was handed another problem '
                    'statement than the first run',
                    dict(case, variant='shared-experimenter'),
                    {'run_index': j, 'first': problems[0], 'this': problems[j]})
      problems = [problems[0]] * len(problems)     # named once; the runs are still compared
    if s != case['seed']:
      continue
    ctx.count('bench_shared_experimenter_pairs')
    ctx.count(f'bench_shared_experimenter_pairs:{case["policy"]}')
    ok = compare(ctx, case, 'shared-experimenter', base, got,
                 {'reuse_seeds': seeds, 'run_index': j, 'policy': case['policy']},
                 mech_suffix=f':{case["policy"]}-policy' + reuse_suffix(case, seeds, j, base, got))
    if not ok:
      return


def reuse_suffix(case, seeds, j, base, got):
  """Names the anomaly of run j of a reused factory from the shape of the witness."""
  when = 'first-run' if j == 0 else (
      'same-seed-again' if all(s == case['seed'] for s in seeds[:j]) else 'after-other-seed')
  what = 'raises' if not isinstance(got, list) else 'trial-count'
  if isinstance(got, list) and isinstance(base, list) and len(got) == len(base):
    same_params = all(a[:2] == b[:2] for a, b in zip(base, got))
    what = 'measurements-differ' if same_params else 'suggestions-differ'
  return f':{when}:{what}'


def check_reused_factory(ctx, case, base):
  """Runs of one long-lived state factory + runner vs the run of brand-new ones.

  `base` is the trial sequence of the case executed with everything built anew;
  every run of the reused objects with the case's seed must reproduce it, no
  matter which seeded runs the same objects served before.
  """
  seeds = case['reuse_seeds']
  try:
    runs = X.execute_reused(case, seeds)
  except Exception as e:  # pylint: disable=broad-except
    ctx.violation(f'bench-not-reproducible:{case["designer"]["kind"]}:reused-factory:raises',
                  f'a reused state factory raised {type(e).__name__}: {str(e)[:200]} where a '
                  'new one ran', dict(case, variant='reused-factory'))
    return
  for j, (s, got) in enumerate(zip(seeds, runs)):
    if s != case['seed']:
      continue
    ctx.count('bench_reused_factory_pairs')
    if case['noise'] not in (None, 'NO_NOISE'):
      ctx.count('bench_reused_factory_pairs_noisy')
    ok = compare(ctx, case, 'reused-factory', base, got,
                 {'reuse_seeds': seeds, 'run_index': j},
                 mech_suffix=reuse_suffix(case, seeds, j, base, got))
    if not ok:
      return


def check_seed_sensitivity(ctx, kind, index):
  rng = ctx.rng(index, 'sens')
  if kind in X.GP_KINDS:
    case = gen_gp_seed_stage_case(rng, kind)
  else:
    case = gen_stream_case(rng, kind, big=True, wrap=rng.choice(['direct', 'inram_policy']))
  if kind == 'sgrid':
    assert L.n_points(case['problem'], case['designer']['cfg'].get('res', 10)) >= 2 ** 10
  assert cardinality(case['problem']) >= 2 ** 10
  seeds = [0, rng.randint(1, 2 ** 16), rng.randint(2 ** 16, 2 ** 31 - 1)]
  rng.shuffle(seeds)
  streams = []
  for s in seeds:
    r = safe_execute(ctx, dict(case, seed=s))
    if isinstance(r, tuple):
      ctx.count(f'base_raised:{kind}:{r[1]}')
      return
    streams.append(r)
    if len(streams) >= 2:
      ctx.count('seed_sensitivity_pairs')
      ctx.count(f'seed_sensitivity_pairs:{kind}')
      if streams[-1] != streams[-2]:
        ctx.case(['sens'] + abstraction(case), True)
        return
  ctx.case(['sens'] + abstraction(case), True)
  ctx.violation(f'seed-ignored:{kind}' + (':inram-policy' if case.get('wrap') == 'inram_policy'
                                          else ''),
                f'{kind}: three pairwise different seeds {seeds} produced one and the same '
                'suggestion stream on a space with >= 2**10 points',
                dict(case, variant='seed-sensitivity', seeds=seeds),
                {'stream_head': streams[0][0][:2] if streams[0] else None})


def check_fresh_process(ctx, stored, index, budget_s):
  """Re-executes stored cases in one child with another PYTHONHASHSEED."""
  if not stored:
    return
  rng = ctx.rng(index, 'child')
  hashseed = rng.choice([1, 12345, 4294967295])
  res = child_run([c for c, _, _ in stored], hashseed, rng.getrandbits(20),
                  timeout=max(60.0, budget_s))
  if res is None:
    ctx.inconclusive_reason('fresh-process child produced no result (timeout)')
    return
  ctx.count('child_processes')
  for (case, base, _), stream, err in zip(stored, res['streams'], res['errors']):
    if err is not None:
      ctx.violation(f'not-reproducible:{case["designer"]["kind"]}:fresh-process-raises',
                    f'the fresh process raised {err}', dict(case, variant='fresh-process'))
      continue
    compare(ctx, case, 'fresh-process', base, stream, {'child_hashseed': res['hashseed']})


def check_after_servicer(ctx, stored):
  """Constructs a PythiaServicer (flips jax_enable_x64) and re-executes stored cases."""
  import jax
  from vizier._src.service import pythia_service
  before = bool(jax.config.jax_enable_x64)
  pythia_service.PythiaServicer()
  after = bool(jax.config.jax_enable_x64)
  if after and not before:
    ctx.count('x64_flip_observed')
  for n_done, (case, base, _) in enumerate(stored):
    # (cheapest first) a shard that is late still re-executes three cheap cases:
    # the monitor must not go unobserved only because the machine was busy
    if ctx.out_of_time() and n_done >= 3:
      break
    other = safe_execute(ctx, case)
    if isinstance(other, tuple):
      ctx.violation(f'not-reproducible:{case["designer"]["kind"]}:after-servicer-raises',
                    f'after PythiaServicer(): raised {other}', dict(case, variant='after-servicer'))
      continue
    compare(ctx, case, 'after-servicer', base, other,
            {'jax_enable_x64_before': before, 'jax_enable_x64_after': after})


# ---------------------------------------------------------------------------
# GP tasks (dedicated, at the head of a shard)
# ---------------------------------------------------------------------------
def gp_task(ctx, t):
  rng = ctx.rng(10 ** 6 + t, 'gp')
  kind = ['gp_bandit', 'gp_bandit', 'gp_ucb_pe', 'gp_ucb_pe'][t % 4]
  mode = ['same-process', 'fresh-process'][t % 2]
  case = gen_gp_full_case(rng, kind, ctx.tier)
  if t < 4:
    case['seed'] = [0, 1, 0, 5][t]
  handle = None
  if mode == 'fresh-process':
    handle = child_start([case], rng.choice([1, 12345]), rng.getrandbits(20))
  base = safe_execute(ctx, case)
  if isinstance(base, tuple):
    ctx.count(f'base_raised:{kind}:{base[1]}')
    if handle:
      child_finish(handle, 5)
    return
  ctx.case(abstraction(case) + [mode], True)
  if mode == 'same-process':
    k = rng.getrandbits(24)
    other = safe_execute(ctx, case, shift=-86400.0 * 400 - k, perturb=k)
    compare(ctx, case, 'perturbed', base, other, {'perturb': k})
    return
  res = child_finish(handle, timeout=600)
  if res is None or res['errors'][0] is not None:
    ctx.inconclusive_reason(f'GP fresh-process child failed: {res and res["errors"][0]}')
    return
  ctx.count('gp_fresh_process_pairs')
  if res['streams'][0] == base:
    compare(ctx, case, 'fresh-process', base, res['streams'][0])
    return
  # mismatch: must be stable over 3 more fresh processes to count
  again = []
  for j in range(3):
    r = child_run([case], 100 + j, rng.getrandbits(20), timeout=600)
    again.append(r['streams'][0] if r and r['errors'][0] is None else None)
  if all(a is not None and a == res['streams'][0] for a in again):
    compare(ctx, case, 'fresh-process', base, res['streams'][0],
            {'stable_over_reruns': 3, 'child_hashseed': res['hashseed']})
  else:
    ctx.count('gp_cross_process_unstable_mismatch')
    ctx.note(f'GP cross-process mismatch not stable over 3 re-runs ({kind}); not counted')


# ---------------------------------------------------------------------------
_OLD_SLOTS = (
    [('stream', k) for k in X.STREAM_KINDS] * 2
    + [('bench', k) for k in ('random', 'qr', 'eagle', 'nsga2', 'sgrid')]
    + [('sens', k) for k in X.STREAM_KINDS + X.GP_KINDS]
    + [('gpseed', k) for k in X.GP_KINDS]
    + [('stream', 'eagle'), ('bench', 'cmaes')]
)   # 29 slots


def _schedule():
  # the phase / reused-factory slots recur every 4-5 slots so that every shard meets
  # both among its first cases whatever the number of shards
  out, old = [], list(_OLD_SLOTS)
  for j in range(8):
    out.append(('phase', 'eagle') if j % 2 == 0 else ('benchf', None))
    # a designer restored per request vs its in-RAM twin / one experimenter object
    # serving several runs: each every ~10 slots
    if j % 2 == 0:
      out.append(('hosted', 'sgrid' if j % 4 == 0 else None))
    else:
      out.append(('benchs', None))
    n = 4 if j < 5 else 3
    out.extend(old[:n])
    old = old[n:]
  assert not old
  # 45 slots would share factors with 6 / 12 shards: pad to 47 (prime)
  out.insert(23, ('hosted', 'sgrid'))
  out.insert(35, ('benchs', None))
  return out


SCHEDULE = _schedule()    # 47 slots (prime)
assert len(SCHEDULE) == 47


def gen_case(rng, slot, index=0):
  typ, kind = slot
  if typ == 'stream':
    return gen_stream_case(rng, kind)
  if typ == 'bench':
    return gen_bench_case(rng, kind)
  if typ == 'benchf':
    return gen_bench_factory_case(rng, kind)
  if typ == 'phase':
    return gen_phase_case(rng, kind)
  if typ == 'hosted':
    return gen_hosted_case(rng, kind, index)
  if typ == 'benchs':
    return gen_bench_shared_case(rng, kind, index)
  if typ == 'gpseed':
    return gen_gp_seed_stage_case(rng, kind)
  raise ValueError(typ)


def my_cheap_cases(ctx, limit):
  """The first `limit` executable (non-sensitivity) cheap cases of this shard, in order."""
  out = []
  n_cases = (40 if ctx.tier == 'quick' else 1500) * len(SCHEDULE)
  for i in range(n_cases):
    if len(out) >= limit:
      break
    if not ctx.mine(i):
      continue
    slot = SCHEDULE[i % len(SCHEDULE)]
    if slot[0] == 'sens':
      continue
    case = gen_case(ctx.rng(i), slot, i)
    case['index'] = i
    out.append(case)
  return out


def run_shard(ctx):
  quick = ctx.tier == 'quick'
  B = ctx.budget_s
  my_gp = [t for t in range(N_GP_TASKS[ctx.tier]) if t % ctx.nshards == ctx.shard]
  if os.environ.get('VV_C14_NO_GP'):      # development only: the run ends INCONCLUSIVE
    my_gp = []
  # ---- fresh process: started first, collected after phase 1 -----------------------
  # (cases are a function of (seed, index): the child gets this shard's first K)
  crng = ctx.rng(ctx.shard, 'child')
  child_cases = my_cheap_cases(ctx, 30 if quick else 400)
  handle = None
  # quick tier: every other GP-free shard starts a child (the GP shards start
  # their own); fewer processes, same monitors
  if not quick or ctx.nshards < 8 or (not my_gp and ctx.shard % 2 == 1):
    handle = child_start(child_cases, crng.choice([1, 12345, 4294967295]),
                         crng.getrandbits(20))
  # ---- phase 0: GP tasks ------------------------------------------------------------
  for t in my_gp:
    if t >= ctx.nshards and ctx.elapsed() > 0.5 * B:
      ctx.note(f'GP task {t} skipped: time')
      continue
    gp_task(ctx, t)
  # ---- phase 1: cheap cases -----------------------------------------------------------
  n_cases = (40 if quick else 1500) * len(SCHEDULE)
  state = {'prev': None, 'stored': []}
  # shards that carried a GP task still get a slice of cheap work
  phase1_end = max(0.6 * B, ctx.elapsed() + 0.2 * B)
  for i in range(n_cases):
    if not ctx.mine(i):
      continue
    if ctx.elapsed() > phase1_end:
      ctx.note(f'phase 1 ended at case {i}')
      break
    slot = SCHEDULE[i % len(SCHEDULE)]
    if slot[0] == 'sens':
      check_seed_sensitivity(ctx, slot[1], i)
      continue
    case = gen_case(ctx.rng(i), slot, i)
    case['index'] = i
    if i < 2 * ctx.nshards:
      ctx.sample({k: case[k] for k in case if k not in ('problem',)})
    base = check_case(ctx, case, i, state)
    if base is not None and case.get('via') == 'shared_exptr':
      check_shared_experimenter(ctx, case, base)
    elif base is not None and case.get('reuse_seeds'):
      check_reused_factory(ctx, case, base)
  stored = state['stored']
  by_index = {c['index']: (c, b) for c, b, _ in stored}
  # ---- phase 2: collect the fresh process ----------------------------------------------
  if handle is not None:
    res = child_finish(handle, timeout=max(5.0, 0.85 * B - ctx.elapsed()) if quick else 0.3 * B)
    if res is None:
      ctx.count('child_timeouts')
      ctx.note('fresh-process child did not finish in its window')
    else:
      ctx.count('child_processes')
      for case, stream, err in zip(child_cases, res['streams'], res['errors']):
        if case['index'] not in by_index:
          continue      # the parent did not get that far
        pcase, base = by_index[case['index']]
        if err is not None:
          ctx.violation(f'not-reproducible:{case["designer"]["kind"]}:fresh-process-raises',
                        f'the fresh process raised {err}', dict(pcase, variant='fresh-process'))
          continue
        compare(ctx, pcase, 'fresh-process', base, stream,
                {'child_hashseed': res['hashseed']})
  # ---- phase 3: the x64 flip (last: it is process-global and permanent) -----------------
  stored.sort(key=lambda s: s[2])
  share = 0.12 * B
  keep, spent = [], 0.0
  for s_ in stored:
    if spent + s_[2] > share and len(keep) >= 8:
      break
    keep.append(s_)
    spent += s_[2]
  check_after_servicer(ctx, keep)


def replay(ctx, case):
  variant = case.get('variant', 'repeat')
  case = {k: v for k, v in case.items() if k not in ('variant',)}
  if variant == 'seed-sensitivity':
    seeds = case.pop('seeds')
    streams = [safe_execute(ctx, dict(case, seed=s)) for s in seeds]
    if all(s == streams[0] for s in streams):
      ctx.violation(f'seed-ignored:{case["designer"]["kind"]}', 'replayed', case)
    return
  base = safe_execute(ctx, case)
  if variant == 'shared-experimenter' or (
      variant == 'reused-factory' and case.get('via') == 'shared_exptr'):
    check_shared_experimenter(ctx, case, base)
    return
  if variant == 'in-ram-twin':
    check_in_ram_twin(ctx, case, base)
    return
  if variant == 'reused-factory':
    check_reused_factory(ctx, case, base)
    return
  if variant in ('repeat', 'interleaved'):
    other = safe_execute(ctx, case)
  elif variant == 'perturbed':
    other = safe_execute(ctx, case, shift=-4e7, perturb=99)
  elif variant == 'fresh-process':
    r = child_run([case], 12345, 7, timeout=900)
    other = r['streams'][0] if r else None
  else:
    from vizier._src.service import pythia_service
    pythia_service.PythiaServicer()
    other = safe_execute(ctx, case)
  compare(ctx, case, variant, base, other)
