"""C11 — optimal trials are exactly the non-dominated completed trials.

Two workloads, both decided by a literal O(n^2) python-float oracle:

* point sets (`kind='array'`): every Pareto routine of the library is run on
  adversarial multisets (small lattices => duplicates and single-coordinate
  ties, +-inf, constant first coordinate, chains, antichains, float64-only
  distinctions, near ties that float32 still tells apart, NaN rows) and compared with the definition:
  is_pareto_optimal (naive / divide-and-conquer at five thresholds over both
  bases / JAX), is_frontier + get_frontier at several shard counts,
  is_pareto_optimal_against (strict and non-strict, each against its own
  literal definition), update_pareto_optimal, xla pareto_rank and
  nsga2._pareto_rank (== number of dominating points); plus row-order
  invariance (a function of a multiset may not depend on the order).
* study histories (`kind='history'`, see vv/c11_study.py): SUCCEEDED /
  INFEASIBLE / ACTIVE / STOPPING / REQUESTED / missing-metric / NaN-objective
  trials under mixed goals and 0..3 safety metrics (each reported or not per
  trial), asked through VizierServicer.ListOptimalTrials (RAM and SQL
  datastores, trials inserted directly or driven through the client RPCs),
  clients.Study.optimal_trials and InRamPolicySupporter.GetBestTrials. Metrics
  are identified by name: trials list their metrics in their own order, the
  study configuration lists objectives and safety metrics in any order under
  several naming schemes, unconfigured metrics carry names close to
  configured ones. Objective values are small integers or near ties (values
  differing by far less than their magnitude: close is not equal), safety values
  sit on / a hair beside their threshold. The two workloads are interleaved.
"""
import math

import numpy as np

from vv import c11_study

PROPERTY = 'C11'
LEVEL = 'exploration'
RULE = (
    'point sets: multisets of 0..40 (thorough 0..90) points in 1..4 dims from 15 '
    'generator classes (lattices of 2/3/5 values, negative lattice, +-inf entries, few '
    'distinct points repeated, constant first coordinate, chain, antichain, multiples '
    'of 1/8, float64-only distinctions, huge magnitudes, copies of one point, NaN rows, '
    'near ties exact in float32: per coordinate steps of 1 on +-2^20 / 2^-20 on +-1 / '
    '2^-40 around 0, shared by the point set and the against set) x '
    '~40 routine configurations; history: 0..14 trials of 9 kinds x 1..3 objectives with '
    'mixed goals x 0..3 safety metrics (thresholds 0/0.5/1/2, each reported by a trial '
    'with probability 1/0.85/0.6; trials breaking a threshold often carry the best '
    'objective values) x {RAM,SQL} x {direct insert, client RPC path} x GetBestTrials '
    'count in {None,1,2,3,5} x presentation: 4 naming schemes (config order != sorted '
    'order, names differing by case / prefix), configuration order canonical or shuffled '
    '(safety metrics before / between objectives), metrics listed by every trial in '
    'config order / one other common order / its own order, unconfigured metrics named '
    'like configured ones; x value profile: small integers (40%) or near ties (steps of '
    '1 on ~2^20 / 1e6, of 2^-20 on ~1, of 2^-40 around 0, all float32-exact; or of 2^-30 '
    'on 0.1/1/1e6, float64 only: GetBestTrials is then skipped and counted), non-'
    'qualifying trials then carry values only just better than the best, safety values '
    'lie on / 2^-20 beside their threshold. Point sets and histories are interleaved in rounds (32:10). '
    'Non-trivial = at least one dominated point / non-qualifying trial or a tie; distinct '
    '= hash of (class, n, d, #distinct points, #optimal, tie pattern, non-finite pattern) '
    'resp. (goals, shape and sortedness of the configuration order, multiset of trial '
    'kinds, #optimal, mode, count, reporting-order profile, value profile).')
ASSUMPTIONS = [
    'oracle: p dominates q iff p>=q in every coordinate and p>q in one (python floats, '
    'IEEE: NaN dominates nothing and is dominated by nothing)',
    'JAX routines compute in float32: they are only given point sets whose values are '
    'exactly representable in float32 (lattices, multiples of 1/8, +-inf); '
    'InRamPolicySupporter.GetBestTrials converts labels to float32 as well, histories '
    'only use such values',
    'NaN rows in *array* routines are outside the quantifier of the property; there only '
    'row-order invariance is demanded (the same multiset must give the same answer). '
    'NaN objectives of *trials* are inside it (never reported).',
    'a 0-d boolean returned for a single point (FastParetoOptimalAlgorithm 1-D branch '
    'uses .squeeze()) is normalised with atleast_1d and only counted, the truth value is '
    'what the property speaks about',
    'studies with a safety metric: the result may agree with any of five readings of the '
    'property (safety metric as one more objective; unsafe trials warped to the worst '
    'value as documented by SafetyChecker, with or without demanding the safety metric '
    'be reported; unsafe trials excluded, ditto); a violation needs all five to disagree. '
    'With several safety metrics a trial is unsafe iff some safety metric it *reports* is '
    'beyond its threshold (unreported ones are assumed fine, the documented rule of '
    'SafetyChecker); "safety required" means every safety metric reported',
    'metrics are identified by name: the answer may not depend on the order in which a '
    'trial lists its metrics, on the order or spelling of the names in the study '
    'configuration, or on unconfigured metrics. The verdict always comes from the '
    'definition; re-asking the same history in configuration order / canonical '
    'configuration order / canonical names is only used to name a disagreement '
    '(mechanism suffix :depends-on-metric-report-order / -config-order / -names)',
    'near ties: numbers are compared exactly, as the definition does (a trial whose value '
    'is merely close to the best is dominated); no tolerance is granted to any route. '
    'Near-tie histories whose values float32 cannot hold exactly are not given to '
    'GetBestTrials (float32 labels). The suffix :near-tie-with-an-optimal-trial / '
    ':near-tie-with-a-reported-trial of a mechanism id is computed from the closeness '
    'relation (|a-b| <= 1e-7 + 1e-4 max(|a|,|b|)) of the wrongly reported / missing '
    'trials to the optimal / reported ones and only names the disagreement',
    'order of optimal trials is unspecified: compared as sets of trial ids (duplicates '
    'in the answer are a violation)',
    'optimal_trials(count=k) raising ValueError("Count not supported.") is a documented '
    'refusal',
    'GetBestTrials(count=k): single objective = any k trials whose values are the k best '
    '(ties arbitrary); multi objective = any min(k, |front|) distinct front members',
]
REQUIRED_COUNTERS = [
    'ties:naive', 'ties:fast', 'ties:fast_jaxbase', 'ties:jax', 'ties:is_frontier',
    'ties:against_naive', 'ties:against_fast', 'ties:against_jax',
    'ties:rank_xla', 'ties:rank_nsga2', 'ties:update', 'ties:get_frontier',
    'against_equal_points_seen', 'sets_with_dominated_points', 'sets_with_inf',
    'order_invariance_checked', 'nan_sets_checked',
    'hist:service_ram', 'hist:service_sql', 'hist:client', 'hist:getbest',
    'hist:rpc_mode', 'hist:with_nonqualifying', 'hist:with_ties', 'hist:with_safety',
    'hist:single_objective', 'hist:multi_objective', 'hist:mixed_goals',
    'hist:getbest_count',
    # presentation of metrics (observed on what the datastore / supporter holds)
    'hist:service_report_orders_differ', 'hist:getbest_report_orders_differ',
    'hist:config_order_not_alphabetical', 'hist:safety_configured_before_an_objective',
    'hist:unconfigured_metric_with_similar_name',
    # several safety metrics, partially reported, and histories where the safety
    # verdicts decide the answer
    'hist:multi_safety', 'hist:safety_partially_reported',
    'hist:safety_verdict_decides_answer',
    'hist_unsafe:an-earlier-safety-metric-unreported',
    'hist_unsafe:an-earlier-safety-metric-within-threshold',
    'hist_unsafe:a-later-safety-metric-within-threshold',
    # near ties: a dominated point / trial within a hair of an optimal one
    'sets_near_tie_decides_answer', 'sets_near_tie_decides_answer:jax',
    'hist:near_tie_decides_answer:single', 'hist:near_tie_decides_answer:multi',
    'hist:values_only_float64_holds', 'hist:safety_value_near_threshold',
    'array_cases_run', 'history_cases_run',
]
MIN_DISTINCT = {'quick': 600, 'thorough': 4000}

THRESHOLDS = [1, 2, 3, 5, 10000]
SHARDS = [1, 2, 3, 5, 10]


def plan(tier, seed):
  return {'shards': 12 if tier == 'quick' else 16,
          'budget_s': 50 if tier == 'quick' else 900}


# ---------------------------------------------------------------------------
# the oracle (pure python floats, literal definition)
# ---------------------------------------------------------------------------
def dominates(p, q):
  ge = True
  gt = False
  for a, b in zip(p, q):
    if not a >= b:
      ge = False
      break
    if a > b:
      gt = True
  return ge and gt


def geq_all(p, q):
  for a, b in zip(p, q):
    if not a >= b:
      return False
  return True


def brute_rank(P):
  return [sum(1 for p in P if dominates(p, q)) for q in P]


def brute_optimal(P):
  return [r == 0 for r in brute_rank(P)]


def brute_against(P, A, strict):
  """strict: only a strictly dominating point of A disqualifies; non strict:
  an equal point of A disqualifies as well (the docstring of the base class)."""
  out = []
  for q in P:
    if strict:
      out.append(not any(dominates(a, q) for a in A))
    else:
      out.append(not any(geq_all(a, q) for a in A))
  return out


# ---------------------------------------------------------------------------
# generators
# ---------------------------------------------------------------------------
CLASSES = ['lat2', 'lat3', 'lat5', 'neg', 'inf', 'dups', 'tie0', 'chain', 'anti',
           'frac', 'f64only', 'huge', 'copies', 'nan', 'near32']
F32_UNSAFE = {'f64only', 'huge'}
INF = float('inf')


def gen_n(rng, tier):
  if tier == 'quick':
    return rng.choice([0, 1, 2, 2, 3, 3, 4, 4, 5, 6, 7, 8, 9, 10, 12, 14, 16, 20, 25, 32, 40])
  return rng.choice([0, 1, 2, 3, 4, 5, 6, 7, 8, 9, 10, 11, 12, 13, 14, 16, 18, 20, 24,
                     28, 32, 36, 40, 50, 64, 90])


def gen_value(rng, cls):
  if cls == 'lat2':
    return float(rng.randint(0, 1))
  if cls in ('lat3', 'tie0', 'inf', 'nan'):
    return float(rng.randint(0, 2))
  if cls == 'lat5':
    return float(rng.randint(0, 4))
  if cls == 'neg':
    return float(rng.randint(-2, 2))
  if cls == 'frac':
    return rng.randint(-16, 16) / 8.0
  if cls == 'f64only':
    return rng.choice([1.0, 1.0 + 2.0 ** -40, 1.0 - 2.0 ** -40, 1e-320, 0.0, -0.0, 2.0])
  if cls == 'huge':
    return rng.choice([1e300, -1e300, 1.7e308, -1.7e308, 1e39, 3e38, 0.0, INF, -INF])
  return float(rng.randint(0, 2))


NEAR_COLS = [(2.0 ** 20, 1.0), (-2.0 ** 20, 1.0), (1.0, 2.0 ** -20), (-1.0, 2.0 ** -20),
             (0.0, 2.0 ** -40)]


def gen_points(rng, cls, n, d, cols=None):
  if cls == 'dups':
    k = rng.randint(1, 4)
    base = [[float(rng.randint(0, 2)) for _ in range(d)] for _ in range(k)]
    return [list(rng.choice(base)) for _ in range(n)]
  if cls == 'copies':
    p = [float(rng.randint(0, 2)) for _ in range(d)]
    pts = [list(p) for _ in range(n)]
    if n and rng.random() < 0.5:
      pts[rng.randrange(n)] = [v + rng.choice([-1.0, 1.0]) for v in p]
    return pts
  if cls == 'chain':
    pts = [[float(i // rng.choice([1, 2]))] * d for i in range(n)]
    rng.shuffle(pts)
    return pts
  if cls == 'anti':
    pts = []
    for i in range(n):
      v = float(rng.randint(0, max(1, n // 2)))
      pts.append([v if k % 2 == 0 else -v for k in range(d)])
    return pts
  if cls == 'near32':
    # near ties that float32 still tells apart (so the JAX routines see them too):
    # per coordinate steps of 1 on +-2**20, of 2**-20 on +-1, or of 2**-40 around 0
    cols = cols or [rng.choice(NEAR_COLS) for _ in range(d)]
    return [[b + rng.randint(-1, 1) * s for b, s in cols] for _ in range(n)]
  pts = [[gen_value(rng, cls) for _ in range(d)] for _ in range(n)]
  if cls == 'tie0':
    c = float(rng.randint(0, 2))
    for p in pts:
      p[0] = c
    if n >= 3 and rng.random() < 0.4:
      pts[rng.randrange(n)][0] = c + rng.choice([-1.0, 1.0])
  if cls == 'inf':
    for p in pts:
      for k in range(d):
        if rng.random() < 0.2:
          p[k] = rng.choice([INF, -INF])
  if cls == 'nan':
    if n:
      rows = rng.sample(range(n), max(1, min(n, rng.choice([1, 1, 2, 3]))))
      for r in rows:
        if rng.random() < 0.5:
          pts[r] = [float('nan')] * d
        else:
          pts[r][rng.randrange(d)] = float('nan')
      if rng.random() < 0.4:      # the interesting position: first row
        pts[0], pts[rows[0]] = pts[rows[0]], pts[0]
  return pts


def gen_array_case(rng, tier, index):
  cls = CLASSES[index % len(CLASSES)]
  n = gen_n(rng, tier)
  d = rng.choice([1, 2, 2, 3, 3, 4])
  cols = [rng.choice(NEAR_COLS) for _ in range(d)] if cls == 'near32' else None
  P = gen_points(rng, cls, n, d, cols)
  # second set for the *_against routines: same class, often sharing points
  m = rng.choice([0, 1, 2, 3, 4, 5, 8, 12])
  acls = cls if cls != 'nan' else 'lat3'
  A = gen_points(rng, acls, m, d, cols)
  if P and A and rng.random() < 0.6:
    for _ in range(rng.randint(1, 3)):
      A[rng.randrange(len(A))] = list(rng.choice(P))
  if cls == 'nan':
    A = [[0.0 if v != v else v for v in a] for a in A]
  return {'kind': 'array', 'class': cls, 'd': d, 'P': P, 'A': A,
          'perm_seed': rng.getrandbits(30), 'index': index}


def _f(x):
  return float(x)


def arr(P, d):
  return np.array([[_f(v) for v in p] for p in P], dtype=np.float64).reshape(len(P), d)


def ties_in(P):
  """Two points sharing a coordinate value (this includes duplicates)."""
  if len(P) < 2:
    return False
  d = len(P[0])
  for k in range(d):
    col = [p[k] for p in P]
    if len(set(col)) < len(col):
      return True
  return False


# ---------------------------------------------------------------------------
# classification of a disagreement (shape only, never values)
# ---------------------------------------------------------------------------
def fp_fn(exp, got):
  fp = [i for i, (e, g) in enumerate(zip(exp, got)) if g and not e]
  fn = [i for i, (e, g) in enumerate(zip(exp, got)) if e and not g]
  return fp, fn


def classify_fast(P, exp, got):
  """FastParetoOptimalAlgorithm.is_pareto_optimal."""
  fp, fn = fp_fn(exp, got)
  if fn:
    return 'fast:is_pareto_optimal:optimal-point-dropped'
  # dominated point kept: which dominators does it have?
  only_first_coordinate_ties = True
  for i in fp:
    for p in P:
      if dominates(p, P[i]) and p[0] != P[i][0]:
        only_first_coordinate_ties = False
  if only_first_coordinate_ties:
    return 'fast:is_pareto_optimal:dominated-kept:every-dominator-ties-on-first-coordinate'
  return 'fast:is_pareto_optimal:dominated-kept:dominator-with-greater-first-coordinate'


def classify_generic(subject, exp, got):
  fp, fn = fp_fn(exp, got)
  what = 'both' if fp and fn else ('dominated-kept' if fp else 'optimal-point-dropped')
  return f'{subject}:{what}'


# ---------------------------------------------------------------------------
# subjects
# ---------------------------------------------------------------------------
_S = {}


def subjects():
  if _S:
    return _S
  from vizier._src.pyvizier.multimetric import pareto_optimal as po
  from vizier._src.jax import xla_pareto
  from vizier._src.algorithms.evolution import nsga2
  _S['po'] = po
  _S['xla'] = xla_pareto
  _S['nsga2'] = nsga2
  _S['naive'] = po.NaiveParetoOptimalAlgorithm()
  _S['jax'] = xla_pareto.JaxParetoOptimalAlgorithm()
  _S['fast'] = {t: po.FastParetoOptimalAlgorithm(recursive_threshold=t) for t in THRESHOLDS}
  _S['fast_default'] = po.FastParetoOptimalAlgorithm()
  _S['fastjax'] = {t: po.FastParetoOptimalAlgorithm(
      xla_pareto.JaxParetoOptimalAlgorithm(), recursive_threshold=t) for t in THRESHOLDS}
  return _S


def as_bool_vector(ctx, got, n, tag):
  """Normalises a routine's answer; returns None when it is not n booleans."""
  g = np.asarray(got)
  if g.ndim == 0 and n == 1:
    ctx.count('zero_dim_answer_normalised:' + tag)
    g = np.atleast_1d(g)
  if g.shape != (n,):
    return None
  return [bool(v) for v in g]


def run_bool(ctx, case, tag, mech_fn, fn, exp, P, extra=None):
  """Runs one routine returning a boolean vector and compares with `exp`."""
  n = len(exp)
  try:
    got = fn()
  except Exception as e:  # pylint: disable=broad-except
    ctx.violation(f'{tag}:raised:{type(e).__name__}',
                  f'{tag} raised {type(e).__name__}: {e}', case,
                  {'subject': tag, 'extra': extra})
    return None
  vec = as_bool_vector(ctx, got, n, tag.split(':')[0])
  if vec is None:
    ctx.violation(f'{tag}:bad-shape',
                  f'{tag} returned shape {np.asarray(got).shape} for {n} points', case,
                  {'subject': tag, 'extra': extra})
    return None
  if vec != exp:
    mech = mech_fn(exp, vec)
    fp, fn_ = fp_fn(exp, vec)
    ctx.violation(mech, f'{tag} disagrees with the brute-force definition '
                  f'({len(fp)} dominated kept, {len(fn_)} optimal dropped)', case,
                  {'subject': tag, 'extra': extra, 'expected': exp, 'got': vec,
                   'dominated_kept': [P[i] for i in fp][:4],
                   'optimal_dropped': [P[i] for i in fn_][:4]})
  return vec


def check_array(ctx, case, jax_on=True):
  S = subjects()
  d = case['d']
  P = [[_f(v) for v in p] for p in case['P']]
  A = [[_f(v) for v in a] for a in case['A']]
  cls = case['class']
  n = len(P)
  X = arr(P, d)
  Y = arr(A, d)
  has_nan = any(v != v for p in P for v in p)
  if has_nan:
    check_nan_set(ctx, case, S, P, X, d, jax_on)
    return
  exp = brute_optimal(P)
  rank = brute_rank(P)
  ties = ties_in(P)
  n_opt = sum(exp)
  distinct_pts = len({tuple(p) for p in P})
  has_inf = any(math.isinf(v) for p in P for v in p)
  first_tie = len({p[0] for p in P}) < n
  ctx.case(['array', cls, n, d, distinct_pts, n_opt, ties, first_tie, has_inf,
            len(A), jax_on], nontrivial=(n >= 2 and (n_opt < n or ties)))
  if n_opt < n:
    ctx.count('sets_with_dominated_points')
  if has_inf:
    ctx.count('sets_with_inf')
  near_decides = any(
      c11_study.near_tied(p, q) for p, e in zip(P, exp) if not e
      for q, f in zip(P, exp) if f)
  if near_decides:
    # a dominated point within a hair of an optimal one
    ctx.count('sets_near_tie_decides_answer')
    if jax_on and cls not in F32_UNSAFE:
      ctx.count('sets_near_tie_decides_answer:jax')
  jax_ok = jax_on and cls not in F32_UNSAFE
  if jax_on and not jax_ok:
    ctx.count('jax_skipped_not_float32_exact')

  def tick(name):
    ctx.count('sets:' + name)
    if ties:
      ctx.count('ties:' + name)

  # ---- is_pareto_optimal --------------------------------------------------
  tick('naive')
  run_bool(ctx, case, 'naive:is_pareto_optimal',
           lambda e, g: classify_generic('naive:is_pareto_optimal', e, g),
           lambda: S['naive'].is_pareto_optimal(X.copy()), exp, P)
  for t in THRESHOLDS:
    tick('fast')
    run_bool(ctx, case, 'fast:is_pareto_optimal',
             lambda e, g: classify_fast(P, e, g),
             lambda t=t: S['fast'][t].is_pareto_optimal(X.copy()), exp, P,
             {'recursive_threshold': t, 'base': 'naive'})
  if jax_ok:
    for t in THRESHOLDS:
      tick('fast_jaxbase')
      run_bool(ctx, case, 'fast:is_pareto_optimal',
               lambda e, g: classify_fast(P, e, g),
               lambda t=t: S['fastjax'][t].is_pareto_optimal(X.copy()), exp, P,
               {'recursive_threshold': t, 'base': 'jax'})
    tick('jax')
    run_bool(ctx, case, 'jax:is_pareto_optimal',
             lambda e, g: classify_generic('jax:is_pareto_optimal', e, g),
             lambda: S['jax'].is_pareto_optimal(X.copy()), exp, P)
    for k in SHARDS:
      tick('is_frontier')

      def mech_frontier(e, g, k=k):
        if k == 1 and all(g):
          return 'xla:num_shards=1:nothing-filtered'
        return classify_generic('xla:is_frontier', e, g)
      run_bool(ctx, case, 'xla:is_frontier', mech_frontier,
               lambda k=k: S['xla'].is_frontier(X.copy(), num_shards=k), exp, P,
               {'num_shards': k})
    # get_frontier returns the points themselves
    for k in (1, 3, 10):
      tick('get_frontier')
      try:
        pts = np.asarray(S['xla'].get_frontier(X.copy(), num_shards=k, verbose=False))
        got_rows = sorted(tuple(float(v) for v in r) for r in pts.reshape(-1, d))
        exp_rows = sorted(tuple(np.float32(v).item() for v in p) for p, e in zip(P, exp) if e)
        if got_rows != exp_rows:
          if k == 1 and len(got_rows) == n:
            mech = 'xla:num_shards=1:nothing-filtered'
          else:
            mech = 'xla:get_frontier:wrong-point-multiset'
          ctx.violation(mech, 'get_frontier returned a different multiset of points '
                        'than the non-dominated ones', case,
                        {'subject': 'xla:get_frontier', 'extra': {'num_shards': k},
                         'expected_rows': exp_rows[:8], 'got_rows': got_rows[:8]})
      except Exception as e:  # pylint: disable=broad-except
        ctx.violation(f'xla:get_frontier:raised:{type(e).__name__}',
                      f'get_frontier raised {e}', case, {'extra': {'num_shards': k}})
  # ---- update_pareto_optimal ---------------------------------------------
  if n >= 1:
    cut = case['perm_seed'] % (n + 1)
    for name, algo, mech_fn in (
        ('naive', S['naive'], lambda e, g: classify_generic('naive:update_pareto_optimal', e, g)),
        ('fast', S['fast'][3], lambda e, g: classify_fast(P, e, g))):
      tick('update')
      try:
        idx = algo.update_pareto_optimal(X[:cut].copy(), X[cut:].copy())
        got = [False] * n
        for i in np.asarray(idx).tolist():
          got[i] = True
        if got != exp:
          ctx.violation(mech_fn(exp, got),
                        f'{name}.update_pareto_optimal disagrees with the definition', case,
                        {'subject': name + ':update_pareto_optimal', 'cut': cut,
                         'expected': exp, 'got': got})
      except Exception as e:  # pylint: disable=broad-except
        ctx.violation(f'{name}:update_pareto_optimal:raised:{type(e).__name__}',
                      f'update_pareto_optimal raised {e}', case, {'cut': cut})
  # ---- ranks --------------------------------------------------------------
  tick('rank_nsga2')
  try:
    r = np.asarray(S['nsga2']._pareto_rank(X.copy()))  # pylint: disable=protected-access
    if r.shape != (n,) or [int(v) for v in r] != rank:
      ctx.violation('nsga2:_pareto_rank:not-number-of-dominating-points',
                    'nsga2._pareto_rank differs from the number of dominating points', case,
                    {'expected': rank, 'got': r.tolist()})
  except Exception as e:  # pylint: disable=broad-except
    ctx.violation(f'nsga2:_pareto_rank:raised:{type(e).__name__}', str(e), case)
  if jax_ok:
    tick('rank_xla')
    try:
      r = np.asarray(S['xla'].pareto_rank(X.copy()))
      if r.shape != (n,) or [int(v) for v in r] != rank:
        ctx.violation('xla:pareto_rank:not-number-of-dominating-points',
                      'xla_pareto.pareto_rank differs from the number of dominating points',
                      case, {'expected': rank, 'got': r.tolist()})
    except Exception as e:  # pylint: disable=broad-except
      ctx.violation(f'xla:pareto_rank:raised:{type(e).__name__}', str(e), case)
  # ---- is_pareto_optimal_against -----------------------------------------
  a_ties = ties_in(P + A)
  equal_seen = any(tuple(p) == tuple(a) for p in P for a in A)
  if equal_seen:
    ctx.count('against_equal_points_seen')
  for strict in (True, False):
    e2 = brute_against(P, A, strict)
    algos = [('against_naive', 'naive', S['naive'], None)]
    algos += [('against_fast', 'fast', S['fast'][t], {'recursive_threshold': t, 'base': 'naive'})
              for t in THRESHOLDS]
    if jax_ok:
      algos.append(('against_jax', 'jax', S['jax'], None))
      algos += [('against_fast', 'fast', S['fastjax'][t],
                 {'recursive_threshold': t, 'base': 'jax'}) for t in (1, 3)]
    for cname, name, algo, extra in algos:
      ctx.count('sets:' + cname)
      if a_ties:
        ctx.count('ties:' + cname)
      tag = f'{name}:is_pareto_optimal_against:' + ('strict' if strict else 'nonstrict')
      ex = dict(extra or {})
      ex['strict'] = strict
      run_bool(ctx, case, tag,
               lambda e, g, tag=tag: classify_generic(tag, e, g),
               lambda algo=algo: algo.is_pareto_optimal_against(
                   X.copy(), Y.copy(), strict=strict), e2, P, ex)
  # ---- order invariance (metamorphic) ------------------------------------
  if n >= 2:
    check_order_invariance(ctx, case, S, P, X, nan=False)


def _perm(case, n):
  import random
  r = random.Random(case['perm_seed'])
  perm = list(range(n))
  r.shuffle(perm)
  return perm


def check_order_invariance(ctx, case, S, P, X, nan):
  """f(perm(P)) == perm(f(P)) for the order-sensitive implementations."""
  n = len(P)
  perms = [_perm(case, n), list(reversed(range(n)))]
  for name, algo in (('naive', S['naive']),):
    try:
      base = as_bool_vector(ctx, algo.is_pareto_optimal(X.copy()), n, name)
    except Exception:  # pylint: disable=broad-except
      continue          # reported by the caller
    if base is None:
      continue
    for perm in perms:
      ctx.count('order_invariance_checked')
      try:
        got = as_bool_vector(ctx, algo.is_pareto_optimal(X[perm].copy()), n, name)
      except Exception as e:  # pylint: disable=broad-except
        ctx.violation(f'{name}:is_pareto_optimal:raised:{type(e).__name__}',
                      f'raised on a permutation: {e}', case, {'perm': perm})
        break
      if got is None:
        break
      if got != [base[i] for i in perm]:
        if nan:
          mech = f'{name}:is_pareto_optimal:nan-row:answer-depends-on-row-order'
        else:
          mech = f'{name}:is_pareto_optimal:answer-depends-on-row-order'
        ctx.violation(mech, f'{name}.is_pareto_optimal gives a different answer for the '
                      'same multiset of points in another order', case,
                      {'subject': name, 'perm': perm, 'answer_original_order': base,
                       'answer_permuted_mapped_back':
                           [got[perm.index(i)] for i in range(n)]})
        break


def check_nan_set(ctx, case, S, P, X, d, jax_on):
  n = len(P)
  nan_first = any(v != v for v in P[0]) if n else False
  ctx.case(['array-nan', n, d, nan_first, sum(1 for p in P if any(v != v for v in p))],
           nontrivial=n >= 2)
  ctx.count('nan_sets_checked')
  # NaN rows are outside the property's quantifier for point sets (objective
  # vectors are numbers, +-inf included); the study-level routes decide what
  # happens to NaN objectives. The routines are still driven with such rows, and
  # what they do is counted, but no verdict is attached (an earlier version
  # demanded order invariance here: that was stricter than the property).
  for name, fn in (('naive', lambda: S['naive'].is_pareto_optimal(X.copy())),
                   ('fast', lambda: S['fast'][2].is_pareto_optimal(X.copy()))):
    try:
      fn()
      ctx.count(f'nan_rows_answered:{name}')
    except Exception:  # pylint: disable=broad-except
      ctx.count(f'nan_rows_refused:{name}')


# ---------------------------------------------------------------------------
# driver
# ---------------------------------------------------------------------------
def run_shard(ctx):
  quick = ctx.tier == 'quick'
  n_arrays = 9600 if quick else 200000
  n_hist = 3000 if quick else 120000
  # The two workloads are interleaved in rounds (32 point sets : 10 histories, the
  # ratio of the two totals) so that neither waits for the other; the array part
  # may use ~55% of the budget, histories the rest.
  A, H = 32, 10
  t_arrays = ctx.budget_s * 0.55
  spent_a = 0.0
  done_a = done_h = 0
  arrays_open = histories_open = True
  S = c11_study.Services()
  try:
    for r in range(max(-(-n_arrays // A), -(-n_hist // H))):
      if ctx.out_of_time():
        ctx.note(f'time budget reached in round {r}: {done_a} point sets, '
                 f'{done_h} histories done by this shard')
        break
      t0 = ctx.elapsed()
      for i in range(r * A, min((r + 1) * A, n_arrays)):
        if not arrays_open:
          break
        if not ctx.mine(i):
          continue
        if spent_a + (ctx.elapsed() - t0) > t_arrays:
          ctx.note(f'array budget reached at case {i} of {n_arrays}')
          arrays_open = False
          break
        rng = ctx.rng(i, 'array')
        case = gen_array_case(rng, ctx.tier, i)
        # JAX compiles once per argument shape (~45 ms each, is_frontier alone goes
        # through many): JAX routines see every 8th (thorough: 6th) case (every 3rd of
        # the float32-exact near-tie class) and only
        # sets of at most 10 (thorough: 40) points.
        jax_on = (i // len(CLASSES)) % (8 if quick else 6) == 0
        if case['class'] == 'near32':      # the only near ties JAX can be asked about
          jax_on = (i // len(CLASSES)) % 3 == 0      # (3: spreads over the shards)
        if len(case['P']) > (10 if quick else 40):
          jax_on = False
        check_array(ctx, case, jax_on=jax_on)
        done_a += 1
        if i < 2 * ctx.nshards:
          ctx.sample({'class': case['class'], 'd': case['d'], 'P': case['P'][:6],
                      'n': len(case['P'])})
      spent_a += ctx.elapsed() - t0
      for j in range(r * H, min((r + 1) * H, n_hist)):
        if not histories_open:
          break
        if not ctx.mine(j):
          continue
        if ctx.out_of_time():
          ctx.note(f'time budget reached at history {j} of {n_hist}')
          histories_open = False
          break
        rng = ctx.rng(j, 'history')
        spec = c11_study.gen_history(rng, ctx.tier, j)
        c11_study.check_history(ctx, spec, S)
        done_h += 1
        if j < ctx.nshards:
          ctx.sample({'goals': spec['goals'], 'cfg': spec['cfg'],
                      'safeties': spec['safeties'],
                      'kinds': [t['k'] for t in spec['trials']], 'mode': spec['mode'],
                      'order_profile': spec['order_profile'],
                      'reported': [t.get('ord') for t in spec['trials']][:4]})
  finally:
    S.close()
  ctx.count('array_cases_run', done_a)
  ctx.count('history_cases_run', done_h)


def replay(ctx, case):
  if case.get('kind') == 'history':
    S = c11_study.Services()
    try:
      c11_study.check_history(ctx, case, S)
    finally:
      S.close()
    return
  check_array(ctx, case, jax_on=True)
