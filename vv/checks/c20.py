"""C20 — benchmark experimenters evaluate faithfully and leave suggestions intact.

Random trees of the repository's experimenters (a synthetic base wrapped in 1..3
wrapper experimenters, `switch` joining several sub-trees) are built with a
transparent recording experimenter between every two layers. Points are drawn by
an independent sampler from every layer's own search space and evaluated in
batches of 0..9. Monitors decide, per layer and per trial:

* the trial is completed with the metric names of the layer's problem statement
  (documented `<name>_before_noise` extras allowed) or marked infeasible;
* its parameters equal the snapshot taken before the call;
* the layer below was called with the point an independent oracle maps the
  suggestion to (shift: x - shift, clipped when restricting; permute: a bijection
  of the feasible values; discretise: float(value); hyper-cube: the scaled
  inverse; sparse: placeholders removed; switch: the selected child) and the
  layer's outcome is the documented transform of what the layer below returned
  (identity; negation of objectives and goals, applied twice == identity;
  order-preserving normalisation; `<name>_before_noise` == un-noised value);
* infeasibility marks are not lost on the way up;
* `problem_statement()` is returned by value (identity probe at build time and a
  destructive mutation probe at the end), and it is held by value on the way in: the
  harness keeps the ProblemStatement / SearchSpace objects it passed to constructors
  (NumpyExperimenter, MultiObjectiveNumpyExperimenter, SparseExperimenter), goes on
  modifying them at the end of the case, and the existing experimenter must report
  the same statement and evaluate the same suggestions to the same outcome;
* base objectives equal a reference computed without the experimenter plumbing;
* noisy trees whose noise wrappers all carry a seed reproduce the same sequence;
* deterministic trees give the same outcome in a batch and one by one;
* the experimenter factory equals the hand-built composition it documents; one
  factory object asked twice, and an equal factory, give experimenters that answer
  the same (interleaved) sequence of suggestions identically (seeded noise included).
"""
import copy
import json
import math
import random

import numpy as np

from vv import c20_lib as L
from vv import gen as G

PROPERTY = 'C20'
LEVEL = 'exploration'
RULE = ('trees = base (24 BBOB functions dims 2..5 incl. non-default bounds/scales, '
        'Branin, Hartmann 3/6, SimpleKD all best categories, DTLZ/ZDT/WFG and combined '
        'multi-objective factories) + 1..3 wrappers out of {shift, signflip, permute, '
        'discretize(grid|explicit), hypercube, normalize, noisy(10 types), sparse, '
        'switch, hashing-infeasible, region-infeasible} with valid arguments, plus the '
        'SingleObjectiveExperimenterFactory against its hand-built equivalent (one factory '
        'object called twice plus an equal factory, batches interleaved between the three '
        'experimenters); BBOB and DTLZ/ZDT/WFG bases are built both through their factories '
        'and directly from a statement object the harness owns, which (like the search space '
        'given to SparseExperimenter) is modified by its creator at the end of the case; every '
        'layer gets its own batch (0..9 points, boundary biased) from its own search '
        'space. A case is one tree; non-trivial when at least one wrapper relation was '
        'decided on a completed trial; distinct = hash of (base kind/function/dim, '
        'wrapper kinds with argument classes).')
ASSUMPTIONS = [
    'a transparent recording Experimenter is inserted between layers; wrappers only '
    'use problem_statement()/evaluate() of the wrapped object',
    'mapped points are compared exactly for linear scales (float64 arithmetic is the '
    'same), with 1e-9 relative slack for LOG / REVERSE_LOG scales; hyper-cube ties '
    '(rounding midpoints, equal one-hot maxima) accept either neighbour',
    'normalising: order demanded strictly only for pairs further apart than 1e-9 of '
    'their magnitude; equal inputs must give equal outputs',
    'region-infeasible boundaries: points within 1e-5 (float32 converter) of the '
    'interval ends accept both answers',
    'noise reproducibility only when every random noise wrapper carries a seed and '
    'every permutation is seeded',
    'shift with should_restrict=False is only generated over numpy-analytic bases '
    '(out-of-bounds evaluation is the caller\'s choice there)',
    'a second noisy wrapper over a noisy one makes `<m>_before_noise` ambiguous in '
    'the documentation; colliding names are not compared',
    'a ValueError from the constructor is an accepted refusal in two places only: '
    'normalize over an infeasibility wrapper when no normalisation sample is feasible, '
    'permute asked to permute an INTEGER parameter (the unchanged tree refuses neither)',
    'layers found to return their statement by reference (identity probe) are reported '
    'and then shielded by the recorder (deep copy) so that the remaining monitors of '
    'the tree judge the other layers, not the downstream damage of that defect',
    'creator-mutation probe: only ProblemStatement / SearchSpace constructor arguments are '
    'modified after construction (the property speaks of the problem statement); arrays, '
    'dicts and lists given to shift / discretize / permute are left alone. Outcomes before '
    'and after are compared exactly for subtrees without random noise, by status and metric '
    'names otherwise. The probe is skipped in a case that already raised a violation',
    'factory called twice: the two experimenters are required to answer identically; their '
    'being one shared object is only recorded in the mechanism id, a difference in behaviour '
    'decides (all generated factory noise carries a noise_seed, all permutations a seed)',
    'base references: BBOB / optproblems functions called directly on the raw array; '
    'Branin and Hartmann re-implemented from the published formulae (1e-10 relative)',
]
REQUIRED_COUNTERS = (
    [f'relations_checked:{k}' for k in L.WRAPPER_KINDS]
    + ['base_checked:bbob', 'base_checked:simplekd', 'base_checked:branin',
       'base_checked:hartmann', 'base_checked:multiobjective',
       'params_snapshot_checked', 'metric_names_checked', 'ps_by_value_checked',
       'ps_identity_checked', 'signflip_involution_checked',
       'permute_bijections_checked', 'noisy_repro_sequences', 'xproc_noise_sequences_compared',
       'normalize_order_pairs', 'batch_vs_single_checked',
       'infeasible_trials_seen', 'factory_differential_checked',
       'factory_repeat_call_checked', 'factory_repeat_call_seeded_noise_checked',
       'creator_mutation_probes', 'creator_mutation_probes:bbob',
       'creator_mutation_probes:multiobjective', 'creator_mutation_probes:sparse',
       'space_expectations_checked', 'clipped_shift_points'])
MIN_DISTINCT = {'quick': 800, 'thorough': 8000}


def plan(tier, seed):
  return {'shards': 12 if tier == 'quick' else 16,
          'budget_s': 45 if tier == 'quick' else 900}


N_CASES = {'quick': 4800, 'thorough': 400000}
DEPTHS = {'quick': [1, 1, 2, 2, 2, 3, 3], 'thorough': [1, 2, 2, 3, 3, 3, 4]}
BATCHES = {'quick': [0, 1, 1, 2, 3, 4, 5, 7, 9], 'thorough': [0, 1, 2, 3, 5, 9, 17, 40]}


# ---------------------------------------------------------------------------
# reporting context of one case
# ---------------------------------------------------------------------------
class M:
  """Monitor context: forwards to ctx unless quiet (used while generating)."""

  def __init__(self, ctx, case, quiet=False):
    self.ctx = ctx
    self.case = case
    self.quiet = quiet
    self.relations = 0
    self.raised = 0

  def count(self, key, n=1):
    if not self.quiet:
      self.ctx.count(key, n)

  def violation(self, mech, what, witness=None):
    self.raised += 1
    if not self.quiet:
      self.ctx.violation(mech, what, self.case, witness)

  def relation(self, kind, n=1):
    self.relations += n
    self.count(f'relations_checked:{kind}', n)


def origin_label(origin, e):
  if (origin in ('bbob', 'combined', 'factory') and isinstance(e, TypeError)
      and 'only 0-dimensional arrays' in str(e)):
    return 'bbob-function'
  return origin


def exc_tag(kind, node, e):
  msg = str(e)
  if isinstance(e, TypeError) and 'only 0-dimensional arrays' in msg:
    return ':numpy-scalar-conversion'
  if kind == 'permute' and isinstance(e, TypeError) and 'numpy.int' in msg:
    return ':integer-param'
  if kind == 'switch' and isinstance(e, KeyError):
    return ':child-measurement-without-metric'
  return ''


# ---------------------------------------------------------------------------
# building
# ---------------------------------------------------------------------------
def node_desc(node):
  return {'kind': node.kind, 'args': node.args,
          'children': [node_desc(c) for c in node.children]}


def build_tree(m, desc):
  """Builds bottom-up; returns Node or None (a violation / refusal was recorded)."""
  children = []
  for cd in desc.get('children', []):
    c = build_tree(m, cd)
    if c is None:
      return None
    children.append(c)
  return build_node(m, desc['kind'], desc['args'], children)


def build_node(m, kind, args, children):
  node = L.Node(kind, args, children)
  del L.OWNED[:]
  try:
    if node.is_base:
      node.exp = L.make_base(kind, args)
    else:
      node.exp = L.make_wrapper(kind, args, [c.rec for c in children])
  except Exception as e:  # pylint: disable=broad-except
    origin = getattr(e, 'c20_origin', None)
    if origin is not None:
      m.violation(f'evaluate-raised:{origin_label(origin, e)}:{type(e).__name__}{exc_tag(origin, node, e)}',
                  f'{origin}.evaluate raised {type(e).__name__} while {kind} was being '
                  f'constructed over it: {e}'[:300])
    elif (kind == 'permute' and isinstance(e, ValueError) and any(
        p['kind'] == 'INTEGER' and p['name'] in args['params']
        for p in children[0].space['params'])):
      # "permutes discrete/categorical parameters": refusing an INTEGER one in
      # the constructor (like the continuous case) would be a legitimate answer
      m.count('construct_refused:permute:integer-param')
    elif (kind == 'normalize' and isinstance(e, ValueError)
          and any(c.has_infeasible_wrapper() for c in children)):
      # refusing to normalise when no normalisation sample is feasible is a
      # legitimate answer (nothing can be estimated)
      m.count('construct_refused:normalize:no-feasible-sample')
    else:
      m.violation(f'construct-raised:{kind}:{type(e).__name__}',
                  f'constructing {kind} with valid arguments raised {type(e).__name__}: {e}'[:300],
                  {'args': args})
    return None
  node.owned = list(L.OWNED)   # mutable constructor arguments the creator (this harness) keeps
  node.rec = L.Recorder(node.exp, kind)
  for c in node.walk():
    c.rec.log = []
  # ---- by value? (identity probe, harmless) --------------------------------
  m.count('ps_identity_checked')
  a = node.exp.problem_statement()
  b = node.exp.problem_statement()
  node.state['byref'] = False
  if a is b:
    node.state['byref'] = True
    node.rec.shield = True
    m.violation(f'ps-by-reference:{kind}',
                f'{kind}.problem_statement() returns the same object on every call '
                '(callers can corrupt the experimenter)', {'probe': 'identity'})
  node.space = L.parse_space(b.search_space)
  node.metrics = L.parse_metrics(b)
  node.state['fp0'] = L.fingerprint(b)
  node.switch_node = node if kind == 'switch' else (
      children[0].switch_node if (children and kind in ('signflip', 'noisy', 'sparse', 'hashing')) else None)
  if node.is_base:
    return node
  # ---- expected statement ----------------------------------------------------
  child = children[0]
  if kind != 'switch' and child.space['switch'] is None:
    exp_key = L.expected_space(node)
    if exp_key is not None:
      m.count('space_expectations_checked')
      if exp_key != L.space_key(node.space):
        m.violation(f'space-mismatch:{kind}',
                    f'{kind}: search space differs from the documented transform of the wrapped one',
                    {'expected': exp_key, 'got': L.space_key(node.space)})
        return None
    elif kind == 'discretize':
      m.count('space_expectations_checked')
      bad = check_grid(node)
      if bad:
        m.violation('space-mismatch:discretize:grid',
                    'create_with_grid: feasible values are not the documented scaled grid', bad)
        return None
  if kind == 'switch':
    exp_metrics = [('switch_metric', 'MAXIMIZE')]
  elif kind == 'signflip':
    flip = {'MAXIMIZE': 'MINIMIZE', 'MINIMIZE': 'MAXIMIZE'}
    exp_metrics = [(n, flip.get(g, g)) for n, g in child.metrics]
  else:
    exp_metrics = list(child.metrics)
  if exp_metrics != node.metrics:
    mech = 'goal-not-flipped:signflip' if kind == 'signflip' else f'metrics-mismatch:{kind}'
    m.violation(mech, f'{kind}: metric information {node.metrics} != expected {exp_metrics}')
    return None
  return node


def check_grid(node):
  a = node.args
  cp = {p['name']: p for p in node.children[0].space['params']}
  for p in node.space['params']:
    if p['name'] not in a['counts']:
      if L.space_key({'params': [p]}) != L.space_key({'params': [cp[p['name']]]}):
        return {'param': p['name'], 'why': 'untouched parameter changed'}
      continue
    to_str = a['to_str'] if isinstance(a['to_str'], bool) else a['to_str'][p['name']]
    want_kind = 'CATEGORICAL' if to_str else 'DISCRETE'
    if p['kind'] != want_kind:
      return {'param': p['name'], 'why': f'kind {p["kind"]} != {want_kind}'}
    grid = sorted(set(L.expected_grid(cp[p['name']], a['counts'][p['name']])))
    got = sorted(float(v) for v in p['values'])
    # the documented grid goes through a float32 model-input converter
    span = max(abs(c_) for c_ in (cp[p['name']]['lo'], cp[p['name']]['hi'], 1e-30))
    if len(got) != len(grid) or any(abs(g - w) > 2e-6 * span for g, w in zip(got, grid)):
      return {'param': p['name'], 'expected': grid, 'got': got}
    c = cp[p['name']]
    if got[0] < c['lo'] - 1e-9 or got[-1] > c['hi'] + 1e-9:
      return {'param': p['name'], 'why': 'grid outside bounds', 'got': got}
  return None


# ---------------------------------------------------------------------------
# generation
# ---------------------------------------------------------------------------
def gen_base(rng, single_objective=False):
  r = rng.random()
  if single_objective:
    r = r * 0.73
  if r < 0.38:
    return {'kind': 'bbob', 'args': {'fn': rng.choice(L.BBOB_FNS), 'dim': rng.randint(2, 5),
                                     'seed': rng.choice([0, 0, 1, 7]), 'lo': None,
                                     'direct': rng.random() < 0.3}, 'children': []}
  if r < 0.46:
    lo, hi, sc = rng.choice([(0.5, 8.0, 'LOG'), (0.5, 8.0, None), (1.0, 100.0, 'LOG'),
                             (-2.0, 3.0, None), (0.25, 4.0, 'REVERSE_LOG'), (0.0, 1.0, None)])
    return {'kind': 'bbob', 'args': {'fn': rng.choice(L.BBOB_FNS), 'dim': rng.randint(2, 4),
                                     'seed': rng.choice([0, 3]), 'lo': lo, 'hi': hi, 'scale': sc},
            'children': []}
  if r < 0.61:
    from vizier._src.benchmarks.experimenters.synthetic import simplekd
    a = {'best': rng.choice(['corner', 'center', 'mixed']), 'nf': rng.choice([1, 1, 2, 3]),
         'nd': rng.choice([1, 1, 2]), 'ni': rng.choice([1, 1, 2]), 'rel': rng.random() < 0.6}
    if a['rel']:
      try:
        simplekd.SimpleKDExperimenter(a['best'], num_float_param=a['nf'], num_discrete_param=a['nd'],
                                      num_int_param=a['ni'], output_relative_error=True)
      except ValueError:
        a['rel'] = False   # documented refusal: optimum too close to zero
    return {'kind': 'simplekd', 'args': a, 'children': []}
  if r < 0.66:
    return {'kind': 'branin', 'args': {}, 'children': []}
  if r < 0.73:
    return {'kind': 'hartmann', 'args': {'dim': rng.choice([3, 6])}, 'children': []}
  if r < 0.81:
    nobj = rng.choice([2, 2, 3])
    return {'kind': 'dtlz', 'args': {'name': f'DTLZ{rng.randint(1, 7)}', 'nobj': nobj,
                                     'dim': nobj + rng.randint(1, 3),
                                     'direct': rng.random() < 0.4}, 'children': []}
  if r < 0.87:
    return {'kind': 'zdt', 'args': {'name': rng.choice(['ZDT1', 'ZDT2', 'ZDT3', 'ZDT4', 'ZDT6']),
                                    'dim': rng.randint(2, 5), 'direct': rng.random() < 0.4},
            'children': []}
  if r < 0.92:
    nobj = rng.choice([2, 2, 3])
    return {'kind': 'wfg', 'args': {'name': f'WFG{rng.randint(1, 9)}', 'nobj': nobj,
                                    'dim': nobj - 1 + 2 * rng.randint(1, 2),
                                    'direct': rng.random() < 0.4}, 'children': []}
  n = rng.choice([2, 2, 3])
  return {'kind': 'combined', 'args': {
      'fns': {f'm{i}': [rng.choice(L.BBOB_FNS), rng.choice([0, 0, 5])] for i in range(n)},
      'dim': rng.randint(2, 4)}, 'children': []}


NUMPY_ANALYTIC = {'bbob', 'branin', 'hartmann', 'combined'}


def width(p):
  if p['kind'] in ('DOUBLE', 'INTEGER'):
    return p['hi'] - p['lo']
  if p['kind'] == 'DISCRETE':
    return max(p['values']) - min(p['values'])
  return 0


def applicable(node):
  sp = node.space
  flat = sp['switch'] is None
  ps = sp['params']
  out = ['signflip', 'noisy', 'sparse', 'hashing']
  if not flat:
    return out
  if ps and all(p['kind'] == 'DOUBLE' and width(p) > 0 for p in ps):
    out += ['shift', 'shift']
  if any(p['kind'] in ('DISCRETE', 'CATEGORICAL', 'INTEGER') for p in ps):
    out += ['permute', 'permute']
  if any(p['kind'] == 'DOUBLE' and width(p) > 0 for p in ps):
    out += ['discretize', 'discretize']
  out += ['hypercube', 'hypercube', 'normalize']
  if len(node.metrics) == 1:
    out += ['switch']
  if any(p['kind'] != 'CATEGORICAL' and width(p) > 0 for p in ps):
    out += ['region']
  return out


def gen_wrapper(rng, node, m, allow_switch=True):
  """-> (kind, args, extra child descs)."""
  kinds = applicable(node)
  if not allow_switch:
    kinds = [k for k in kinds if k != 'switch']
  kind = rng.choice(kinds)
  ps = node.space['params']
  extra = []
  if kind == 'shift':
    restrict = True
    leaves = {n.kind for n in node.walk() if n.is_base}
    if leaves <= NUMPY_ANALYTIC and rng.random() < 0.2:
      restrict = False
    ws = [width(p) for p in ps]
    style = rng.choice(['scalar', 'vector', 'vector', 'vector1', 'tiny', 'zero-one'])
    if style in ('scalar', 'vector1'):
      s = rng.choice([-1, 1]) * rng.uniform(0.02, 0.9) * min(ws)
      shift = s if style == 'scalar' else [s]
    elif style == 'tiny':
      shift = [rng.choice([-1, 1]) * 1e-9 * w for w in ws]
    else:
      shift = [rng.choice([-1, 1]) * rng.uniform(0.02, 0.95) * w for w in ws]
      if style == 'zero-one':
        shift[rng.randrange(len(shift))] = 0.0
    args = {'shift': shift, 'restrict': restrict, 'as_array': rng.random() < 0.8}
  elif kind == 'signflip':
    args = {'objectives_only': rng.random() < 0.6}
  elif kind == 'permute':
    cands = [p['name'] for p in ps if p['kind'] in ('DISCRETE', 'CATEGORICAL')]
    ints = [p['name'] for p in ps if p['kind'] == 'INTEGER']
    chosen = [c for c in cands if rng.random() < 0.7]
    if ints and (not cands or rng.random() < 0.1):
      chosen.append(rng.choice(ints))
    if not chosen:
      chosen = [rng.choice(cands or ints)]
    args = {'params': chosen, 'seed': rng.choice([None, 0, 1, 2, 3, 11, 12345])}
  elif kind == 'discretize':
    cands = [p for p in ps if p['kind'] == 'DOUBLE' and width(p) > 0]
    chosen = [p for p in cands if rng.random() < 0.6] or [rng.choice(cands)]
    if rng.random() < 0.55:
      counts = {p['name']: rng.choice([2, 3, 4, 5, 7]) for p in chosen}
      ts = rng.choice(['all', 'none', 'mixed'])
      to_str = (True if ts == 'all' else False if ts == 'none'
                else {k: rng.random() < 0.5 for k in counts})
      args = {'mode': 'grid', 'counts': counts, 'to_str': to_str}
    else:
      values = {}
      for p in chosen:
        lo, hi = p['lo'], p['hi']
        rep = rng.choice(['float', 'float', 'str', 'int'])
        n = rng.choice([1, 2, 3, 5])
        if rep == 'int':
          ints = list(range(math.ceil(lo), math.floor(hi) + 1))
          if not ints:
            rep = 'float'
          else:
            values[p['name']] = sorted(rng.sample(ints, min(n, len(ints))))
        if rep != 'int':
          vs = set()
          if rng.random() < 0.4:
            vs.add(lo)
          if rng.random() < 0.4:
            vs.add(hi)
          for _ in range(4 * n):
            if len(vs) >= n:
              break
            v = round(rng.uniform(lo, hi), 3)
            if not lo <= v <= hi:
              v = min(max(lo + (hi - lo) * rng.random(), lo), hi)
            vs.add(v)
          vs = sorted(vs)
          values[p['name']] = [repr(float(v)) for v in vs] if rep == 'str' else [float(v) for v in vs]
      args = {'mode': 'explicit', 'values': values, 'allow_oov': rng.random() < 0.15}
  elif kind == 'hypercube':
    args = {}
  elif kind == 'normalize':
    args = {'n': rng.choice([2, 5, 10, 30, 100]), 'noise_seed': rng.choice([42, 0, 7])}
  elif kind == 'noisy':
    args = {'type': rng.choice(L.NOISE_TYPES), 'seed': rng.choice([None, 0, 1, 5, 99, 2024])}
  elif kind == 'sparse':
    used = {L.sparse_prefix(n.args) for n in node.walk() if n.kind == 'sparse'}
    if '_SPARSE' not in used and rng.random() < 0.7:
      while True:
        c = [rng.choice([0, 1, 1, 2]) for _ in range(4)]
        if sum(c):
          break
      args = {'mode': 'create', 'nf': c[0], 'ni': c[1], 'nd': c[2], 'nc': c[3], 'fmin': None}
      if c[1] == 0 and c[0] and rng.random() < 0.3:
        args['fmin'], args['fmax'] = rng.choice([(1.0, 2.0), (-3.0, -1.0), (0.5, 10.0)])
    else:
      prefix = next(p for p in ['_SP2', '_PAD', '_Q7', '_ZZ'] if p not in used)
      space = G.gen_space(rng, 1, 3, scales=False, defaults=False, wide=False,
                          allow_singleton=False, max_int_width=200,
                          kinds=['DOUBLE', 'INTEGER', 'DISCRETE', 'CATEGORICAL'])
      for i, p in enumerate(space):
        p['name'] = f'P{i}'
        if p['kind'] == 'CATEGORICAL':
          p['values'] = [v for v in p['values'] if v not in ('True', 'False')] or ['a', 'b']
      args = {'mode': 'init', 'prefix': prefix, 'space': space}
  elif kind == 'switch':
    n_extra = rng.choice([1, 1, 2])
    pos = rng.randint(0, n_extra)
    for _ in range(n_extra):
      extra.append(gen_tree_desc(rng, m, max_wrappers=rng.choice([0, 0, 1]),
                                 single_objective=True, allow_switch=False))
    args = {'pos': pos}
  elif kind == 'hashing':
    args = {'prob': rng.choice([0.0, 0.2, 0.2, 0.5, 1.0, 0.35]), 'seed': rng.choice([0, 1, 17])}
  elif kind == 'region':
    cands = [p['name'] for p in ps if p['kind'] != 'CATEGORICAL' and width(p) > 0]
    args = {'param': rng.choice(cands),
            'interval': rng.choice([[0.0, 0.2], [0.3, 0.6], [0.9, 1.0], [0.0, 1.0], [0.5, 0.5]])}
  return kind, args, extra


def gen_tree_desc(rng, m_unused, max_wrappers=None, single_objective=False, allow_switch=True,
                  tier='quick'):
  """Grows a tree with a quiet builder (arguments depend on the spaces below)."""
  quiet = M(None, None, quiet=True)
  node = build_tree(quiet, gen_base(rng, single_objective))
  if node is None:
    raise RuntimeError('base construction failed while generating')
  depth = rng.choice(DEPTHS[tier]) if max_wrappers is None else max_wrappers
  # a base that cannot evaluate at all ends the tree (reported by run_case)
  if depth and not base_evaluates(node):
    return node_desc(node)
  for _ in range(depth):
    kind, args, extra = gen_wrapper(rng, node, quiet, allow_switch=allow_switch)
    if single_objective and kind == 'switch':
      continue
    children = [node]
    if kind == 'switch':
      extras = [build_tree(quiet, d) for d in extra]
      if any(e is None for e in extras) or not all(base_evaluates(e) for e in extras):
        continue
      children = extras[:args['pos']] + [node] + extras[args['pos']:]
    nxt = build_node(quiet, kind, args, children)
    if nxt is None:
      # keep the failing wrapper in the description: run_case reports it
      return {'kind': kind, 'args': args, 'children': [node_desc(c) for c in children]}
    node = nxt
  return node_desc(node)


def base_evaluates(node):
  for n in node.walk():
    if n.is_base:
      pts = sample_points(random.Random(0), n, 1)
      try:
        n.exp.evaluate([mk_trial(pts[0])])
      except Exception:  # pylint: disable=broad-except
        return False
  return True


# ---------------------------------------------------------------------------
# sampling
# ---------------------------------------------------------------------------
def mk_trial(params):
  from vizier import pyvizier as vz
  return vz.Trial(parameters=params)


def sample_flat(rng, params, bias):
  out = {}
  for p in params:
    if p.get('has_children'):
      continue
    out[p['name']] = G.sample_value(rng, p, boundary_bias=bias)
  return out


def sample_point(rng, node, bias=0.25):
  pt = sample_flat(rng, node.space['params'], bias)
  sw = node.switch_node
  if sw is not None:
    idx = rng.randrange(len(sw.children))
    pt[node.space['switch']] = idx
    pt.update(sample_flat(rng, sw.children[idx].space['params'], bias))
  return pt


def sample_points(rng, node, n):
  bias = rng.choice([0.0, 0.25, 0.25, 0.6])
  return [sample_point(rng, node, bias) for _ in range(n)]


# ---------------------------------------------------------------------------
# evaluation + per-layer monitors
# ---------------------------------------------------------------------------
def evaluate_at(m, node, points, broken):
  """Evaluates `points` through node's recorder; returns trials or None if it raised."""
  node.clear_logs()
  trials = [mk_trial(p) for p in points]
  try:
    node.rec.evaluate(trials)
  except Exception as e:  # pylint: disable=broad-except
    origin = getattr(e, 'c20_origin', node.kind)
    onode = next((n for n in node.walk() if n.kind == origin), node)
    broken.add(id(onode))
    m.violation(f'evaluate-raised:{origin_label(origin, e)}:{type(e).__name__}{exc_tag(origin, onode, e)}',
                f'{origin}.evaluate raised {type(e).__name__} on points of the search space: {e}'[:300],
                {'points': points, 'evaluated_at': node.kind})
    return None
  return trials


def allowed_extra(node, name, required):
  if not node.has_noisy():
    return False
  base = name
  while base.endswith(L.BEFORE):
    base = base[:-len(L.BEFORE)]
    if base in required:
      return True
  return False


def subtree_changed_params(node):
  return any(not L.params_equal(e['in'], e['after'])
             for n in node.walk() for e in n.rec.log)


def entry_anomaly(node, e):
  """-> (None | 'not-completed' | 'missing' | 'extra', detail)."""
  out = e['out']
  if not out['completed']:
    return 'not-completed', None
  if out['infeasible']:
    return None, None
  req = set(node.metric_names)
  names = set(out['metrics'] or {})
  missing = req - names
  if missing:
    return 'missing', sorted(missing)
  extra = {n for n in names - req if not allowed_extra(node, n, req)}
  if extra:
    return 'extra', sorted(extra)
  return None, None


def subtree_anomalies(node):
  return {entry_anomaly(n, e)[0] for n in node.walk() for e in n.rec.log} - {None}


def check_generic(m, node, ents):
  # an anomaly already present in a layer below is blamed on that layer only
  below_changed = any(subtree_changed_params(c) for c in node.children)
  below = set()
  for c in node.children:
    below |= subtree_anomalies(c)
  for e in ents:
    m.count('params_snapshot_checked')
    if not below_changed and not L.params_equal(e['in'], e['after']):
      m.violation(f'params-changed:{node.kind}',
                  f'{node.kind}.evaluate left different parameters on the trial',
                  {'before': e['in'], 'after': e['after']})
    out = e['out']
    m.count('metric_names_checked')
    if out['completed'] and out['infeasible']:
      m.count('infeasible_trials_seen')
    what, detail = entry_anomaly(node, e)
    if what is None or what in below:
      continue
    if what == 'not-completed':
      m.violation(f'not-completed:{node.kind}', f'{node.kind}.evaluate left a trial uncompleted',
                  {'params': e['in']})
    elif what == 'missing':
      m.violation(f'metric-names-missing:{node.kind}',
                  f'{node.kind}: completed feasible trial lacks metrics {detail}',
                  {'params': e['in'], 'metrics': out['metrics']})
    else:
      m.violation(f'metric-names-extra:{node.kind}',
                  f'{node.kind}: completed trial carries undocumented metrics {detail}',
                  {'params': e['in'], 'metrics': out['metrics']})


def match_expected(exp, got):
  """exp: {name: (mode, value)}; got: {name: value}. -> None or reason."""
  if set(exp) != set(got):
    return f'parameter names {sorted(got)} != {sorted(exp)}'
  for k, (mode, v) in exp.items():
    g = got[k]
    if mode == 'exact':
      if not L.values_equal(g, v):
        if isinstance(v, float) and isinstance(g, (int, float)) and not isinstance(g, bool) \
            and abs(float(g) - v) <= 4e-16 * max(abs(v), 1e-300):
          continue
        return f'{k}: got {g!r}, expected {v!r}'
    elif mode == 'approx':
      if isinstance(g, str) or abs(float(g) - v) > 1e-9 * max(1.0, abs(v)):
        return f'{k}: got {g!r}, expected ~{v!r}'
    elif mode == 'oneof':
      if not any(L.values_equal(g, c) for c in v):
        return f'{k}: got {g!r}, expected one of {v!r}'
  return None


def expected_inner_params(m, node, p):
  """Oracle of the point the layer below must receive for suggestion p."""
  k, a = node.kind, node.args
  cps = node.children[0].space['params']
  if k in ('signflip', 'normalize', 'noisy', 'hashing', 'region'):
    return {n: ('exact', v) for n, v in p.items()}
  if k == 'shift':
    s = L.shift_vector(a, len(cps))
    out = {}
    for cp, si in zip(cps, s):
      v = float(p[cp['name']]) - si
      if a['restrict']:
        c = min(max(v, cp['lo']), cp['hi'])
        if c != v:
          m.count('clipped_shift_points')
        v = c
      out[cp['name']] = ('exact', v)
    return out
  if k == 'permute':
    out = {}
    feas = {cp['name']: (list(range(cp['lo'], cp['hi'] + 1)) if cp['kind'] == 'INTEGER'
                         else cp.get('values')) for cp in cps}
    for n, v in p.items():
      out[n] = ('oneof', feas[n]) if n in a['params'] else ('exact', v)
    return out
  if k == 'discretize':
    names = a['counts'] if a['mode'] == 'grid' else a['values']
    return {n: ('exact', float(v)) if n in names else ('exact', v) for n, v in p.items()}
  if k == 'hypercube':
    d = len(p)
    return L.hypercube_map(node.children[0].space, [float(p[f'h{i}']) for i in range(d)])
  if k == 'sparse':
    pre = L.sparse_prefix(a)
    return {n: ('exact', v) for n, v in p.items() if not n.startswith(pre)}
  raise ValueError(k)


def expected_outcome_check(m, node, e, ce):
  """Compares the layer's outcome with the documented transform of the inner outcome."""
  k, a = node.kind, node.args
  out, cout = e['out'], ce['out']
  wit = {'params': e['in'], 'outcome': out, 'inner_outcome': cout}
  if cout['infeasible'] and not out['infeasible']:
    m.violation(f'infeasible-mark-dropped:{k}',
                f'{k}: the wrapped experimenter marked the trial infeasible, the wrapper returns it '
                'as a feasible completed trial', wit)
    return
  if out['infeasible'] != cout['infeasible'] or out['completed'] != cout['completed']:
    m.violation(f'outcome-mismatch:{k}:status', f'{k}: completion/infeasibility differs from the inner outcome', wit)
    return
  om, cm = out['metrics'], cout['metrics']
  if om is None or cm is None:
    if (om is None) != (cm is None):
      m.violation(f'outcome-mismatch:{k}:measurement', f'{k}: final measurement presence differs', wit)
    return
  if k in ('shift', 'permute', 'discretize', 'sparse', 'hypercube'):
    if not L.metrics_same(om, cm):
      m.violation(f'outcome-mismatch:{k}:values', f'{k}: metrics differ from what the wrapped experimenter returned', wit)
    return
  if k == 'signflip':
    objectives = set(node.children[0].metric_names)
    exp = {n: (-v if (n in objectives or not a['objectives_only']) else v) for n, v in cm.items()}
    if not L.metrics_same(om, exp):
      unflipped = L.metrics_same(om, cm)
      m.violation('outcome-mismatch:signflip:' + ('not-negated' if unflipped else 'values'),
                  'signflip: metrics are not the negated inner metrics', wit)
    return
  if k == 'noisy':
    for n, v in cm.items():
      if n not in om:
        m.violation('outcome-mismatch:noisy:metric-lost', f'noisy: metric {n} disappeared', wit)
        return
      bn = n + L.BEFORE
      if bn in cm:
        m.count('noisy_name_collisions_skipped')
      elif bn not in om or not L.floats_same(om[bn], v):
        m.violation('outcome-mismatch:noisy:before-noise',
                    f'noisy: {bn} is not the un-noised value of the wrapped experimenter', wit)
        return
      if n + L.BEFORE in cm or (n.endswith(L.BEFORE) and n[:-len(L.BEFORE)] in cm):
        continue
      nv = om[n]
      if v != v:
        continue
      additive = a['type'] in L.ADDITIVE_NOISE
      if not additive and v < 1e-8:
        if not L.floats_same(nv, v):
          m.violation('outcome-mismatch:noisy:noise-below-target',
                      'noisy: documented to leave values below the target value 1e-8 intact', wit)
          return
      elif a['type'] == 'NO_NOISE':
        if abs(nv - (v + 1.01e-8)) > 1e-12 * max(1.0, abs(v)):
          m.violation('outcome-mismatch:noisy:no-noise-changed',
                      'noisy(NO_NOISE): value differs from v + 1.01e-8', wit)
          return
    return
  if k == 'normalize':
    if set(om) != set(cm):
      m.violation('outcome-mismatch:normalize:names', 'normalize: metric names changed', wit)
      return
    hist = node.state.setdefault('hist', {})
    for n, y in cm.items():
      z = om[n]
      if y != y:
        continue
      if z != z or math.isinf(z):
        tag = ':nan-normaliser-over-infeasible' if node.has_infeasible_wrapper() else ''
        m.violation(f'normalize-nonfinite{tag}',
                    'normalize: finite objective value of the wrapped experimenter became non-finite',
                    {'metric': n, 'inner': y, 'normalized': repr(z), 'params': e['in']})
        return
      h = hist.setdefault(n, [])
      for (y2, z2) in h[-40:]:
        m.count('normalize_order_pairs')
        lo, hi = ((y, z), (y2, z2)) if y <= y2 else ((y2, z2), (y, z))
        if lo[0] == hi[0]:
          bad = None if lo[1] == hi[1] else 'equal-values-split'
        elif lo[1] > hi[1]:
          bad = 'reversed'
        elif lo[1] == hi[1]:
          # (y - mean) / std absorbs gaps below eps * |mean|: the scale is
          # estimated from the two most distant observations of this metric
          bad = None
          allh = h + [(y, z)]
          a_, b_ = min(allh), max(allh)
          if b_[1] != a_[1]:
            std_est = (b_[0] - a_[0]) / (b_[1] - a_[1])
            mean_est = a_[0] - a_[1] * std_est
            scale = max(abs(hi[0]), abs(lo[0]), abs(mean_est), 1e-300)
            if (hi[0] - lo[0]) > 1e-9 * scale:
              bad = 'merged'
          else:
            m.count('normalize_merge_undecided')
        else:
          bad = None
        if bad:
          m.violation(f'normalize-order:{bad}', 'normalize: order of two objective values not preserved',
                      {'metric': n, 'inner': [lo[0], hi[0]], 'normalized': [lo[1], hi[1]]})
          return
      h.append((y, z))
    return


def known_names(node):
  names = {p['name'] for p in node.space['params']}
  if node.switch_node is not None:
    for c in node.switch_node.children:
      names |= {p['name'] for p in c.space['params']}
  return names


def check_aligned(m, node, ents):
  k = node.kind
  child = node.children[0]
  cl = child.rec.log
  if len(cl) != len(ents):
    m.violation(f'inner-call-count:{k}',
                f'{k}: wrapped experimenter saw {len(cl)} trials for {len(ents)} suggestions')
    return
  known = known_names(node)
  for e, ce in zip(ents, cl):
    # parameters foreign to this layer's space (the selector of a switch above)
    # are outside every documented mapping: not compared
    foreign = set(e['in']) - known
    p_in = {n: v for n, v in e['in'].items() if n not in foreign}
    exp = expected_inner_params(m, node, p_in)
    why = match_expected(exp, {n: v for n, v in ce['in'].items() if n not in foreign})
    if why:
      m.violation(f'inner-point-mismatch:{k}',
                  f'{k}: wrapped experimenter was not evaluated at the documented point: {why}',
                  {'suggestion': e['in'], 'inner_received': ce['in'],
                   'expected': {n: v[1] for n, v in exp.items()}})
      continue
    if k == 'permute':
      pi = node.state.setdefault('pi', {})
      for n in node.args['params']:
        v, w = p_in[n], ce['in'][n]
        d = pi.setdefault(n, {})
        key = str(v) if isinstance(v, str) else float(v)
        wv = str(w) if isinstance(w, str) else float(w)
        if key in d and d[key] != wv:
          m.violation('permute-not-bijection:unstable', f'permute: value {v!r} mapped to two images',
                      {'param': n, 'images': [d[key], wv]})
        d[key] = wv
    expected_outcome_check(m, node, e, ce)
    m.relation(k)


def check_switch(m, node, ents):
  ptr = [0] * len(node.children)
  for e in ents:
    idx = e['in'][node.space['switch']]
    idx = int(idx)
    child = node.children[idx]
    if ptr[idx] >= len(child.rec.log):
      m.violation('inner-call-count:switch', 'switch: selected child was not evaluated',
                  {'params': e['in'], 'child': idx})
      return
    ce = child.rec.log[ptr[idx]]
    ptr[idx] += 1
    own = {p['name'] for p in child.space['params']}
    got = ce['in']
    ok = own <= set(got) and set(got) <= set(e['in']) and all(
        L.values_equal(got[n], e['in'][n]) for n in got)
    if not ok:
      m.violation('inner-point-mismatch:switch', 'switch: child received different parameters',
                  {'suggestion': e['in'], 'inner_received': got})
      continue
    out, cout = e['out'], ce['out']
    wit = {'params': e['in'], 'outcome': out, 'inner_outcome': cout}
    if cout['infeasible'] and not out['infeasible']:
      m.violation('infeasible-mark-dropped:switch',
                  'switch: the selected experimenter marked the trial infeasible, the switch returns a '
                  'feasible completed trial', wit)
    elif out['infeasible'] != cout['infeasible'] or not out['completed']:
      m.violation('outcome-mismatch:switch:status', 'switch: status differs from the child outcome', wit)
    else:
      name = child.metric_names[0]
      exp = {'switch_metric': (cout['metrics'] or {}).get(name)}
      if exp['switch_metric'] is None or not L.metrics_same(out['metrics'], exp):
        if not out['infeasible']:
          m.violation('outcome-mismatch:switch:values', 'switch: metric is not the objective of the child', wit)
    m.relation('switch')
  for i, c in enumerate(node.children):
    if ptr[i] != len(c.rec.log):
      m.violation('inner-call-count:switch', 'switch: a child that was not selected was evaluated',
                  {'child': i, 'extra': len(c.rec.log) - ptr[i]})


def region_prediction(node, p):
  """-> True (infeasible), False (feasible), None (too close to call)."""
  a = node.args
  cp = next(q for q in node.children[0].space['params'] if q['name'] == a['param'])
  if cp['kind'] == 'DISCRETE':
    q = {'lo': min(cp['values']), 'hi': max(cp['values']), 'scale': cp.get('scale')}
  else:
    q = {'lo': cp['lo'], 'hi': cp['hi'], 'scale': cp.get('scale')}
  try:
    u = L.scale01(q, float(p[a['param']]))
  except (ValueError, ZeroDivisionError):
    return None
  lo, hi = a['interval']
  eps = 1e-5
  if u != u:
    return None
  if lo + eps <= u <= hi - eps:
    return True
  if u < lo - eps or u > hi + eps:
    return False
  return None


def check_gate(m, node, ents):
  """hashing / region: either the wrapper declares infeasible or passes through."""
  k = node.kind
  child = node.children[0]
  cl = child.rec.log
  ptr = 0
  seen = node.state.setdefault('decisions', {})
  for e in ents:
    out = e['out']
    passes = (ptr < len(cl) and L.params_equal(cl[ptr]['in'], e['in'])
              and L.outcome_same(cl[ptr]['out'], out))
    predicted = None
    if k == 'region':
      predicted = region_prediction(node, e['in'])
    elif node.args['prob'] in (0.0, 1.0):
      predicted = node.args['prob'] == 1.0
    if passes and predicted is not True:
      ptr += 1
      decision = False
    elif out['completed'] and out['infeasible'] and predicted is not False and not (
        ptr < len(cl) and L.params_equal(cl[ptr]['in'], e['in'])):
      decision = True
    else:
      if ptr < len(cl) and L.params_equal(cl[ptr]['in'], e['in']):
        ptr += 1
      m.violation(f'outcome-mismatch:{k}:gate',
                  f'{k}: trial is neither the wrapped outcome nor a wrapper-declared infeasible trial '
                  f'(predicted infeasible={predicted})',
                  {'params': e['in'], 'outcome': out})
      continue
    key = repr(sorted((n, str(v)) for n, v in e['in'].items()))
    if key in seen and seen[key] != decision:
      m.violation(f'gate-not-deterministic:{k}', f'{k}: same parameters got two feasibility answers',
                  {'params': e['in']})
    seen[key] = decision
    m.count(f'gate_decisions:{k}:' + ('infeasible' if decision else 'pass'))
    m.relation(k)
  if ptr != len(cl):
    m.violation(f'inner-call-count:{k}', f'{k}: wrapped experimenter saw unexpected trials',
                {'seen': len(cl), 'matched': ptr})


def check_base(m, node, ents):
  k, a = node.kind, node.args
  for e in ents:
    out = e['out']
    if k == 'simplekd':
      st = node.state
      if 'raw' not in st:
        from vizier._src.benchmarks.experimenters.synthetic import simplekd
        st['raw'] = simplekd.SimpleKDExperimenter(
            a['best'], num_float_param=a['nf'], num_discrete_param=a['nd'],
            num_int_param=a['ni'], output_relative_error=False)
        try:
          st['relx'] = simplekd.SimpleKDExperimenter(
              a['best'], num_float_param=a['nf'], num_discrete_param=a['nd'],
              num_int_param=a['ni'], output_relative_error=True)
        except ValueError:
          st['relx'] = None
      if st['relx'] is None or out['infeasible'] or not out['completed']:
        continue
      own = {p['name'] for p in node.space['params']}
      pt = {n: v for n, v in e['in'].items() if n in own}
      t1, t2 = mk_trial(pt), mk_trial(pt)
      st['raw'].evaluate([t1])
      st['relx'].evaluate([t2])
      raw = t1.final_measurement.metrics['value'].value
      rel = t2.final_measurement.metrics['value'].value
      opt = st['raw'].optimal_objective
      want = abs((raw - opt) / opt)
      mine = out['metrics'].get('value')
      ref = rel if a['rel'] else raw
      m.count('base_checked:simplekd')
      if abs(rel - want) > 1e-12 * max(1.0, abs(want)) or not L.floats_same(mine, ref):
        m.violation('base-value-mismatch:simplekd',
                    'SimpleKD: relative-error output is not |(value - optimum)/optimum| of the raw output',
                    {'params': pt, 'raw': raw, 'rel': rel, 'optimum': opt, 'observed': mine})
      continue
    own = {p['name'] for p in node.space['params']}
    pt = {n: v for n, v in e['in'].items() if n in own}
    try:
      ref = L.base_reference(node, pt)
    except Exception:  # pylint: disable=broad-except
      m.count('base_reference_failed')
      continue
    if ref is None:
      continue
    vals, tol = ref
    ckey = 'multiobjective' if k in ('dtlz', 'zdt', 'wfg', 'combined') else k
    m.count(f'base_checked:{ckey}')
    if not all(math.isfinite(v) for v in vals.values()):
      if k in ('bbob', 'branin', 'hartmann') and not out['infeasible']:
        m.violation(f'base-nonfinite-not-infeasible:{k}',
                    f'{k}: non-finite objective but the trial is not marked infeasible',
                    {'params': pt, 'reference': {n: repr(v) for n, v in vals.items()}})
      continue
    if out['infeasible'] or not out['completed'] or out['metrics'] is None:
      m.violation(f'base-value-mismatch:{k}:infeasible',
                  f'{k}: finite objective but trial infeasible/uncompleted', {'params': pt, 'outcome': out})
      continue
    for n, v in vals.items():
      g = out['metrics'].get(n)
      if g is None or abs(g - v) > tol * max(1.0, abs(v)):
        m.violation(f'base-value-mismatch:{k}',
                    f'{k}: metric {n} differs from the objective evaluated on the raw parameter array',
                    {'params': pt, 'expected': v, 'got': g})
        break


def check_layers(m, node):
  ents = node.rec.log
  check_generic(m, node, ents)
  if node.is_base:
    check_base(m, node, ents)
    return
  if node.kind == 'switch':
    check_switch(m, node, ents)
  elif node.kind in ('hashing', 'region'):
    check_gate(m, node, ents)
  else:
    check_aligned(m, node, ents)
  for c in node.children:
    check_layers(m, c)


# ---------------------------------------------------------------------------
# tree-level monitors
# ---------------------------------------------------------------------------
def mutate_statement(ps):
  from vizier import pyvizier as vz
  ps.search_space.root.add_float_param('c20_mutation_probe', 0.0, 1.0)
  ps.metric_information.append(
      vz.MetricInformation(name='c20_mutation_metric', goal=vz.ObjectiveMetricGoal.MAXIMIZE))
  first = list(ps.metric_information)[0]
  first.goal = (vz.ObjectiveMetricGoal.MINIMIZE if first.goal.is_maximize
                else vz.ObjectiveMetricGoal.MAXIMIZE)
  ps.metadata['c20'] = 'mutated'


def check_by_value(m, root):
  nodes = list(root.walk())[::-1]   # leaves first
  for node in nodes:
    if node.state.get('byref'):
      continue
    m.count('ps_by_value_checked')
    ps = node.exp.problem_statement()
    fp = L.fingerprint(ps)
    if fp != node.state.get('fp0', fp):
      m.violation(f'ps-changed-by-use:{node.kind}',
                  f'{node.kind}.problem_statement() differs after evaluations / wrapping from what it '
                  'returned right after construction',
                  {'before': node.state['fp0'][1], 'after': fp[1]})
      return
    try:
      mutate_statement(ps)
    except Exception:  # pylint: disable=broad-except
      m.count('ps_mutation_failed')
      continue
    fp2 = L.fingerprint(node.exp.problem_statement())
    if fp2 != fp:
      m.violation(f'ps-by-reference:{node.kind}',
                  f'{node.kind}.problem_statement(): mutating the returned object changed what the '
                  'next call returns', {'probe': 'mutation'})
      return   # the tree is corrupted from here on


def mutate_owned(label, obj):
  """The creator goes on using the object it had passed to a constructor."""
  from vizier import pyvizier as vz
  if label == 'problem_statement':
    mutate_statement(obj)
    list(obj.metric_information)[0].name = 'c20_creator_renamed'
  else:   # a vz.SearchSpace
    obj.root.add_float_param('c20_creator_probe', 0.0, 1.0)
    obj.root.add_categorical_param('c20_creator_probe_cat', ['u', 'v'])


def check_creator_aliasing(m, root, prng, broken):
  """`by value` on the way in: what the creator does to the statement / search space
  object it passed to a constructor, after the constructor returned, must not reach
  the experimenter (its statement, the metrics it completes trials with, its values)."""
  for node in list(root.walk())[::-1]:   # leaves first
    if not node.owned or node.state.get('byref') or any(id(n) in broken for n in node.walk()):
      continue
    fp = L.fingerprint(node.exp.problem_statement())
    pts = sample_points(prng, node, 2)
    before = [mk_trial(p) for p in pts]
    try:
      node.exp.evaluate(before)
      for label, obj in node.owned:
        mutate_owned(label, obj)
    except Exception:  # pylint: disable=broad-except
      m.count('creator_mutation_failed')
      continue
    m.count('creator_mutation_probes')
    m.count('creator_mutation_probes:' + ('multiobjective' if node.kind in ('dtlz', 'zdt', 'wfg') else node.kind))
    labels = sorted({label for label, _ in node.owned})
    fp2 = L.fingerprint(node.exp.problem_statement())
    if fp2 != fp:
      m.violation(f'ps-aliases-constructor-argument:{node.kind}',
                  f'{node.kind}: the creator modified the {"/".join(labels)} object it had passed to the '
                  'constructor and problem_statement() of the existing experimenter changed '
                  '(the statement is not held by value)',
                  {'probe': 'creator-mutation', 'metrics_before': fp[1], 'metrics_after': fp2[1],
                   'space_before': fp[0][:400], 'space_after': fp2[0][:400]})
      return   # the tree is corrupted from here on
    after = [mk_trial(p) for p in pts]
    try:
      node.exp.evaluate(after)
    except Exception as e:  # pylint: disable=broad-except
      m.violation(f'evaluate-aliases-constructor-argument:{node.kind}:raised',
                  f'{node.kind}: evaluate raised {type(e).__name__} after the creator modified the '
                  f'{"/".join(labels)} object it had passed to the constructor: {e}'[:300], {'points': pts})
      return
    deterministic = not node.has_random_noise()
    for p, t0, t1 in zip(pts, before, after):
      o0, o1 = L.snap_outcome(t0), L.snap_outcome(t1)
      same = L.outcome_same(o0, o1) if deterministic else (
          o0['completed'] == o1['completed'] and o0['infeasible'] == o1['infeasible']
          and set(o0['metrics'] or {}) == set(o1['metrics'] or {}))
      if not same or not L.params_equal(p, L.snap_params(t1)):
        m.violation(f'evaluate-aliases-constructor-argument:{node.kind}',
                    f'{node.kind}: the same suggestion is evaluated differently after the creator modified '
                    f'the {"/".join(labels)} object it had passed to the constructor',
                    {'params': p, 'before': o0, 'after': o1, 'params_after': L.snap_params(t1)})
        return


def check_signflip_involution(m, root, prng, broken):
  from vizier._src.benchmarks.experimenters import sign_flip_experimenter as sf
  for node in root.walk():
    if node.kind != 'signflip' or any(id(n) in broken for n in node.walk()):
      continue
    child = node.children[0]
    twice = sf.SignFlipExperimenter(node.rec, flip_objectives_only=node.args['objectives_only'])
    m.count('signflip_involution_checked')
    ps2, ps0 = twice.problem_statement(), child.rec.problem_statement()
    if L.fingerprint(ps2) != L.fingerprint(ps0):
      m.violation('signflip-not-involution:statement',
                  'signflip applied twice does not give back the problem statement',
                  {'twice': L.parse_metrics(ps2), 'base': L.parse_metrics(ps0)})
      continue
    pts = sample_points(prng, node, prng.randint(1, 4))
    node.clear_logs()
    trials = [mk_trial(p) for p in pts]
    try:
      twice.evaluate(trials)
    except Exception as e:  # pylint: disable=broad-except
      m.violation(f'evaluate-raised:signflip-twice:{type(e).__name__}', f'signflip twice raised {e}'[:200])
      continue
    cl = child.rec.log
    for t, ce in zip(trials, cl):
      out = L.snap_outcome(t)
      if not L.outcome_same(out, ce['out']):
        m.violation('signflip-not-involution:values',
                    'signflip applied twice does not give back the wrapped outcome',
                    {'params': ce['in'], 'twice': out, 'inner': ce['out']})
        break


def check_permute_bijection(m, root, prng, broken):
  for node in root.walk():
    if node.kind != 'permute' or any(id(n) in broken for n in node.walk()):
      continue
    cps = {p['name']: p for p in node.children[0].space['params']}
    for name in node.args['params']:
      cp = cps[name]
      feas = list(range(cp['lo'], cp['hi'] + 1)) if cp['kind'] == 'INTEGER' else list(cp['values'])
      pts = []
      for v in feas:
        pt = sample_point(prng, node)
        pt[name] = v
        pts.append(pt)
      if evaluate_at(m, node, pts, broken) is None:
        return
      check_layers(m, node)
      images = [ce['in'][name] for ce in node.children[0].rec.log]
      m.count('permute_bijections_checked')
      norm = lambda x: str(x) if isinstance(x, str) else float(x)
      img = [norm(w) for w in images]
      dom = [norm(v) for v in feas]
      if len(img) == len(dom):
        if len(set(img)) != len(img):
          m.violation('permute-not-bijection:not-injective',
                      'permute: two feasible values are sent to the same value',
                      {'param': name, 'domain': dom, 'images': img})
        elif set(img) != set(dom):
          m.violation('permute-not-bijection:not-onto',
                      'permute: image is not the feasible set', {'param': name, 'domain': dom, 'images': img})
        elif len(dom) >= 2 and img != dom:
          m.count('permute_nonidentity_seen')


def outcomes_of(trials):
  return [L.snap_outcome(t) for t in trials]


def check_noise_repro(m, root, desc, prng):
  if not root.has_random_noise() or root.unseeded_permute():
    return
  if any(n.kind == 'noisy' and n.args['type'] != 'NO_NOISE' and n.args['seed'] is None
         for n in root.walk()):
    m.count('noisy_unseeded_skipped')
    return
  quiet = M(None, None, quiet=True)
  a, b = build_tree(quiet, desc), build_tree(quiet, desc)
  if a is None or b is None:
    return
  batches = [sample_points(prng, root, prng.randint(1, 5)) for _ in range(3)]
  seq = []
  for tree in (a, b):
    s = []
    for pts in batches:
      trials = [mk_trial(p) for p in pts]
      try:
        tree.exp.evaluate(trials)
      except Exception:  # pylint: disable=broad-except
        return
      s.append(outcomes_of(trials))
    seq.append(s)
  m.count('noisy_repro_sequences')
  for ba, bb, pts in zip(seq[0], seq[1], batches):
    for oa, ob, p in zip(ba, bb, pts):
      if not L.outcome_same(oa, ob):
        types = sorted({n.args['type'] for n in root.walk() if n.kind == 'noisy'})
        m.violation('noisy-not-reproducible', 'two instances with the same seeds disagree on a sequence',
                    {'params': p, 'first': oa, 'second': ob, 'noise': types})
        return
  # informational: the noise is really there
  if any(o['metrics'] for o in seq[0][0]):
    m.count('noisy_sequences_compared_trials', sum(len(b_) for b_ in batches))


def check_batch_vs_single(m, root, points, trials, broken):
  if root.has_random_noise() or not points:
    return
  batch_out = outcomes_of(trials)
  for p, bo in zip(points, batch_out):
    single = evaluate_at(m, root, [p], broken)
    if single is None:
      return
    m.count('batch_vs_single_checked')
    so = L.snap_outcome(single[0])
    if not L.outcome_same(so, bo):
      m.violation(f'batch-dependent:{root.kind}',
                  'outcome of a point differs between batch and single evaluation of a deterministic tree',
                  {'params': p, 'in_batch': bo, 'single': so})
      return


def tree_abstraction(desc):
  def arg_class(k, a):
    if k == 'shift':
      s = a['shift']
      return (a['restrict'], 'scalar' if not isinstance(s, list) else len(s),
              [v > 0 for v in (s if isinstance(s, list) else [s])])
    if k == 'discretize':
      return (a['mode'], sorted((a.get('counts') or a.get('values')).keys()),
              str(a.get('to_str')), a.get('allow_oov'))
    if k == 'noisy':
      return (a['type'], a['seed'] is None)
    if k == 'permute':
      return (sorted(a['params']), a['seed'] is None)
    if k == 'sparse':
      return (a['mode'], a.get('nf'), a.get('ni'), a.get('nd'), a.get('nc'))
    if k == 'normalize':
      return a['n']
    if k in ('hashing',):
      return a['prob']
    if k == 'region':
      return (a['param'], a['interval'])
    if k == 'signflip':
      return a['objectives_only']
    if k == 'bbob':
      return (a['fn'], a['dim'], a.get('lo'), a.get('scale'), bool(a.get('direct')))
    if k == 'simplekd':
      return (a['best'], a['nf'], a['nd'], a['ni'], a['rel'])
    if k in ('dtlz', 'zdt', 'wfg'):
      return (a['name'], a['dim'], a.get('nobj'), bool(a.get('direct')))
    if k == 'combined':
      return (sorted(v[0] for v in a['fns'].values()), a['dim'])
    if k == 'hartmann':
      return a['dim']
    return None
  return [desc['kind'], arg_class(desc['kind'], desc['args']),
          [tree_abstraction(c) for c in desc.get('children', [])]]


def run_case(ctx, desc, pseed, index, tier='quick'):
  case = {'type': 'tree', 'tree': desc, 'pseed': pseed, 'index': index, 'tier': tier}
  m = M(ctx, case)
  prng = random.Random(pseed)
  root = build_tree(m, desc)
  if root is None:
    ctx.case(tree_abstraction(desc), nontrivial=False)
    ctx.count('trees_failed_at_build')
    return
  broken = set()
  nodes = list(root.walk())
  root_points, root_trials = None, None
  for node in nodes:
    if any(id(n) in broken for n in node.walk()):
      continue
    n = prng.choice(BATCHES[tier]) if node is not root else prng.choice(BATCHES[tier][1:])
    pts = sample_points(prng, node, n)
    trials = evaluate_at(m, node, pts, broken)
    if trials is None:
      continue
    ctx.count('batches_evaluated')
    ctx.count('trials_evaluated', len(pts))
    if n == 0:
      ctx.count('empty_batches')
    check_layers(m, node)
    # the caller's view of its own trial objects
    for p, t in zip(pts, trials):
      if not L.params_equal(p, L.snap_params(t)) and not subtree_changed_params(node):
        # (a change visible in the recorders is reported by check_generic)
        m.violation(f'params-changed:{node.kind}', 'trial parameters differ from the suggestion',
                    {'before': p, 'after': L.snap_params(t)})
    if node is root:
      root_points, root_trials = pts, trials
  if not any(id(n) in broken for n in nodes):
    if root_trials is not None:
      check_batch_vs_single(m, root, root_points, root_trials, broken)
    check_permute_bijection(m, root, prng, broken)
    check_signflip_involution(m, root, prng, broken)
    check_noise_repro(m, root, desc, prng)
  else:
    ctx.count('trees_with_broken_layer')
  check_by_value(m, root)
  if not m.raised:
    # last: the probe is destructive for the objects this case created
    check_creator_aliasing(m, root, prng, broken)
  ctx.case(tree_abstraction(desc), nontrivial=m.relations > 0)
  if index < 2 * ctx.nshards:
    ctx.sample({'tree': [n.kind for n in nodes], 'relations': m.relations})


# ---------------------------------------------------------------------------
# factory differential
# ---------------------------------------------------------------------------
WORKING_HINT = None


def gen_factory_case(rng):
  dim = rng.randint(2, 4)
  a = {'fn': rng.choice(L.BBOB_FNS), 'dim': dim, 'rot': rng.choice([0, 1]),
       'shift': None, 'restrict': True, 'noise_type': None, 'noise_seed': None,
       'nnorm': 0, 'discrete': {}, 'categorical': {}, 'permute': False, 'permute_seed': None}
  if rng.random() < 0.6:
    a['shift'] = [rng.choice([-1, 1]) * rng.uniform(0.1, 4.0) for _ in range(dim)]
    if rng.random() < 0.3:
      a['shift'] = [a['shift'][0]]
  if rng.random() < 0.5:
    a['noise_type'] = rng.choice(L.NOISE_TYPES)
    a['noise_seed'] = rng.choice([0, 1, 7, 123])
    if rng.random() < 0.3:
      a['noise_type'] = a['noise_type'].lower()
  if rng.random() < 0.4:
    a['nnorm'] = rng.choice([3, 10, 30])
  idx = list(range(dim))
  rng.shuffle(idx)
  if rng.random() < 0.5:
    a['discrete'] = {str(idx[0]): rng.choice([2, 3, 5])}
  if rng.random() < 0.5:
    a['categorical'] = {str(idx[1]): rng.choice([2, 3, 4])}
    if rng.random() < 0.7:
      a['permute'] = True
      a['permute_seed'] = rng.choice([0, 1, 5])
  return a


def factory_from(a):
  from vizier._src.benchmarks.experimenters import experimenter_factory as ef
  return ef.SingleObjectiveExperimenterFactory(
      ef.BBOBExperimenterFactory(name=a['fn'], dim=a['dim'], rotation_seed=a['rot']),
      shift=None if a['shift'] is None else np.asarray(a['shift'], dtype=np.float64),
      should_restrict=a['restrict'], noise_type=a['noise_type'], noise_seed=a['noise_seed'],
      num_normalization_samples=a['nnorm'],
      discrete_dict={int(k): v for k, v in a['discrete'].items()},
      categorical_dict={int(k): v for k, v in a['categorical'].items()},
      permute_categoricals=a['permute'], permute_seed=a['permute_seed'])


def manual_desc(a):
  d = {'kind': 'bbob', 'args': {'fn': a['fn'], 'dim': a['dim'], 'seed': a['rot'], 'lo': None},
       'children': []}
  if a['shift'] is not None:
    d = {'kind': 'shift', 'args': {'shift': list(a['shift']), 'restrict': a['restrict'], 'as_array': True},
         'children': [d]}
  if a['nnorm']:
    d = {'kind': 'normalize', 'args': {'n': a['nnorm'], 'noise_seed': 42}, 'children': [d]}
  if a['discrete']:
    d = {'kind': 'discretize', 'args': {'mode': 'grid', 'to_str': False,
                                        'counts': {f'x{k}': v for k, v in a['discrete'].items()}},
         'children': [d]}
  if a['categorical']:
    d = {'kind': 'discretize', 'args': {'mode': 'grid', 'to_str': True,
                                        'counts': {f'x{k}': v for k, v in a['categorical'].items()}},
         'children': [d]}
  if a['permute']:
    d = {'kind': 'permute', 'args': {'params': [f'x{k}' for k in a['categorical']],
                                     'seed': a['permute_seed']}, 'children': [d]}
  if a['noise_type'] is not None:
    d = {'kind': 'noisy', 'args': {'type': a['noise_type'].upper(), 'seed': a['noise_seed']},
         'children': [d]}
  return d


def run_factory_case(ctx, a, pseed, index):
  case = {'type': 'factory', 'factory': a, 'pseed': pseed, 'index': index}
  m = M(ctx, case)
  prng = random.Random(pseed)
  desc = manual_desc(a)
  manual = build_tree(m, desc)
  if manual is None:
    ctx.case(['factory', tree_abstraction(desc)], nontrivial=False)
    return
  try:
    # one factory object asked twice (every call documents a new experimenter of its
    # own) and an equal factory built separately
    fac = factory_from(a)
    f1, f2, f3 = fac(), fac(), factory_from(a)()
  except Exception as e:  # pylint: disable=broad-except
    origin = getattr(e, 'c20_origin', None)
    if origin:
      m.violation(f'evaluate-raised:{origin_label(origin, e)}:{type(e).__name__}{exc_tag(origin, manual, e)}',
                  f'factory: {e}'[:300])
    else:
      tag = ':numpy-scalar-conversion' if 'only 0-dimensional' in str(e) else ''
      m.violation(f'factory-raised:{type(e).__name__}{tag}', f'factory call raised: {e}'[:300])
    ctx.case(['factory', tree_abstraction(desc)], nontrivial=False)
    return
  key = L.space_key(L.parse_space(f1.problem_statement().search_space))
  if key != L.space_key(manual.space) or L.parse_metrics(f1.problem_statement()) != manual.metrics:
    m.violation('factory-differs:statement',
                'factory statement differs from the documented composition',
                {'factory': key, 'manual': L.space_key(manual.space)})
    return
  for _ in range(3):
    pts = sample_points(prng, manual, prng.choice([1, 2, 4, 6]))
    outs = []
    for e in (manual.exp, f1, f2, f3):
      trials = [mk_trial(p) for p in pts]
      try:
        e.evaluate(trials)
      except Exception as ex:  # pylint: disable=broad-except
        origin = getattr(ex, 'c20_origin', 'factory')
        m.violation(f'evaluate-raised:{origin_label(origin, ex)}:{type(ex).__name__}{exc_tag(origin, manual, ex)}',
                    f'evaluate raised: {ex}'[:300], {'points': pts})
        ctx.case(['factory', tree_abstraction(desc)], nontrivial=False)
        return
      outs.append(outcomes_of(trials))
      for p, t in zip(pts, trials):
        ctx.count('params_snapshot_checked')
        if not L.params_equal(p, L.snap_params(t)):
          m.violation('params-changed:factory', 'factory experimenter changed trial parameters',
                      {'before': p, 'after': L.snap_params(t)})
    random_noise = a['noise_type'] is not None and a['noise_type'].upper() != 'NO_NOISE'
    for p, om, o1, o2, o3 in zip(pts, *outs):
      ctx.count('factory_differential_checked')
      ctx.count('factory_repeat_call_checked')
      if random_noise:
        ctx.count('factory_repeat_call_seeded_noise_checked')
      if not L.outcome_same(o1, o2):
        # the experimenters of one factory answer the same sequence of suggestions
        # differently: they are not independent of each other (shared object / shared
        # random stream) or the factory is not a function of its configuration
        shape = ':same-object' if f1 is f2 else ''
        shape += ':seeded-noise' if random_noise else ''
        m.violation(f'factory-repeat-call-differs{shape}',
                    'two experimenters obtained from the same factory object answer the same sequence of '
                    'suggestions differently' + (' (noise_seed given: seeded noise is not reproducible)'
                                                 if random_noise else ''),
                    {'params': p, 'first': o1, 'second': o2, 'same_object': f1 is f2,
                     'noise_type': a['noise_type'], 'noise_seed': a['noise_seed']})
        return
      if not L.outcome_same(o1, o3):
        m.violation('factory-not-deterministic', 'two equal factories give different experimenters',
                    {'params': p, 'first': o1, 'second': o3})
        return
      if not L.outcome_same(om, o1):
        m.violation('factory-differs:values', 'factory experimenter differs from the documented composition',
                    {'params': p, 'factory': o1, 'manual': om})
        return
  m.relations += 1
  check_by_value(m, manual)
  ctx.case(['factory', tree_abstraction(desc)], nontrivial=True)


# ---------------------------------------------------------------------------
# entry points
# ---------------------------------------------------------------------------
def gen_seeded_noisy_desc(rng, tier):
  """A tree with at least one random noise wrapper, all of them seeded."""
  for _ in range(200):
    desc = gen_tree_desc(rng, None, tier=tier)
    quiet = M(None, None, quiet=True)
    root = build_tree(quiet, desc)
    if root is None or not root.has_random_noise() or root.unseeded_permute():
      continue
    if any(n.kind == 'noisy' and n.args['type'] != 'NO_NOISE' and n.args['seed'] is None for n in root.walk()):
      continue
    return desc, root
  return None, None


def fresh_process_noise_repro(ctx, slot, replay_job=None):
  """Seeded noise must be reproducible by a later *run*, not only by a second object in
  this interpreter: the same trees are evaluated in two fresh interpreters started with
  different string-hash salts (PYTHONHASHSEED) and compared with this process."""
  import os
  import subprocess
  import sys
  import tempfile
  rng = ctx.rng(10_000_000 + slot, 'xproc')
  if replay_job is None:
    cases = []
    for _ in range(6 if ctx.tier == 'quick' else 20):
      desc, root = gen_seeded_noisy_desc(rng, ctx.tier)
      if desc is None:
        continue
      prng = random.Random(rng.getrandbits(48))
      cases.append({'tree': desc, 'batches': [sample_points(prng, root, prng.randint(1, 4)) for _ in range(2)]})
  else:
    cases = replay_job['cases']
  if not cases:
    return
  tmp = tempfile.mkdtemp(prefix='vv-c20-', dir=os.environ.get('VV_TMP'))
  try:
    job = os.path.join(tmp, 'job.json')
    json.dump({'cases': cases}, open(job, 'w'), default=repr)
    cases = json.load(open(job))['cases']           # what the children see
    outs = []
    for salt in ('11', '4242'):
      out = os.path.join(tmp, f'out{salt}.json')
      env = dict(os.environ, PYTHONHASHSEED=salt)
      r = subprocess.run([sys.executable, '-m', 'vv.c20_child', job, out], env=env, capture_output=True, text=True,
                         timeout=300, cwd=os.path.dirname(os.path.dirname(os.path.dirname(os.path.abspath(__file__)))))
      if not os.path.exists(out):
        ctx.inconclusive_reason(f'c20 child failed: {r.stderr[-300:]}')
        return
      outs.append(json.load(open(out)))
    quiet = M(None, None, quiet=True)
    for k, case in enumerate(cases):
      a, b = outs[0][k], outs[1][k]
      if not (a['ok'] and b['ok']):
        ctx.count('xproc_noise_cases_raised')
        continue
      ctx.count('xproc_noise_sequences_compared')
      here = None
      try:
        tree = build_tree(quiet, case['tree'])
        here = []
        for pts in case['batches']:
          trials = [mk_trial(p) for p in pts]
          tree.exp.evaluate(trials)
          here.append(json.loads(json.dumps(outcomes_of(trials), default=repr)))
      except Exception:  # pylint: disable=broad-except
        here = None
      for name, x, y in (('two-fresh-processes', a['seq'], b['seq']), ('this-process-vs-fresh', here, a['seq'])):
        if x is None:
          continue
        same = all(L.outcome_same(oa, ob) for ba, bb in zip(x, y) for oa, ob in zip(ba, bb))
        if not same:
          types = sorted({str(n['args'].get('type')) for n in _walk_desc(case['tree']) if n['kind'] == 'noisy'})
          ctx.violation('noisy-not-reproducible:across-processes',
                        f'seeded noise wrappers {types}: {name} disagree on the same seeded evaluation sequence',
                        {'type': 'xproc', 'job': {'cases': [case]}, 'slot': slot}, {'first': x, 'second': y})
          break
    ctx.case(['xproc-noise', slot, len(cases)], nontrivial=True)
  finally:
    import shutil
    shutil.rmtree(tmp, ignore_errors=True)


def _walk_desc(d):
  yield d
  for c in d.get('children', []):
    yield from _walk_desc(c)


def run_shard(ctx):
  n_cases = N_CASES[ctx.tier]
  if ctx.shard < (3 if ctx.tier == 'quick' else 8):
    fresh_process_noise_repro(ctx, ctx.shard)
  for i in range(n_cases):
    if not ctx.mine(i):
      continue
    if ctx.out_of_time():
      ctx.note(f'time budget reached at case {i}')
      break
    rng = ctx.rng(i)
    pseed = rng.getrandbits(48)
    if i % 12 == 11:
      run_factory_case(ctx, gen_factory_case(rng), pseed, i)
      continue
    desc = gen_tree_desc(rng, None, tier=ctx.tier)
    run_case(ctx, desc, pseed, i, tier=ctx.tier)


def replay(ctx, case):
  if case.get('type') == 'xproc':
    fresh_process_noise_repro(ctx, case.get('slot', 0), replay_job=case['job'])
    return
  if case.get('type') == 'factory':
    run_factory_case(ctx, case['factory'], case['pseed'], case.get('index', 0))
  else:
    run_case(ctx, case['tree'], case['pseed'], case.get('index', 0), tier=case.get('tier', 'quick'))
