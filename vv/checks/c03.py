"""C03 — every suggestion lies inside the search space, for every algorithm.

Monitor: every `TrialSuggestion` / trial that an algorithm hands out is decided
by the harness-side membership oracle `vv.gen.member(desc, parameters)` (every
parameter of the space present exactly once, nothing extra, value inside the
domain). The oracle never looks at the repository's `SearchSpace`.

Three routes are observed:

  designer  the designer classes used directly (seeded, with documented
            constructor options: small pools / populations / acquisition
            budgets so that the model phases are reached in a few rounds),
  policy    `DefaultPolicyFactory()(problem, <algorithm name>, supporter, ..)`
            on an `InRamPolicySupporter` (incl. `seed_with_default`, state
            dump/load between calls),
  service   a real `VizierServicer(database_url='sqlite:///:memory:')` driven
            through `clients.Study.suggest`; additionally the stored Trial
            proto must name every parameter exactly once.

An exception anywhere (construction, update, suggest, the RPC) is the allowed
outcome REFUSED; only an out-of-domain or incomplete suggestion is a violation.

Hostile configurations (what the builders accept although no algorithm can
honour it) are part of the workload: a LOG / REVERSE_LOG / UNIFORM_DISCRETE
scale type on a range that is not strictly positive, and a `default_value`
outside the domain. Default / centre seeding is observed directly
(`get_default_parameters`) and as the first suggestion(s) of an empty study
through `DesignerPolicy`, `DefaultPolicyFactory` and the service.
"""
import math
import random
import signal

import numpy as np

from vv import gen

PROPERTY = 'C03'
LEVEL = 'exploration'
RULE = (
    'case = (route in {designer, policy, service}) x (algorithm of 11 registered names + DEFAULT) '
    'x (flat search space from vv.gen: 1..6 parameters of DOUBLE/INTEGER/DISCRETE/CATEGORICAL/BOOL, '
    'singleton / tiny / huge / negative ranges, LINEAR/LOG/REVERSE_LOG, defaults; DOUBLE-only for CMA_ES, '
    'boolean for BOCS/HARMONICA, plus a ~12% negative slice on undocumented spaces) x (1..3 metrics) x '
    '(designer options: pool/population sizes, grid resolution, skip points, dtype, acquisition budget) x '
    '(history of 0..110 completed / infeasible / active / duplicate / boundary trials) x (1..4 suggest-update '
    'rounds, batch 1..7, per-suggestion fate completed / infeasible / left active). '
    'Hostile slices (second per-case generator, so the other cases do not depend on them): (a) unscalable = one '
    'extra DOUBLE/INTEGER/DISCRETE parameter with scale LOG / REVERSE_LOG / UNIFORM_DISCRETE whose range straddles '
    'zero, starts at zero or is nonpositive: a stratified block first (7 scaling algorithms x {LOG, REVERSE_LOG} x 3 '
    'range positions x designer/policy/service) and ~8% of the random cases; (b) infeasible default = one parameter '
    'whose default_value lies outside its domain (beyond a bound by 1 ulp / 1 / a span, non-finite, between two '
    'discrete values, a misspelt category) in ~8% of the policy/service cases (mostly empty history, seeding wrapper '
    'forced) and 30% of the default-seed cases. '
    'Default-seed cases = get_default_parameters on a generated space (with defaults, extreme magnitudes), and for '
    '5 of 12 of them also the first 1..3 suggestions of an empty study through DesignerPolicy(cheap designer), '
    'DefaultPolicyFactory(DEFAULT/GP_UCB_PE/GAUSSIAN_PROCESS_BANDIT/BOCS/HARMONICA) and the service. '
    'Distinct = hash of (route, algorithm, space shape, #metrics, option class, history class, batch sizes); '
    'non-trivial = at least one suggestion was handed out and decided by the oracle.')
ASSUMPTIONS = [
    'membership is exact (lo <= v <= hi in float64, exact feasible value): every algorithm ends in the '
    'clipping / nearest-feasible-value converters, so no tolerance is granted',
    'any exception (constructor, update, suggest, RPC) counts as the allowed outcome REFUSED and ends the case; '
    'refusals are counted per algorithm/stage/exception type but never flagged',
    'fewer or more suggestions than requested are not judged here (C02/C06)',
    'INTEGER ranges wider than 10^4 (2*10^3 for continuifying designers) are not generated',
    'GP designers: a handful of cases in quick, tens in thorough (seconds per suggestion)',
    'policy/service routes of RANDOM_SEARCH, SHUFFLED_GRID_SEARCH, EAGLE_STRATEGY, QUASI_RANDOM_SEARCH are '
    'seeded from the clock / OS by the repository: replay of such a case re-runs it up to 25 times (GP: 3)',
    'reads of private designer attributes are used only to label the phase (seed / model) of a suggestion',
    'hostile configurations (unscalable scale type, default outside the domain): both "refused with any exception at '
    'any stage" and "answered inside the domain" (default ignored / clipped, scale type ignored) are accepted; a '
    'hostile case ends at its first violation; the GP cases carry no hostile slice (cost), their seeding wrapper is '
    'observed through the default-seed routes with count=1 (the designer behind it is never built)',
    'mechanism ids of a dropped unscalable parameter and of an infeasible default handed out do not name the algorithm: '
    'the shared scaling converter / seeding wrapper decides, the algorithm is named in the text',
]

CHEAP = ['RANDOM_SEARCH', 'QUASI_RANDOM_SEARCH', 'GRID_SEARCH',
         'SHUFFLED_GRID_SEARCH', 'EAGLE_STRATEGY', 'NSGA2', 'CMA_ES', 'BOCS',
         'HARMONICA']
GPS = ['GAUSSIAN_PROCESS_BANDIT', 'GP_UCB_PE']
REQUIRED_COUNTERS = (
    ['suggestions_checked:' + a for a in CHEAP + GPS] + [
        'suggestions_checked_route:designer',
        'suggestions_checked_route:policy',
        'suggestions_checked_route:service',
        'default_seed_checked',
        'default_seed_route:direct', 'default_seed_route:designer-policy',
        'default_seed_route:factory-policy', 'default_seed_route:service',
        'infeasible_default_decided', 'hostile_scale_cases',
        'hostile_scale_block_cases_run',
        'seed_with_default_first_suggestions',
        'service_proto_param_multiset_checked',
        'phase:EAGLE_STRATEGY:mutate', 'phase:NSGA2:mutate',
        'phase:BOCS:model', 'phase:HARMONICA:model', 'phase:CMA_ES:post-tell',
        'phase:GAUSSIAN_PROCESS_BANDIT:model', 'phase:GP_UCB_PE:model',
        'history_with_infeasible', 'history_with_active',
        'history_with_duplicates', 'history_with_boundary_points',
        'refused_total', 'negative_slice_cases',
        'oracle_selftest_rejections',
    ])
MIN_DISTINCT = {'quick': 400, 'thorough': 4000}

# (algorithm, route) slots for the cheap algorithms, cycled by case index.
_SLOTS = []
_FAST = ['RANDOM_SEARCH', 'QUASI_RANDOM_SEARCH', 'GRID_SEARCH',
         'SHUFFLED_GRID_SEARCH', 'EAGLE_STRATEGY', 'NSGA2']
for _rep in range(3):
  for _a in _FAST:
    _SLOTS += [(_a, 'designer')] * 4 + [(_a, 'policy')] * 2 + [(_a, 'service')]
  if _rep == 0:
    # ~1-2 s per case: evojax re-jits per CMA-ES instance, HARMONICA's model
    # phase costs ~1 s per suggestion, BOCS solves an SDP.
    _SLOTS += [('CMA_ES', 'designer'), ('CMA_ES', 'policy'), ('CMA_ES', 'service'),
               ('BOCS', 'designer'), ('BOCS', 'designer'), ('BOCS', 'policy'),
               ('BOCS', 'service'), ('HARMONICA', 'designer'),
               ('HARMONICA', 'policy'), ('HARMONICA', 'service')]
# the slots where the service/policy route can never answer on this tree are
# still generated (REFUSED is what must be observed there).

CONTINUIFYING = {'EAGLE_STRATEGY', 'NSGA2', 'GAUSSIAN_PROCESS_BANDIT',
                 'GP_UCB_PE', 'DEFAULT'}


def plan(tier, seed):
  if tier == 'quick':
    return {'shards': 12, 'budget_s': 62}
  return {'shards': 16, 'budget_s': 1000}


# ---------------------------------------------------------------------------
# generation (pure: everything the execution needs is inside `case`)
# ---------------------------------------------------------------------------
def _space_for(rng, algo, negative, gp):
  kw = {}
  if algo in CONTINUIFYING:
    kw['max_int_width'] = 2000
  if gp:
    return gen.gen_space(rng, 1, 4, max_int_width=300)
  if algo == 'CMA_ES' and not negative:
    desc = gen.gen_space(rng, 2, 6, kinds=['DOUBLE'])
    if rng.random() < 0.4:
      # CMA-ES emits scaled features outside [0, 1]; with an extreme log-scaled range
      # un-scaling them must still end inside the bounds
      lo, hi = rng.choice([(1e-300, 1e300), (1e-307, 1e307), (1e-200, 1e-150), (1e150, 1e200)])
      desc.insert(rng.randint(0, len(desc)), {'name': 'xtr', 'kind': 'DOUBLE', 'lo': lo, 'hi': hi,
                                              'scale': rng.choice(['LOG', 'REVERSE_LOG', 'REVERSE_LOG']), 'default': None})
    return desc
  if algo in ('BOCS', 'HARMONICA') and not negative:
    n = rng.choice([1, 2, 2, 3, 3, 4, 5, 6, 7])
    return gen.gen_space(rng, n, n, kinds=['BOOL'])
  if negative and algo == 'CMA_ES' and rng.random() < 0.3:
    return gen.gen_space(rng, 1, 1, kinds=['DOUBLE'])
  if negative and algo in ('BOCS', 'HARMONICA') and rng.random() < 0.6:
    # partly boolean: a space these designers do not document. Refusing it is
    # fine, answering with values outside the non-boolean domains is not.
    nb = rng.choice([1, 2, 3])
    desc = gen.gen_space(rng, nb, nb, kinds=['BOOL'])
    other = gen.gen_space(rng, 1, 2, kinds=['DOUBLE', 'INTEGER', 'DISCRETE', 'CATEGORICAL'])
    for j, p in enumerate(other):
      p['name'] = f'nb{j}_' + p['name']
    desc = desc + other
    rng.shuffle(desc)
    return desc
  desc = gen.gen_space(rng, 1, 6, **kw)
  _add_hostile_params(rng, algo, desc)
  return desc


def _add_hostile_params(rng, algo, desc):
  """Parameter shapes at the edge of what float32 features / scaled features can carry."""
  if algo in CONTINUIFYING and rng.random() < 0.2:
    # integer bounds beyond 2^24: un-scaling a float32 feature lands off the integer
    # grid and possibly outside the bounds; only snapping to the feasible set saves it
    lo = rng.choice([16777217, -33554435, 2 ** 24 + 3, 2 ** 30 + 1])
    hi = lo + rng.choice([2, 4, 7])
    desc.insert(rng.randint(0, len(desc)), {'name': 'bigint', 'kind': 'INTEGER', 'lo': lo, 'hi': hi,
                                            'scale': rng.choice([None, 'LINEAR']), 'default': None})
  if rng.random() < 0.12:
    lo, hi = rng.choice(EXTREME_BOUNDS)
    scale = rng.choice([None, 'LINEAR', 'LOG', 'REVERSE_LOG']) if lo > 0 else rng.choice([None, 'LINEAR'])
    desc.insert(rng.randint(0, len(desc)), {'name': 'xtr', 'kind': 'DOUBLE', 'lo': lo, 'hi': hi,
                                            'scale': scale, 'default': None})

# ---------------------------------------------------------------------------
# hostile configurations: what a user can configure although no algorithm can
# honour it. The builders validate neither the scale type against the range
# ("scale_type: NOT VALIDATED") nor the default value against the domain, so
# such studies exist; the property wants them refused or answered inside the
# domain.
# ---------------------------------------------------------------------------
_NONFINITE = {'nan': float('nan'), 'inf': float('inf'), '-inf': -float('inf')}


def default_of(p):
  """The configured default of a description; non-finite DOUBLE defaults are spelled as strings
  inside a case (so that a recorded case stays JSON) and decoded here."""
  d = p.get('default')
  if p['kind'] == 'DOUBLE' and isinstance(d, str):
    return _NONFINITE[d]
  return d


def decode_desc(desc):
  return [dict(p, default=default_of(p)) for p in desc]


def sign_class(p):
  """Where the range of a numeric parameter lies relative to zero (None: strictly positive)."""
  lo = p['lo'] if p['kind'] in ('DOUBLE', 'INTEGER') else min(p['values'])
  hi = p['hi'] if p['kind'] in ('DOUBLE', 'INTEGER') else max(p['values'])
  if lo > 0:
    return None
  if lo == 0:
    return 'lower-bound-zero' if hi > 0 else 'nonpositive-range'
  return 'straddles-zero' if hi > 0 else 'nonpositive-range'


HS_SIGNS = ['straddles-zero', 'lower-bound-zero', 'nonpositive-range']
HS_SCALES = ['LOG', 'REVERSE_LOG']


def unscalable_param(hrng, kinds, name='hs', sign=None, scale=None):
  """A numeric parameter whose scale type does not fit its range."""
  kind = hrng.choice(kinds)
  sign = sign or hrng.choice(['straddles-zero'] + HS_SIGNS)
  scale = scale or hrng.choice(['LOG', 'LOG', 'LOG', 'REVERSE_LOG', 'REVERSE_LOG', 'UNIFORM_DISCRETE'])
  p = {'name': name, 'kind': kind, 'scale': scale, 'default': None}
  if kind == 'DOUBLE':
    if sign == 'straddles-zero':
      lo, hi = -hrng.choice([0.5, 1.0, 1e-3, 50.0, 1e6]), hrng.choice([0.5, 10.0, 1e-3, 1e4])
    elif sign == 'lower-bound-zero':
      lo, hi = 0.0, hrng.choice([1.0, 1e-6, 100.0, 1e9])
    else:
      hi = hrng.choice([0.0, -1e-3, -1.0])
      lo = hi - hrng.choice([0.5, 10.0, 1e3])
    p['lo'], p['hi'] = float(lo), float(hi)
  elif kind == 'INTEGER':
    if sign == 'straddles-zero':
      lo, hi = -hrng.choice([1, 2, 3, 5, 30]), hrng.choice([1, 4, 12, 40])
    elif sign == 'lower-bound-zero':
      lo, hi = 0, hrng.choice([1, 3, 20, 200])
    else:
      hi = hrng.choice([0, -1, -3])
      lo = hi - hrng.choice([1, 4, 12, 30])
    p['lo'], p['hi'] = int(lo), int(hi)
  else:
    n = hrng.choice([2, 3, 5, 12])
    vals = set()
    if sign == 'lower-bound-zero':
      vals.add(0.0)
    while len(vals) < n:
      v = round(10 ** hrng.uniform(-2, 2), 3) if hrng.random() < 0.5 else float(hrng.randint(1, 40))
      if sign == 'nonpositive-range' or (sign == 'straddles-zero' and (len(vals) % 2 == 0)):
        v = -v
      vals.add(v)
    p['values'] = sorted(vals)
  return p


def infeasible_default(hrng, p):
  """Gives parameter description `p` a default value outside its domain (in place)."""
  k = p['kind']
  if k == 'BOOL':
    # add_bool_param only takes True/False; the same domain as a two-valued categorical
    p['kind'], k = 'CATEGORICAL', 'CATEGORICAL'
  if k == 'DOUBLE':
    lo, hi = p['lo'], p['hi']
    span = max(hi - lo, abs(hi), abs(lo), 1.0)
    cand = [hi + span, lo - span, hi + 0.5 * span, math.nextafter(hi, math.inf),
            math.nextafter(lo, -math.inf)]
    cand = [c for c in cand if math.isfinite(c) and not lo <= c <= hi]
    if hrng.random() < 0.15:
      cand = list(_NONFINITE)     # JSON-able spellings, see default_of()
  elif k == 'INTEGER':
    cand = [p['hi'] + 1, p['lo'] - 1, p['hi'] + 40, p['lo'] - 40]
  elif k == 'DISCRETE':
    vals = p['values']
    v = hrng.choice(vals)
    cand = [max(vals) + 1.0, min(vals) - 1.0, math.nextafter(v, math.inf)]
    if len(vals) > 1:
      j = hrng.randrange(len(vals) - 1)
      cand.append((vals[j] + vals[j + 1]) / 2)
    cand = [c for c in cand if all(float(c) != float(f) for f in vals)]
  else:
    v = hrng.choice(p['values'])
    cand = [v.swapcase(), v + ' ', ' ' + v, v.lower(), 'zzz', '1' if v != '1' else '2']
    cand = [c for c in cand if c not in p['values']]
  p['default'] = hrng.choice(cand)
  return p


def _make_hostile(hrng, algo, route, desc, opts, force=None):
  """Mutates `desc` (and `opts`) in place; returns the list of hostile classes applied.

  force: None (random slice) or {'sign':.., 'scale':..} (the stratified block)."""
  u = hrng.random()
  if force is not None or (u < 0.08 and algo not in ('BOCS', 'HARMONICA')):
    kinds = ['DOUBLE'] if algo == 'CMA_ES' else ['DOUBLE', 'DOUBLE', 'INTEGER', 'DISCRETE']
    desc.insert(hrng.randint(0, len(desc)), unscalable_param(hrng, kinds, **(force or {})))
    return ['unscalable']
  if 0.08 <= u < 0.16 and route != 'designer':
    # only the seeding wrappers read default values
    infeasible_default(hrng, hrng.choice(desc))
    if hrng.random() < 0.7:
      opts['wrap_seed_default'] = True
    return ['infeasible-default']
  return []


def _metrics_for(rng, algo, negative, gp):
  n = 1
  if algo == 'NSGA2':
    n = rng.choice([1, 2, 2, 3])
  elif algo == 'GAUSSIAN_PROCESS_BANDIT' and rng.random() < 0.25:
    n = 2
  elif negative and rng.random() < 0.2:
    n = 2
  return [{'name': ['obj', 'm1', 'm2'][k],
           'goal': rng.choice(['MAXIMIZE', 'MINIMIZE'])} for k in range(n)]


def _opts_for(rng, algo, route, nparams, gp, tier):
  o = {}
  if route != 'designer':
    o['fresh_policy'] = rng.random() < 0.5
    o['wrap_seed_default'] = rng.random() < 0.35
    return o
  if algo == 'RANDOM_SEARCH':
    o['dtype'] = rng.choice(['float64', 'float32'])
  elif algo == 'QUASI_RANDOM_SEARCH':
    o['skip_points'] = rng.choice([0, 1, 1000, 1000, 10 ** 5])
  elif algo in ('GRID_SEARCH', 'SHUFFLED_GRID_SEARCH'):
    o['resolution'] = rng.choice([1, 2, 3, 10, 10, 17])
  elif algo == 'EAGLE_STRATEGY':
    o['max_pool_size'] = rng.choice([None, 1, 2, 3, 5])
    o['infeasible_force_factor'] = rng.choice([0.0] * 19 + [0.1])
    o['explore_rate'] = rng.choice([1.0, 1.0, 1.5, 0.5])
    o['perturbation'] = rng.choice([0.1, 0.1, 0.5, 2.0])
  elif algo == 'NSGA2':
    o['population_size'] = rng.choice([1, 2, 3, 5, 50])
    o['first_survival_after'] = rng.choice([None, 1, 3, 6])
    o['eviction_limit'] = rng.choice([None, None, 1, 3])
    o['norm'] = rng.choice([None, 0.001, 0.1, 0.5, 1.0])
  elif algo == 'CMA_ES':
    o['pop_size'] = rng.choice([None, 2, 3, 4])
    o['init_stdev'] = rng.choice([0.1, 0.1, 1.0, 10.0])
  elif algo == 'BOCS':
    o['order'] = rng.choice([1, 2, 2])
    o['acq'] = rng.choice(['sdp', 'sdp', 'sdp', 'sdp', 'sdp', 'sa'])
    o['num_init'] = rng.choice([0, 1, 1, 3, 3, 10])
  elif algo == 'HARMONICA':
    o['num_init'] = rng.choice([0, 1, 1, 3, 3, 10])
    o['acq_samples'] = rng.choice([1, 10, 100])
  elif algo in GPS:
    o['max_evaluations'] = rng.choice([1000, 2000, 5000])
    o['num_seed_trials'] = rng.choice([1, 1, 2, 3])
    o['padding'] = rng.random() < 0.3
    if algo == 'GP_UCB_PE':
      o['set_acquisition'] = rng.random() < 0.35
  return o


def _metric_values(rng, cls, n):
  out = []
  for _ in range(n):
    if cls == 'uniform':
      out.append(rng.uniform(-1, 1))
    elif cls == 'constant':
      out.append(0.5)
    elif cls == 'gauss':
      out.append(rng.gauss(0.0, 1.0))
    elif cls == 'big':
      out.append(rng.choice([-1, 1]) * rng.uniform(1, 9) * 10 ** rng.randint(3, 12))
    else:
      out.append(float(rng.randint(-3, 3)))
  return out


def _history_for(rng, algo, desc, nmetrics, route, gp, mcls):
  if gp:
    n = rng.choice([0, 2, 3, 4, 6])
  else:
    n = rng.choice([0, 0, 1, 3, 8, 15, 30])
    if algo == 'NSGA2' and route != 'designer' and rng.random() < 0.3:
      n = 110
    if algo in ('BOCS', 'HARMONICA', 'CMA_ES') and rng.random() < 0.5:
      n = rng.choice([10, 12, 15])
  clean = rng.random() < 0.35   # only completed feasible trials
  hist = []
  for _ in range(n):
    if hist and rng.random() < 0.2:
      point = dict(rng.choice(hist)['p'])
    else:
      point = gen.sample_point(rng, desc,
                               boundary_bias=rng.choice([0.0, 0.25, 1.0]))
    state = 'C'
    if not clean:
      u = rng.random()
      state = 'C' if u < 0.7 else ('I' if u < 0.85 else 'A')
    hist.append({'p': point, 's': state,
                 'm': _metric_values(rng, mcls, nmetrics)})
  return hist


def gen_case(rng, algo, route, tier, gp=False, name=None, hrng=None, force=None):
  """`hrng` (a second per-case generator) decides the hostile-configuration slices, so
  that the cases outside these slices are the same with and without them."""
  negative = (not gp) and rng.random() < 0.12
  desc = _space_for(rng, algo, negative, gp)
  metrics = _metrics_for(rng, algo, negative, gp)
  opts = _opts_for(rng, algo, route, len(desc), gp, tier)
  hostile = _make_hostile(hrng, algo, route, desc, opts, force) if (hrng is not None and not gp) else []
  if algo in ('EAGLE_STRATEGY', 'NSGA2') or opts.get('dtype') == 'float32':
    # these compute in float32: bounds beyond its range (3.4e38) are not representable
    # in the designer's dtype, nothing is demanded there
    desc = [p for p in desc if p['name'] != 'xtr']
    if not desc:
      desc = gen.gen_space(rng, 1, 3)
  mcls = rng.choice(['uniform', 'uniform', 'constant', 'big', 'integer'])
  hist = _history_for(rng, algo, desc, len(metrics), route, gp, mcls)
  if 'infeasible-default' in hostile and hrng.random() < 0.8:
    hist = []    # the default seed is only handed out to an empty study
  if negative and algo in ('BOCS', 'HARMONICA') and any(p['kind'] != 'BOOL' for p in desc) and any(
      p['kind'] == 'BOOL' for p in desc):
    # enough clean history to get past the random warm-up into the model phase
    for e in hist:
      e['s'] = 'C'
    while len(hist) < 12:
      hist.append({'p': gen.sample_point(rng, desc), 's': 'C', 'm': _metric_values(rng, mcls, len(metrics))})
  single = algo in ('BOCS', 'HARMONICA')
  rounds = []
  if gp:
    nr = rng.choice([1, 2]) if tier == 'quick' else rng.choice([1, 2, 3])
  elif algo == 'HARMONICA':
    nr = rng.randint(1, 2)
  else:
    nr = rng.randint(1, 4)
  for _ in range(nr):
    if gp:
      count = rng.choice([1, 1, 2]) if tier == 'quick' else rng.choice([1, 1, 2, 3])
    elif single:
      count = 1 if (not negative or rng.random() < 0.6) else rng.choice([2, 3])
    else:
      count = rng.randint(1, 7)
    fates = []
    for _k in range(8):
      u = rng.random()
      fates.append('C' if u < 0.75 else ('I' if u < 0.87 else 'A'))
    extra = []
    if rng.random() < 0.15:
      extra.append({'p': gen.sample_point(rng, desc), 's': 'C',
                    'm': _metric_values(rng, mcls, len(metrics))})
    rounds.append({'count': count, 'fates': fates, 'extra': extra,
                   'late': rng.random() < 0.5})
  if algo in ('NSGA2', 'BOCS', 'HARMONICA') and rng.random() < 0.7:
    # these designers refuse infeasible trials (KeyError on the missing
    # metric); keep most of their cases free of them so that they get to answer
    for e in hist:
      if e['s'] == 'I':
        e['s'] = 'C'
    for r in rounds:
      r['fates'] = ['C' if f == 'I' else f for f in r['fates']]
  return {'route': route, 'algo': algo, 'name': name or algo, 'desc': desc,
          'metrics': metrics, 'opts': opts, 'history': hist, 'rounds': rounds,
          'mcls': mcls, 'seed': rng.getrandbits(31), 'negative': negative or bool(hostile),
          'hostile': hostile}


def abstraction(case):
  h = case['history']
  states = sorted({e['s'] for e in h})
  nh = len(h)
  hc = 0 if nh == 0 else (1 if nh <= 3 else (2 if nh <= 15 else 3))
  o = case['opts']
  return [case['route'], case['name'], gen.space_shape(case['desc']),
          len(case['metrics']), sorted((k, str(v)) for k, v in o.items()),
          hc, states, [r['count'] for r in case['rounds']], case['negative']] + (
              [case['hostile']] if case.get('hostile') else [])


# ---------------------------------------------------------------------------
# oracle + classifier
# ---------------------------------------------------------------------------
def _kind_tag(p):
  t = p['kind']
  if p.get('scale'):
    t += '/' + p['scale']
    if p['scale'] in ('LOG', 'REVERSE_LOG') and p['kind'] != 'CATEGORICAL' and sign_class(p):
      t += '/' + sign_class(p)
  if p['kind'] in ('DOUBLE', 'INTEGER'):
    w = p['hi'] - p['lo']
    if w == 0:
      t += '/singleton'
    elif p['kind'] == 'DOUBLE' and w <= 1e-6:
      t += '/tiny-range'
    elif w >= 1e9:
      t += '/huge-range'
    elif p['kind'] == 'INTEGER' and w > 10:
      t += '/continuified-width'
  else:
    n = len(p['values'])
    if n == 1:
      t += '/singleton'
    elif p['kind'] == 'DISCRETE' and n > 10:
      t += '/more-than-10-values'
  return t


def _raw(v):
  if hasattr(v, 'value') and not isinstance(v, (int, float, str)):
    return v.value
  return v


def _same_value(v, d):
  if isinstance(v, str) or isinstance(d, str):
    return isinstance(v, str) and isinstance(d, str) and v == d
  if isinstance(v, bool) or not isinstance(v, (int, float)):
    return False
  return float(v) == float(d) or (math.isnan(float(v)) and math.isnan(float(d)))


def classify(desc, params, algo, phase):
  """Abstract mechanism id of a non-member suggestion (shape only)."""
  names = [p['name'] for p in desc]
  keys = list(params.keys())
  by = {p['name']: p for p in desc}
  missing = [n for n in names if n not in keys]
  extra = [k for k in keys if k not in by]
  if missing:
    unscalable = [n for n in missing if by[n].get('scale') in ('LOG', 'REVERSE_LOG')
                  and by[n]['kind'] in ('DOUBLE', 'INTEGER', 'DISCRETE') and sign_class(by[n])]
    if unscalable and not extra:
      # a LOG / REVERSE_LOG scaled parameter whose range is not strictly positive cannot be
      # scaled; the shared scaling converter (not the algorithm) answered with non-finite
      # features, which are silently dropped: one mechanism for every algorithm and
      # numeric parameter type, keyed by scale type and position of the range.
      q = by[unscalable[0]]
      return (f'unscalable-parameter-dropped:{q["scale"]}:{sign_class(q)}',
              f'{q["kind"]} parameter {q["name"]!r} (scale {q["scale"]}, range '
              f'{[q["lo"], q["hi"]] if "lo" in q else q["values"]}) absent from the suggestion of {algo} '
              f'(phase {phase}) instead of the study being refused')
    numeric = [n for n in names if by[n]['kind'] in ('DOUBLE', 'INTEGER', 'DISCRETE')]
    if (algo in GPS and sorted(missing) == sorted(numeric)
        and not extra):
      # every parameter that the GP converters encode as a continuous feature
      # is gone at once, the categorical ones are present: the acquisition
      # optimizer returned non-finite continuous features and the converter
      # dropped them (`_to_parameter_value` returns None for non-finite).
      return (f'all-continuous-parameters-missing:{algo}:{phase}',
              f'parameters {missing} (every numeric one) absent from the suggestion')
    return (f'missing-parameter:{algo}:{_kind_tag(by[missing[0]])}:{phase}',
            f'parameter {missing[0]!r} absent from the suggestion')
  if extra:
    return (f'extra-parameter:{algo}:{phase}',
            f'parameter {extra[0]!r} is not in the search space')
  for p in desc:
    v = _raw(params[p['name']])
    if gen.member1(p, v):
      continue
    k = p['kind']
    d = default_of(p)
    if (phase == 'default-seed' and d is not None and not isinstance(d, bool)
        and not gen.member1(p, d) and _same_value(v, d)):
      # the configured default itself is outside the domain and the seeding handed it
      # out unchecked (independent of the algorithm behind the seeding wrapper)
      return (f'infeasible-default-handed-out:{k}',
              f'{p["name"]}={v!r}: the configured default_value is outside {p} and was handed out as '
              f'the seed suggestion ({algo}) instead of the study being refused')
    anomaly = 'not-in-feasible-set'
    if k in ('DOUBLE', 'INTEGER', 'DISCRETE'):
      if isinstance(v, bool) or not isinstance(v, (int, float)):
        anomaly = 'wrong-type-' + type(v).__name__
      elif isinstance(v, float) and not math.isfinite(v):
        anomaly = 'non-finite'
      elif k in ('DOUBLE', 'INTEGER'):
        span = max(abs(p['lo']), abs(p['hi']), p['hi'] - p['lo'], 1e-300)
        if v < p['lo']:
          anomaly = 'below-lower-bound' + (
              '-by-rounding' if (p['lo'] - v) <= 1e-6 * span else '')
        elif v > p['hi']:
          anomaly = 'above-upper-bound' + (
              '-by-rounding' if (v - p['hi']) <= 1e-6 * span else '')
        else:
          anomaly = 'non-integral'
    else:
      if not isinstance(v, str):
        anomaly = 'wrong-type-' + type(v).__name__
    return (f'{anomaly}:{algo}:{_kind_tag(p)}:{phase}',
            f'{p["name"]}={v!r} ({type(v).__name__}) outside {p}')
  return (f'oracle-disagreement:{algo}:{phase}', 'member() false, member1() true')


def _gp_debug(metadata):
  """What the GP designers wrote about the suggestion (witness only)."""
  out = {}
  try:
    for ns_name in ('google_gp_ucb_pe_bandit', 'google_gp_bandit'):
      ns = metadata.ns(ns_name).ns('prediction_in_warped_y_space')
      for k in ('acquisition', 'use_ucb', 'mean', 'stddev_from_all'):
        if k in ns:
          out[k] = str(ns[k])[:60]
  except Exception:  # pylint: disable=broad-except
    pass
  return out


def check_params(ctx, case, params, phase, where, metadata=None):
  """Decides one suggestion. Returns True when it is inside the space."""
  algo = case['algo']
  ctx.count('suggestions_checked:' + algo)
  if case['name'] != algo:
    ctx.count('suggestions_checked_name:' + case['name'])
  ctx.count('suggestions_checked_route:' + case['route'])
  ctx.count(f'phase:{algo}:{phase}')
  if gen.member(case['desc'], params):
    return True
  mech, what = classify(case['desc'], params, algo, phase)
  shown = {k: _raw(v) for k, v in params.items()}
  ctx.violation(
      mech, f'{case["name"]} via {case["route"]} ({where}, phase {phase}): {what}',
      case, {'suggestion': shown, 'where': where, 'phase': phase,
             'designer_debug_metadata': _gp_debug(metadata) if metadata is not None else None})
  if case.get('hostile') and case.get('kind') != 'default-seed':
    # one witness per hostile case is enough (every further suggestion repeats it)
    raise StopCase()
  return False


# ---------------------------------------------------------------------------
# building repository objects from a case
# ---------------------------------------------------------------------------
def build_problem(case):
  from vizier import pyvizier as vz
  space = gen.build_space(decode_desc(case['desc']))
  mi = [vz.MetricInformation(m['name'], goal=getattr(vz.ObjectiveMetricGoal, m['goal']))
        for m in case['metrics']]
  return vz.ProblemStatement(search_space=space, metric_information=mi)


def _values(case, evalrng, tid):
  if case['mcls'] == 'sin5':
    return [math.sin(5 * tid)] * len(case['metrics'])
  return _metric_values(evalrng, case['mcls'], len(case['metrics']))


def _measurement(case, values):
  from vizier import pyvizier as vz
  return vz.Measurement(
      metrics={m['name']: float(v) for m, v in zip(case['metrics'], values)})


def _complete(case, trial, state, values):
  from vizier import pyvizier as vz
  if state == 'C':
    trial.complete(_measurement(case, values))
  elif state == 'I':
    trial.complete(vz.Measurement(), infeasibility_reason='harness: infeasible')
  return trial


def make_designer(case, problem, hooks):
  algo, o, seed = case['algo'], case['opts'], case['seed']
  space = problem.search_space
  if algo == 'RANDOM_SEARCH':
    from vizier._src.algorithms.designers import random as rd
    return rd.RandomDesigner(space, seed=seed, dtype=getattr(np, o['dtype']))
  if algo == 'QUASI_RANDOM_SEARCH':
    from vizier._src.algorithms.designers import quasi_random
    return quasi_random.QuasiRandomDesigner(space, seed=seed,
                                            skip_points=o['skip_points'])
  if algo in ('GRID_SEARCH', 'SHUFFLED_GRID_SEARCH'):
    from vizier._src.algorithms.designers import grid
    return grid.GridSearchDesigner(
        space, shuffle_seed=seed if algo.startswith('SHUFFLED') else None,
        double_grid_resolution=o['resolution'])
  if algo == 'EAGLE_STRATEGY':
    from vizier._src.algorithms.designers.eagle_strategy import eagle_strategy as e
    kw = {'infeasible_force_factor': o['infeasible_force_factor'],
          'explore_rate': o['explore_rate'], 'perturbation': o['perturbation']}
    if o['max_pool_size'] is not None:
      kw['max_pool_size'] = o['max_pool_size']
    return e.EagleStrategyDesigner(problem, seed=seed,
                                   config=e.FireflyAlgorithmConfig(**kw))
  if algo == 'NSGA2':
    from vizier._src.algorithms.evolution import nsga2, numpy_populations
    kw = {}
    if o['norm'] is not None:
      kw['adaptation'] = numpy_populations.LinfMutation(norm=o['norm'], seed=seed)
    return nsga2.NSGA2Designer(
        problem, population_size=o['population_size'],
        first_survival_after=o['first_survival_after'],
        eviction_limit=o['eviction_limit'], seed=seed, **kw)
  if algo == 'CMA_ES':
    from vizier._src.algorithms.designers import cmaes
    kw = {'seed': seed % 1000, 'init_stdev': o['init_stdev']}
    if o['pop_size'] is not None:
      kw['pop_size'] = o['pop_size']
    d = cmaes.CMAESDesigner(problem, **kw)
    inner = d._cma_es_jax  # pylint: disable=protected-access
    orig = inner.tell

    def tell(*a, **k):
      hooks['told'] = True
      return orig(*a, **k)
    inner.tell = tell
    return d
  if algo == 'BOCS':
    from vizier._src.algorithms.designers import bocs
    return bocs.BOCSDesigner(
        problem, order=o['order'],
        acquisition_optimizer_factory=(bocs.SemiDefiniteProgramming
                                       if o['acq'] == 'sdp' else bocs.SimulatedAnnealing),
        num_initial_randoms=o['num_init'])
  if algo == 'HARMONICA':
    from vizier._src.algorithms.designers import harmonica
    return harmonica.HarmonicaDesigner(
        problem, acquisition_samples=o['acq_samples'],
        num_init_samples=o['num_init'])
  if algo in GPS:
    import jax
    from vizier._src.algorithms.optimizers import eagle_strategy as es
    from vizier._src.algorithms.optimizers import vectorized_base as vb
    from vizier.pyvizier.converters import padding
    kw = {}
    if o.get('padding'):
      kw['padding_schedule'] = padding.PaddingSchedule(
          num_trials=padding.PaddingType.MULTIPLES_OF_10,
          num_features=padding.PaddingType.POWERS_OF_2)
    if algo == 'GAUSSIAN_PROCESS_BANDIT':
      from vizier._src.algorithms.designers import gp_bandit
      fac = vb.VectorizedOptimizerFactory(
          strategy_factory=es.VectorizedEagleStrategyFactory(
              eagle_config=es.EagleStrategyConfig()),
          max_evaluations=o['max_evaluations'], suggestion_batch_size=25)
      return gp_bandit.VizierGPBandit(
          problem, acquisition_optimizer_factory=fac,
          num_seed_trials=o['num_seed_trials'], rng=jax.random.PRNGKey(seed), **kw)
    from vizier._src.algorithms.designers import gp_ucb_pe
    fac = vb.VectorizedOptimizerFactory(
        strategy_factory=es.VectorizedEagleStrategyFactory(
            eagle_config=gp_ucb_pe.VizierGPUCBPEBandit.default_eagle_config),
        max_evaluations=o['max_evaluations'], suggestion_batch_size=25)
    return gp_ucb_pe.VizierGPUCBPEBandit(
        problem, acquisition_optimizer_factory=fac,
        num_seed_trials=o['num_seed_trials'], rng=jax.random.PRNGKey(seed),
        config=gp_ucb_pe.UCBPEConfig(
            optimize_set_acquisition_for_exploration=bool(o.get('set_acquisition'))),
        **kw)
  raise ValueError(algo)


def phase_of(ctx, algo, d, hooks):
  """Label only (seed / model phase); reads private attributes defensively."""
  # pylint: disable=protected-access
  try:
    if d is None:
      return 'unknown' if algo != 'RANDOM_SEARCH' else 'sample'
    if algo == 'EAGLE_STRATEGY':
      pool = d._firefly_pool
      return 'mutate' if pool.size >= pool.capacity else 'seed'
    if algo == 'NSGA2':
      return ('mutate' if d._num_trials_seen >= d._first_survival_after
              and len(d._population) > 0 else 'sample')
    if algo == 'BOCS':
      return 'model' if len(d._trials) >= d._num_initial_randoms else 'random'
    if algo == 'HARMONICA':
      return 'model' if len(d._trials) >= d._num_init_samples else 'random'
    if algo == 'CMA_ES':
      return 'post-tell' if hooks.get('told') else 'pre-tell'
    if algo == 'GAUSSIAN_PROCESS_BANDIT':
      return 'model' if len(d._trials) >= d._num_seed_trials else 'seed'
    if algo in ('GP_UCB_PE', 'DEFAULT'):
      n = len(d._all_completed_trials) + len(d._all_active_trials)
      return 'model' if n >= d._num_seed_trials else 'seed'
    if algo in ('GRID_SEARCH', 'SHUFFLED_GRID_SEARCH'):
      size = 1
      for v in d._grid_values.values():
        size *= len(v)
      return 'wrapped' if d._current_index > size else 'grid'
    return 'sample'
  except AttributeError as e:
    ctx.count(f'phase_probe_failed:{algo}')
    ctx.note(f'phase probe failed for {algo}: {e}')
    return 'unknown'


def _refused(ctx, case, stage, e):
  ctx.count('refused_total')
  key = f'refused:{case["route"]}:{case["name"]}:{stage}:{type(e).__name__}'
  if case['negative']:
    key += ':negative-slice'
  ctx.count(key)
  return ('REFUSED', stage, type(e).__name__, str(e)[:200])


def _history_counters(ctx, case):
  h = case['history']
  if not h:
    ctx.count('history_empty')
    return
  if any(e['s'] == 'I' for e in h):
    ctx.count('history_with_infeasible')
  if any(e['s'] == 'A' for e in h):
    ctx.count('history_with_active')
  seen = set()
  dup = False
  for e in h:
    k = repr(sorted(e['p'].items()))
    dup = dup or k in seen
    seen.add(k)
  if dup:
    ctx.count('history_with_duplicates')
  by = {p['name']: p for p in case['desc']}
  for e in h:
    if any(by[n]['kind'] in ('DOUBLE', 'INTEGER') and v in (by[n]['lo'], by[n]['hi'])
           for n, v in e['p'].items()):
      ctx.count('history_with_boundary_points')
      break


# ---------------------------------------------------------------------------
# route: designers used directly
# ---------------------------------------------------------------------------
def run_designer(ctx, case):
  from vizier import pyvizier as vz
  from vizier import algorithms as vza
  evalrng = random.Random(case['seed'])
  hooks = {}
  checked = 0
  try:
    problem = build_problem(case)
  except Exception as e:  # pylint: disable=broad-except
    return checked, _refused(ctx, case, 'problem', e)
  try:
    designer = make_designer(case, problem, hooks)
  except Exception as e:  # pylint: disable=broad-except
    return checked, _refused(ctx, case, 'construct', e)
  trials = []
  fresh = []       # completed since the last update
  for e in case['history']:
    t = vz.Trial(id=len(trials) + 1, parameters=e['p'])
    _complete(case, t, e['s'], e['m'])
    trials.append(t)
    if e['s'] != 'A':
      fresh.append(t)
  for rnd_i, rnd in enumerate(case['rounds']):
    active = [t for t in trials if t.status == vz.TrialStatus.ACTIVE]
    try:
      designer.update(vza.CompletedTrials(fresh), vza.ActiveTrials(active))
    except Exception as e:  # pylint: disable=broad-except
      return checked, _refused(ctx, case, 'update', e)
    fresh = []
    phase = phase_of(ctx, case['algo'], designer, hooks)
    try:
      suggestions = list(designer.suggest(rnd['count']))
    except Exception as e:  # pylint: disable=broad-except
      return checked, _refused(ctx, case, 'suggest', e)
    if len(suggestions) != rnd['count']:
      ctx.count(f'delivered_other_than_requested:{case["algo"]}')
    for k, s in enumerate(suggestions):
      check_params(ctx, case, s.parameters, phase, f'round {rnd_i} item {k}', s.metadata)
      checked += 1
      try:
        t = s.to_trial(len(trials) + 1)
      except Exception as e:  # pylint: disable=broad-except
        return checked, _refused(ctx, case, 'to_trial', e)
      fate = rnd['fates'][k % len(rnd['fates'])]
      _complete(case, t, fate, _values(case, evalrng, t.id))
      trials.append(t)
      if fate != 'A':
        fresh.append(t)
    if rnd['late']:
      for t in active:
        _complete(case, t, 'C', _values(case, evalrng, t.id))
        fresh.append(t)
    for e in rnd['extra']:
      t = vz.Trial(id=len(trials) + 1, parameters=e['p'])
      _complete(case, t, e['s'], e['m'])
      trials.append(t)
      fresh.append(t)
  return checked, ('DONE',)


# ---------------------------------------------------------------------------
# route: DefaultPolicyFactory on an in-RAM supporter
# ---------------------------------------------------------------------------
def _policy_designer(policy):
  return getattr(policy, '_designer', None)


def run_policy(ctx, case):
  from vizier import pythia
  from vizier import pyvizier as vz
  from vizier._src.service import policy_factory as pf
  evalrng = random.Random(case['seed'])
  checked = 0
  try:
    problem = build_problem(case)
    supporter = pythia.InRamPolicySupporter(problem)
  except Exception as e:  # pylint: disable=broad-except
    return checked, _refused(ctx, case, 'problem', e)
  factory = pf.DefaultPolicyFactory()

  def new_policy():
    p = factory(problem, case['name'], supporter, 'c03-study')
    if case['opts'].get('wrap_seed_default') and not getattr(p, '_use_seeding', False):
      p.suggest = pythia.seed_with_default(p.suggest)
      return p, True
    return p, bool(getattr(p, '_use_seeding', False))
  try:
    policy, seeding = new_policy()
  except Exception as e:  # pylint: disable=broad-except
    return checked, _refused(ctx, case, 'construct', e)
  hist_trials = []
  for e in case['history']:
    t = vz.Trial(parameters=e['p'])
    _complete(case, t, e['s'], e['m'])
    hist_trials.append(t)
  if hist_trials:
    supporter.AddTrials(hist_trials)
  for rnd_i, rnd in enumerate(case['rounds']):
    if rnd_i and case['opts'].get('fresh_policy'):
      try:
        policy, seeding = new_policy()
      except Exception as e:  # pylint: disable=broad-except
        return checked, _refused(ctx, case, 'construct', e)
    empty_study = not supporter.trials
    active = [t for t in supporter.trials if t.status == vz.TrialStatus.ACTIVE]
    try:
      got = list(supporter.SuggestTrials(policy, rnd['count']))
    except Exception as e:  # pylint: disable=broad-except
      return checked, _refused(ctx, case, 'suggest', e)
    phase = phase_of(ctx, case['algo'], _policy_designer(policy), {})
    if len(got) != rnd['count']:
      ctx.count(f'delivered_other_than_requested:{case["algo"]}')
    for k, t in enumerate(got):
      ph = phase
      if seeding and empty_study and k == 0:
        ph = 'default-seed'
        ctx.count('seed_with_default_first_suggestions')
      check_params(ctx, case, t.parameters, ph, f'round {rnd_i} item {k}', t.metadata)
      checked += 1
      fate = rnd['fates'][k % len(rnd['fates'])]
      _complete(case, t, fate, _values(case, evalrng, t.id))
    if rnd['late']:
      for t in active:
        _complete(case, t, 'C', _values(case, evalrng, t.id))
    extra = []
    for e in rnd['extra']:
      t = vz.Trial(parameters=e['p'])
      _complete(case, t, e['s'], e['m'])
      extra.append(t)
    if extra:
      supporter.AddTrials(extra)
  return checked, ('DONE',)


# ---------------------------------------------------------------------------
# route: real servicer on sqlite memory through the client library
# ---------------------------------------------------------------------------
_SERVICE = {}


def _service():
  if not _SERVICE:
    from vizier.service import clients
    from vizier._src.service import vizier_client
    clients.environment_variables.servicer_use_sql_ram()
    clients.environment_variables.new_suggestion_polling_secs = 0.01
    servicer = vizier_client.create_vizier_servicer_or_stub()
    assert 'memory' in str(clients.environment_variables.servicer_kwargs)
    _SERVICE['clients'] = clients
    _SERVICE['servicer'] = servicer
    _SERVICE['n'] = 0
  return _SERVICE


def _proto_param_ids(svc, study_name, trial_id):
  from vizier._src.service import vizier_service_pb2
  proto = svc['servicer'].GetTrial(
      vizier_service_pb2.GetTrialRequest(name=f'{study_name}/trials/{trial_id}'))
  return [p.parameter_id for p in proto.parameters]


def run_service(ctx, case):
  from vizier import pyvizier as vz
  from vizier.service import pyvizier as svz
  evalrng = random.Random(case['seed'])
  checked = 0
  svc = _service()
  clients = svc['clients']
  svc['n'] += 1
  try:
    problem = build_problem(case)
    config = svz.StudyConfig.from_problem(problem)
    config.algorithm = case['name']
    # every other study is created under the name of a study that an earlier case deleted
    # (and saw deleted): a new study with another search space and algorithm, on the same
    # server process - nothing kept about the old one may shape its suggestions
    free = svc.setdefault('free_names', [])
    if free and svc['n'] % 2 == 0:
      study_id = free.pop(0)
      ctx.count('service_studies_created_under_a_deleted_name')
    else:
      study_id = f'case-{ctx.shard}-{svc["n"]}'
    study = clients.Study.from_study_config(config, owner='c03', study_id=study_id)
  except Exception as e:  # pylint: disable=broad-except
    return checked, _refused(ctx, case, 'create-study', e)
  try:
    for e in case['history']:
      t = vz.Trial(parameters=e['p'])
      _complete(case, t, e['s'], e['m'])
      study.add_trial(t)
  except Exception as e:  # pylint: disable=broad-except
    ctx.count('service_history_rejected:' + type(e).__name__)
    return checked, _refused(ctx, case, 'add-history', e)
  names = sorted(p['name'] for p in case['desc'])
  n_hist = len(case['history'])
  for rnd_i, rnd in enumerate(case['rounds']):
    try:
      got = study.suggest(count=rnd['count'], client_id=f'worker-{rnd_i}')
    except Exception as e:  # pylint: disable=broad-except
      return checked, _refused(ctx, case, 'suggest', e)
    if len(got) != rnd['count']:
      ctx.count(f'delivered_other_than_requested:{case["algo"]}')
    for k, tc in enumerate(got):
      t = tc.materialize()
      if t.id <= n_hist:
        # an unassigned ACTIVE trial of the history (a user-provided point)
        # was handed to this worker: not an algorithm suggestion.
        ctx.count('service_handed_out_history_trial')
        continue
      ph = 'unknown'
      if n_hist == 0 and rnd_i == 0 and k == 0 and case['algo'] in (
          'BOCS', 'HARMONICA', 'GAUSSIAN_PROCESS_BANDIT', 'GP_UCB_PE'):
        ph = 'default-seed'
        ctx.count('seed_with_default_first_suggestions')
      ok = check_params(ctx, case, t.parameters, ph, f'round {rnd_i} item {k}', t.metadata)
      checked += 1
      ids = _proto_param_ids(svc, study.resource_name, t.id)
      ctx.count('service_proto_param_multiset_checked')
      if ok and sorted(ids) != names:
        ctx.violation(
            f'stored-trial-parameter-multiset:{case["algo"]}',
            f'{case["name"]} via service: stored trial names parameters {sorted(ids)} '
            f'but the space has {names}', case, {'trial_id': t.id, 'ids': ids})
      fate = rnd['fates'][k % len(rnd['fates'])]
      try:
        if fate == 'C':
          tc.complete(_measurement(
              case, _values(case, evalrng, t.id)))
        elif fate == 'I':
          tc.complete(infeasible_reason='harness: infeasible')
      except Exception as e:  # pylint: disable=broad-except
        return checked, _refused(ctx, case, 'complete', e)
  try:
    study.delete()
    try:
      clients.Study.from_resource_name(study.resource_name)
    except Exception:  # pylint: disable=broad-except
      svc.setdefault('free_names', []).append(study_id)    # really gone: the name may be used again
  except Exception:  # pylint: disable=broad-except
    ctx.count('service_study_delete_failed')
  return checked, ('DONE',)


ROUTES = {'designer': run_designer, 'policy': run_policy, 'service': run_service}


class StopCase(Exception):
  """Ends a case of the hostile slices after its first violation."""


class CaseTimeout(Exception):
  """Raised by the per-case alarm: the repository code did not return."""


def _on_alarm(signum, frame):
  raise CaseTimeout('no answer within the per-case time limit')


class _time_limit:
  """Per-case alarm: repository code that does not return raises CaseTimeout."""

  def __init__(self, seconds):
    self.seconds = seconds

  def __enter__(self):
    self.old = signal.signal(signal.SIGALRM, _on_alarm)
    signal.setitimer(signal.ITIMER_REAL, self.seconds)

  def __exit__(self, *exc):
    signal.setitimer(signal.ITIMER_REAL, 0)
    signal.signal(signal.SIGALRM, self.old)
    return False


def run_case(ctx, case, index=None):
  if case['negative']:
    ctx.count('negative_slice_cases')
  for h in case.get('hostile') or []:
    ctx.count({'unscalable': 'hostile_scale_cases', 'infeasible-default': 'infeasible_default_cases'}[h])
  _history_counters(ctx, case)
  # A designer that never returns (seen: EagleStrategyDesigner with
  # infeasible_force_factor > 0 spins in FireflyPool.get_next_moving_fly_copy)
  # is neither a suggestion nor an error; it is counted and the case ends.
  if case['algo'] in GPS:
    limit = 400
  elif case['algo'] in ('HARMONICA', 'BOCS', 'CMA_ES'):
    limit = 30 if ctx.tier == 'quick' else 60
  else:
    limit = 10 if ctx.tier == 'quick' else 30
  old = signal.signal(signal.SIGALRM, _on_alarm)
  signal.setitimer(signal.ITIMER_REAL, limit)
  try:
    checked, outcome = ROUTES[case['route']](ctx, case)
  except CaseTimeout as e:
    checked, outcome = 0, _refused(ctx, case, 'anywhere', e)
  except StopCase:
    checked, outcome = 1, ('STOPPED-AFTER-VIOLATION',)
  finally:
    signal.setitimer(signal.ITIMER_REAL, 0)
    signal.signal(signal.SIGALRM, old)
  if outcome[0] == 'REFUSED' and outcome[2] == 'CaseTimeout':
    ctx.count(f'case_timeouts:{case["name"]}:{case["route"]}')
    ctx.note(f'per-case time limit hit: {case["name"]} via {case["route"]} opts={case["opts"]}')
  ctx.case(abstraction(case), nontrivial=checked > 0)
  ctx.count('outcome:' + outcome[0])
  if 'unscalable' in (case.get('hostile') or []):
    q = [p for p in case['desc'] if p['name'] == 'hs'][0]
    ctx.count(f'hostile_scale_outcome:{q["scale"]}:{sign_class(q)}:{outcome[0]}')
    if outcome[0] == 'REFUSED':
      ctx.count('hostile_scale_refused')
  if 'infeasible-default' in (case.get('hostile') or []):
    ctx.count(f'infeasible_default_outcome:{case["route"]}:{outcome[0]}')
  if outcome[0] == 'REFUSED' and not case['negative']:
    ctx.count(f'refused_on_documented_space:{case["name"]}:{case["route"]}')
  return checked, outcome


# ---------------------------------------------------------------------------
# default / centre seeding, directly
# ---------------------------------------------------------------------------
EXTREME_BOUNDS = [(1e-200, 1e-150), (1e150, 1e200), (1e-300, 1e-10), (1e10, 1e300), (-1e300, 1e300),
                  (1e-310, 1e-305), (5e-324, 1.0)]


# algorithm names whose policy the factory wraps into the seeding DesignerPolicy
SEEDING_NAMES = ['DEFAULT', 'GP_UCB_PE', 'GAUSSIAN_PROCESS_BANDIT', 'BOCS', 'HARMONICA']
_SEED_ROUTES = {0: 'designer-policy', 6: 'designer-policy', 2: 'factory-policy', 8: 'factory-policy', 4: 'service'}


def check_default_seed(ctx, rng, index):
  desc = gen.gen_space(rng, 1, 6)
  if rng.random() < 0.3:
    lo, hi = rng.choice(EXTREME_BOUNDS)
    scale = rng.choice([None, 'LINEAR', 'LOG', 'REVERSE_LOG']) if lo > 0 else rng.choice([None, 'LINEAR'])
    desc.insert(rng.randint(0, len(desc)), {'name': f'xtr{index}', 'kind': 'DOUBLE', 'lo': lo, 'hi': hi,
                                            'scale': scale, 'default': None})
    ctx.count('default_seed_extreme_magnitude_spaces')
  hrng = ctx.rng(index, 'default-seed-hostile')
  hostile = []
  if hrng.random() < 0.3:
    # a default value outside the domain (stale after narrowing the bounds, inexact float,
    # misspelt category): refuse, or seed with something inside the domain
    infeasible_default(hrng, hrng.choice(desc))
    hostile = ['infeasible-default']
  routes = ['direct']
  if index % 12 in _SEED_ROUTES:
    routes.append(_SEED_ROUTES[index % 12])
  for seed_route in routes:
    case = {'route': 'designer' if seed_route == 'direct' else ('service' if seed_route == 'service' else 'policy'),
            'algo': 'DEFAULT_SEED', 'name': 'DEFAULT_SEED',
            'desc': desc, 'metrics': [{'name': 'obj', 'goal': 'MAXIMIZE'}],
            'opts': {}, 'history': [], 'rounds': [], 'mcls': 'uniform', 'seed': hrng.getrandbits(31),
            'negative': bool(hostile), 'hostile': hostile, 'kind': 'default-seed',
            'seed_route': seed_route, 'index': ['default-seed', index]}
    if seed_route == 'designer-policy':
      case['opts'] = {'inner': hrng.choice(['RANDOM_SEARCH', 'QUASI_RANDOM_SEARCH', 'GRID_SEARCH']),
                      'count': hrng.choice([1, 1, 2, 3])}
    elif seed_route != 'direct':
      case['name'] = hrng.choice(SEEDING_NAMES)
      case['opts'] = {'count': 1}   # the seed alone: the designer behind it is never built
    with _time_limit(30):
      try:
        default_seed_case(ctx, case)
      except CaseTimeout as e:
        _refused(ctx, case, 'anywhere', e)
        ctx.count(f'case_timeouts:default-seed:{seed_route}')


def _first_suggestions(ctx, case):
  """-> list of ParameterDict handed out to an empty study through `seed_route`."""
  from vizier._src.pythia import suggest_default
  seed_route = case.get('seed_route', 'direct')
  problem = build_problem(case)
  if seed_route == 'direct':
    return [suggest_default.get_default_parameters(problem.search_space)]
  count = case['opts']['count']
  if seed_route == 'service':
    from vizier.service import pyvizier as svz
    svc = _service()
    svc['n'] += 1
    config = svz.StudyConfig.from_problem(problem)
    config.algorithm = case['name']
    study = svc['clients'].Study.from_study_config(
        config, owner='c03', study_id=f'seed-{ctx.shard}-{svc["n"]}')
    try:
      return [tc.materialize().parameters for tc in study.suggest(count=count, client_id='w')]
    finally:
      try:
        study.delete()
      except Exception:  # pylint: disable=broad-except
        ctx.count('service_study_delete_failed')
  from vizier import pythia
  from vizier._src.algorithms.policies import designer_policy as dp
  from vizier._src.service import policy_factory as pf
  supporter = pythia.InRamPolicySupporter(problem)
  if seed_route == 'designer-policy':
    # the wrapper class the service uses for its seeded algorithms, around a cheap designer
    from vizier._src.algorithms.designers import grid, quasi_random, random as rd
    seed = case['seed']
    factory = {
        'RANDOM_SEARCH': lambda pr: rd.RandomDesigner(pr.search_space, seed=seed),
        'QUASI_RANDOM_SEARCH': lambda pr: quasi_random.QuasiRandomDesigner(pr.search_space, seed=seed),
        'GRID_SEARCH': lambda pr: grid.GridSearchDesigner(pr.search_space),
    }[case['opts']['inner']]
    policy = dp.DesignerPolicy(supporter, factory)
  else:
    policy = pf.DefaultPolicyFactory()(problem, case['name'], supporter, 'c03-seed-study')
  return [t.parameters for t in supporter.SuggestTrials(policy, count)]


def default_seed_case(ctx, case):
  desc = case['desc']
  seed_route = case.get('seed_route', 'direct')
  hostile = bool(case.get('hostile'))
  if hostile:
    ctx.count('infeasible_default_cases')
  try:
    got = _first_suggestions(ctx, case)
  except CaseTimeout:
    raise
  except Exception as e:  # pylint: disable=broad-except
    _refused(ctx, case, 'get_default_parameters' if seed_route == 'direct' else 'first-suggest', e)
    if hostile:
      ctx.count('infeasible_default_refused')
      ctx.count('infeasible_default_decided')
    elif seed_route == 'direct':
      # default / centre seeding is not an algorithm with limits of its own: for a valid flat
      # space (defaults absent or feasible) it has to name a point of the space
      ctx.violation(f'default-seed-refused-valid-space:{type(e).__name__}',
                    f'get_default_parameters raised {type(e).__name__} on a valid search space: {e}'[:400], case)
    return
  if not got:
    ctx.count('default_seed_nothing_delivered')
    return
  ctx.count('default_seed_checked')
  ctx.count('default_seed_route:' + seed_route)
  if seed_route != 'direct':
    ctx.count('seed_with_default_first_suggestions')
  ctx.case(['default-seed', seed_route, case['name'], case['opts'].get('count'),
            gen.space_shape(desc), hostile], True)
  ok = True
  for k, params in enumerate(got):
    ok = check_params(ctx, case, params, 'default-seed' if k == 0 else 'sample',
                      f'{seed_route} first suggestions of an empty study, item {k}') and ok
  if hostile:
    ctx.count('infeasible_default_decided')
    if ok:
      ctx.count('infeasible_default_answered_in_domain')
  params = got[0]
  # the default, where one is configured, is what must be chosen
  for p in desc:
    d = default_of(p)
    if d is not None and p['name'] in params and (isinstance(d, bool) or gen.member1(p, d)):
      ctx.count('default_value_respected_checked')
      v = _raw(params[p['name']])
      want = d
      if p['kind'] == 'BOOL':
        want = 'True' if want else 'False'
      if v != want and not (isinstance(want, (int, float)) and not isinstance(v, str)
                            and float(v) == float(want)):
        # documented ("suggest the default or center") but not part of the
        # property text: reported as a counter, never as a violation.
        ctx.count('configured_default_not_used')
        ctx.note(f'default seeding ({seed_route}) chose {v!r} for a {_kind_tag(p)} parameter '
                 f'whose configured default is {want!r}')


def oracle_selftest(ctx):
  """The oracle must reject what it is there to reject (guards a vacuous pass)."""
  desc = [
      {'name': 'x', 'kind': 'DOUBLE', 'lo': 0.0, 'hi': 1.0, 'scale': None, 'default': None},
      {'name': 'n', 'kind': 'INTEGER', 'lo': 1, 'hi': 5, 'scale': None, 'default': None},
      {'name': 'd', 'kind': 'DISCRETE', 'values': [0.5, 2.0], 'scale': None, 'default': None},
      {'name': 'c', 'kind': 'CATEGORICAL', 'values': ['a', 'b'], 'default': None}]
  from vizier import pyvizier as vz
  good = {'x': 1.0, 'n': 5, 'd': 2.0, 'c': 'b'}
  bad = [dict(good, x=1.0000000000000002), dict(good, x=float('nan')),
         dict(good, n=6), dict(good, n=2.5), dict(good, d=0.5000001),
         dict(good, c='A'), {k: v for k, v in good.items() if k != 'n'},
         dict(good, z=1)]
  if not gen.member(desc, vz.ParameterDict(good)):
    ctx.inconclusive_reason('oracle self-test: a member was rejected')
  for b in bad:
    if gen.member(desc, vz.ParameterDict(b)):
      ctx.inconclusive_reason(f'oracle self-test: accepted non-member {b}')
    else:
      ctx.count('oracle_selftest_rejections')
      mech, _ = classify(desc, vz.ParameterDict(b), 'SELFTEST', 'x')
      if mech.startswith('oracle-disagreement'):
        ctx.inconclusive_reason(f'classifier self-test failed on {b}')


# ---------------------------------------------------------------------------
# GP cases
# ---------------------------------------------------------------------------
# (algorithm, route, service/policy name) — ordered so that the first case of
# every GP shard covers a different designer.
_GP_PLAN = [
    ('GP_UCB_PE', 'designer', None),
    ('GAUSSIAN_PROCESS_BANDIT', 'designer', None),
    ('GP_UCB_PE', 'policy', 'DEFAULT'),
    ('GAUSSIAN_PROCESS_BANDIT', 'service', 'GAUSSIAN_PROCESS_BANDIT'),
    ('GP_UCB_PE', 'designer', 'witness'),
    ('GAUSSIAN_PROCESS_BANDIT', 'policy', 'GAUSSIAN_PROCESS_BANDIT'),
    ('GP_UCB_PE', 'service', 'GP_UCB_PE'),
    ('GAUSSIAN_PROCESS_BANDIT', 'designer', None),
    ('GP_UCB_PE', 'designer', 'noisy-labels'),
]

# The shrunk witness of mechanism `all-continuous-parameters-missing:GP_UCB_PE:
# model` (see proposed/C03-*.md), kept as a fixed narrow class so that the
# finding (or its repair) is observed on every run, not only when a random
# case happens to fit a low signal-to-noise ratio.
_WITNESS = {
    'route': 'designer', 'algo': 'GP_UCB_PE', 'name': 'GP_UCB_PE',
    'desc': [
        {'name': 'x', 'kind': 'DOUBLE', 'lo': 0.0, 'hi': 1.0, 'scale': None, 'default': None},
        {'name': 'k', 'kind': 'DOUBLE', 'lo': 3.0, 'hi': 3.0, 'scale': None, 'default': None}],
    'metrics': [{'name': 'obj', 'goal': 'MAXIMIZE'}],
    'opts': {'max_evaluations': 75000, 'num_seed_trials': 1, 'padding': False,
             'set_acquisition': False},
    'history': [], 'mcls': 'sin5', 'seed': 1, 'negative': False,
    'rounds': [{'count': 1, 'fates': ['C'] * 8, 'extra': [], 'late': False}] * 3,
}


def gp_case(ctx, j):
  algo, route, name = _GP_PLAN[j % len(_GP_PLAN)]
  rng = ctx.rng(j, 'gp')
  if name == 'witness':
    if j < len(_GP_PLAN):
      import copy
      ctx.count('gp_witness_class_run')
      return copy.deepcopy(_WITNESS)
    name = 'noisy-labels'
  if name == 'noisy-labels':
    # class: labels that are pure noise (low fitted signal-to-noise ratio), no
    # history, one suggestion per round: the model phase starts at round 1.
    case = gen_case(rng, algo, route, ctx.tier, gp=True, name=None)
    case['desc'] = gen.gen_space(rng, 2, 3, kinds=['DOUBLE', 'DOUBLE', 'CATEGORICAL'],
                                 wide=False, scales=False, defaults=False)
    case['history'] = []
    case['mcls'] = 'gauss'
    case['opts'].update({'num_seed_trials': 1, 'set_acquisition': False})
    case['rounds'] = [{'count': 1, 'fates': ['C'] * 8, 'extra': [], 'late': False}
                      for _ in range(3 if ctx.tier == 'quick' else 5)]
    return case
  case = gen_case(rng, algo, route, ctx.tier, gp=True, name=name)
  if j < len(_GP_PLAN):
    # completed feasible trials in the history guarantee the model phase
    if sum(1 for e in case['history'] if e['s'] == 'C') < 3:
      for k in range(3):
        case['history'].append(
            {'p': gen.sample_point(random.Random(case['seed'] + k), case['desc']),
             's': 'C', 'm': [0.1 * k - 0.2] * len(case['metrics'])})
  return case


HS_ALGOS = ['RANDOM_SEARCH', 'QUASI_RANDOM_SEARCH', 'NSGA2', 'EAGLE_STRATEGY', 'GRID_SEARCH',
            'SHUFFLED_GRID_SEARCH', 'CMA_ES']


def hostile_scale_case(ctx, j):
  na = len(HS_ALGOS)
  algo = HS_ALGOS[j % na]
  combo = (j // na) % 6
  route = ['designer', 'policy', 'service'][(j // (na * 6)) % 3]
  case = gen_case(ctx.rng(j, 'hostile-scale'), algo, route, ctx.tier, hrng=ctx.rng(j, 'hostile-scale-h'),
                  force={'scale': HS_SCALES[combo % 2], 'sign': HS_SIGNS[combo // 2]})
  # the scaler is built at construction / first suggest: short histories and two rounds are enough
  case['history'] = case['history'][:3]
  case['rounds'] = case['rounds'][:2]
  case['index'] = ['hostile-scale', j]
  return case


def layout(ctx):
  """-> (is_gp_shard, gp_rank, n_gp_shards, cheap_rank, n_cheap_shards)."""
  n = ctx.nshards
  if n == 1:
    return True, 0, 1, 0, 1
  g = max(1, min(6 if ctx.tier == 'quick' else 8, n // 2))
  if ctx.shard >= n - g:
    return True, ctx.shard - (n - g), g, None, n - g
  return False, None, g, ctx.shard, n - g


def run_shard(ctx):
  is_gp, gp_rank, n_gp, cheap_rank, n_cheap = layout(ctx)
  quick = ctx.tier == 'quick'
  if ctx.shard == 0:
    oracle_selftest(ctx)
  if is_gp:
    n_gp_cases = 6 if quick else 400
    for j in range(n_gp_cases):
      if j % n_gp != gp_rank:
        continue
      if ctx.out_of_time() or (quick and j >= n_gp and ctx.elapsed() > 25):
        ctx.note(f'GP shard stopped before GP case {j}')
        break
      case = gp_case(ctx, j)
      case['index'] = ['gp', j]
      run_case(ctx, case)
      ctx.count('gp_cases_run')
      if j < 2:
        ctx.sample({k: case[k] for k in ('route', 'name', 'desc', 'opts', 'rounds')})
    if ctx.nshards > 1:
      return
  # fixed witness class: the boolean-only designers on a partly boolean space with
  # enough history to leave the random warm-up (refuse, or answer inside the domains)
  for w, algo in enumerate(['HARMONICA', 'BOCS', 'HARMONICA', 'BOCS']):
    if w % n_cheap != (cheap_rank or 0) or (w >= 2 and quick):
      continue
    rng = ctx.rng(w, 'mixed-bool-witness')
    case = gen_case(rng, algo, ['designer', 'policy'][w // 2], ctx.tier)
    case['negative'] = True
    case['desc'] = [
        {'name': 'b0', 'kind': 'BOOL', 'values': ['False', 'True'], 'scale': None, 'default': None},
        {'name': 'lr', 'kind': 'DOUBLE', 'lo': 0.0, 'hi': 1.0, 'scale': None, 'default': None},
        {'name': 'b1', 'kind': 'BOOL', 'values': ['False', 'True'], 'scale': None, 'default': None},
        {'name': 'act', 'kind': 'CATEGORICAL', 'values': ['relu', 'tanh'], 'scale': None, 'default': None}]
    case['metrics'] = case['metrics'][:1]
    case['history'] = [{'p': gen.sample_point(rng, case['desc']), 's': 'C', 'm': [rng.uniform(-1, 1)]}
                       for _ in range(12)]
    case['rounds'] = [{'count': 1, 'fates': ['C'] * 8, 'extra': [], 'late': False} for _ in range(3)]
    case['index'] = ['mixed-bool-witness', w]
    run_case(ctx, case)
    ctx.count('mixed_boolean_witness_cases_run')
  # stratified block: every algorithm that scales its features x {LOG, REVERSE_LOG} x position of a
  # not strictly positive range, first through the designer, then the policy, then the service
  for j in range(len(HS_ALGOS) * 6 * (3 if quick else 12)):
    if j % n_cheap != (cheap_rank or 0) or ctx.out_of_time():
      continue
    case = hostile_scale_case(ctx, j)
    run_case(ctx, case)
    ctx.count('hostile_scale_block_cases_run')
  n_cases = 3400 if quick else 90000
  n_seed = 600 if quick else 12000
  for i in range(n_seed):
    if i % n_cheap != (cheap_rank or 0):
      continue
    check_default_seed(ctx, ctx.rng(i, 'default-seed'), i)
  for i in range(n_cases):
    if i % n_cheap != (cheap_rank or 0):
      continue
    if ctx.out_of_time():
      ctx.note(f'time budget reached at cheap case {i}')
      break
    algo, route = _SLOTS[i % len(_SLOTS)]
    case = gen_case(ctx.rng(i), algo, route, ctx.tier, hrng=ctx.rng(i, 'hostile'))
    case['index'] = ['cheap', i]
    run_case(ctx, case)
    if i < 2:
      ctx.sample({k: case[k] for k in ('route', 'name', 'desc', 'opts', 'rounds')})


def extra_coverage(tier, counters):
  """Refusals are allowed by the property; show where they concentrate."""
  out = {}
  for k, v in counters.items():
    if k.startswith('refused_on_documented_space:'):
      out[k.split(':', 1)[1]] = v
  per_algo = {k.split(':', 1)[1]: v for k, v in counters.items()
              if k.startswith('suggestions_checked:')}
  return {'refusals_on_documented_spaces_by_algorithm_and_route': out,
          'suggestions_checked_by_algorithm': per_algo}


def replay(ctx, case):
  if case.get('kind') == 'default-seed':
    with _time_limit(60):
      default_seed_case(ctx, case)
    return
  unseeded = case['route'] != 'designer'
  for _ in range((3 if case['algo'] in GPS else 25) if unseeded else 1):
    run_case(ctx, case)
    if ctx.violations:
      break
