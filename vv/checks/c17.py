"""C17 — clients receive parameter values in the declared external types.

For generated typed spaces (bool, integer-valued discrete with / without
auto-cast, fractional discrete, double, categorical, integer, indexed families
name[i] inserted in shuffled index order, conditional children under single and
multiple parent values) every trial is read through

  cfg-orig     StudyConfig(search_space).trial_parameters(proto)
  cfg-rt       StudyConfig.from_proto(cfg.to_proto()).trial_parameters(proto)
  client-ram / client-sql / client-grpc
               clients.Trial.parameters (stored through add_trial / request,
               re-read through get_trial and trials(); suggestions of the random /
               grid / quasi-random designers on flat spaces)

  cfg-compact  StudyConfig.from_proto(compact StudySpec): the spec another writer of
               the proto produces - ONE conditional entry listing all parent values of a
               child instead of one entry per value (parent values listed unsorted)
  cfg-factory  the same space declared through ParameterConfig.factory(children=
               [(matching parent values, child), ...]) + SearchSpace.add
  client-*@compact
               clients.Trial.parameters of a study created from the compact StudySpec

and compared with an expectation computed from the description alone: value
equal to the stored value, python type as declared, name[i] grouped in index
order, only active conditional parameters, ValueError-style refusal for unknown
or inactive parameters.
"""
from vv import c16_cond as cond
from vv import c17_core as core
from vv.c16_util import quiet_logs
from vv.c16_walk import make_study, servicer

PROPERTY = 'C17'
LEVEL = 'exploration'
RULE = ('typed conditional trees of depth 0..3 (1..4 top-level entries, each a leaf of 8 '
        'typed kinds, an indexed family of 2..6 shuffled indices from {0,1,2,3,9,10,11,12,20,100} '
        'or a finite parent with 1..2 child groups under 1..3 parent values) x a stored value '
        'for every parameter (int-for-float, float-for-int, python bool variations) x readers '
        '{cfg-orig, cfg-rt, client-ram, client-sql, client-grpc} x {valid, +unknown parameter, '
        '+inactive parameter}; suggestions on flat spaces; flat spaces additionally as a '
        're-created study (read, delete, same owner/id re-created with re-declared types, read). '
        'Conditional spaces additionally (a) through the multi-value declaration routes '
        '{cfg-compact, cfg-factory, client-ram/sql/grpc@compact}: one conditional entry lists '
        'every parent value of a child (compact StudySpec proto / ParameterConfig.factory('
        'children=...)), valid trials with the parent at each matching value incl. a non-last '
        'one, unknown / inactive negatives; (b) 40 % of the parents with >= 2 values are '
        'switches: 2..3 child groups under disjoint parent values re-declare the same 1..2 child '
        'names (leaf or indexed family, other kind / values / family length per branch), the '
        'stored value is one of the declaration active for the trial and the expectation is '
        'taken from that declaration. '
        ' distinct = hash(tree shape, reader, '
        'kind, #active, #indexed groups); non-trivial = at least one typed value presented.')
ASSUMPTIONS = [
    'add_int_param declares no external type: for INTEGER parameters only the value is '
    'compared (int or float accepted)',
    'type checks use isinstance (a float subclass is a float); bool is never an int/float',
    'refusal of an unknown / inactive parameter = any exception; non-ValueError is counted',
    'conditional depth >= 2 through a StudySpec proto (cfg-rt, clients) is a separate class: '
    'the repository loses grandchildren in the proto conversion (C09); trials whose active '
    'set needs a lost parameter are classified under their own mechanism',
    'a python bool stored for a BOOL *parent* that activates children is a separate class '
    '(own mechanism); python bools for leaf BOOL parameters are in the core class',
    'parameter names contain no parentheses and no nested indices',
    'a name is re-declared only under disjoint values of ONE parent and only as a leaf / '
    'indexed family (names stay unique within every subspace, never two active copies)',
    'the compact StudySpec is derived from StudyConfig.to_proto() by merging conditional entries '
    'with byte-identical child specs; only the standard parent_*_values fields are used',
    'mechanism ids of anomalies on such names / routes carry the feature '
    '(":name-redeclared-under-other-parent-value", "one-spec-lists-several-parent-values") only '
    'after the plain readers presented the same trial correctly',
]
REQUIRED_COUNTERS = ['values_typechecked:BOOLEAN', 'values_typechecked:INTEGER',
                     'values_typechecked:FLOAT', 'values_typechecked:DOUBLE',
                     'values_typechecked:CATEGORICAL', 'values_typechecked:INTEGER_PARAM',
                     'multidim_groups_len>=2', 'multidim_index_ge_10_checked',
                     'conditional_trials_checked', 'conditional_trials_multi_parent_values',
                     'inactive_rejections_checked', 'unknown_rejections_checked',
                     'reads:cfg-orig', 'reads:cfg-rt', 'reads:client-ram', 'reads:client-sql',
                     'reads:client-grpc', 'suggested_trials_read',
                     'recreated_study_reads_with_changed_declarations', 'pybool_leaf_values_read',
                     'deep_trials_in_memory_checked',
                     'reads:cfg-compact', 'reads:cfg-factory',
                     'multi_value_spec_trials_parent_at_non_last_value',
                     'multi_value_spec_trials_read_through_clients',
                     'inactive_rejections_checked:multi-value-spec',
                     'redeclared_name_values_typechecked',
                     'redeclared_name_later_branch_trials_through_proto']
MIN_DISTINCT = {'quick': 600, 'thorough': 5000}


def plan(tier, seed):
  return {'shards': 12 if tier == 'quick' else 16,
          'budget_s': 55 if tier == 'quick' else 900}


_GRPC = {}


def grpc_stub():
  if 'srv' not in _GRPC:
    from vizier._src.service import vizier_server
    _GRPC['srv'] = vizier_server.DefaultVizierServer(database_url='sqlite:///:memory:')
  return _GRPC['srv'].stub


def _service(reader):
  reader = reader.split('@')[0]
  if reader == 'client-grpc':
    return grpc_stub()
  return servicer('ram' if reader == 'client-ram' else 'sql')


def _proto(params):
  from vizier.service import pyvizier as vz
  return vz.TrialConverter.to_proto(vz.Trial(parameters=params))


def _configs(tree):
  from vizier.service import pyvizier as vz
  space = cond.build_tree(tree)
  cfg = vz.StudyConfig(search_space=space, algorithm='RANDOM_SEARCH')
  cfg.metric_information.append(
      vz.MetricInformation(name='m', goal=vz.ObjectiveMetricGoal.MAXIMIZE))
  return space, cfg


def _space_names(space):
  out = set()
  for pc in space.parameters:
    for q in pc.traverse(show_children=True):
      out.add(q.name)
  return out


def _pybool_parent_active(tree, stored):
  """Names of BOOL parents stored as python bool whose value activates children."""
  params = cond.all_params(tree)
  out = []
  for n, v in stored.items():
    p = params.get(n)
    if p and p['kind'] == 'BOOL' and isinstance(v, bool):
      if any(cond.value_matches(p, v, vals) for vals, _k in p.get('children', [])):
        out.append(n)
  return out


_ENV = {}


def _env(tree):
  """Per-tree cache of the built space / configs / studies (one tree at a time)."""
  key = id(tree)
  if _ENV.get('key') != key:
    _ENV.clear()
    _ENV['key'] = key
    _ENV['tree'] = tree          # keeps id() stable
  return _ENV


def _compact_parameter_spec(ps):
  """In place: conditional specs of `ps` that carry the same child declaration
  (to_proto() writes one spec per parent value) are merged into ONE spec that
  lists all their parent values - the compact form other writers of a StudySpec
  use. Values are listed unsorted (latest first). Returns #multi-valued specs."""
  n_multi = 0
  conds = list(ps.conditional_parameter_specs)
  merged = []
  for c in conds:
    n_multi += _compact_parameter_spec(c.parameter_spec)
    kind = c.WhichOneof('parent_value_condition')
    key = (kind, c.parameter_spec.SerializeToString(deterministic=True))
    for k2, m in merged:
      if k2 == key and kind:
        have = getattr(m, kind).values
        add = [v for v in getattr(c, kind).values if v not in have]
        have[:] = add + list(have)
        break
    else:
      m = type(c)()
      m.CopyFrom(c)
      merged.append((key, m))
  del ps.conditional_parameter_specs[:]
  for _k, m in merged:
    kind = m.WhichOneof('parent_value_condition')
    if kind and len(getattr(m, kind).values) > 1:
      n_multi += 1
    ps.conditional_parameter_specs.add().CopyFrom(m)
  return n_multi


def compact_spec(spec):
  from vizier._src.service import study_pb2
  out = study_pb2.StudySpec()
  out.CopyFrom(spec)
  n = sum(_compact_parameter_spec(ps) for ps in out.parameters)
  return out, n


def _factory_config(p):
  """ParameterConfig of `p` with its subtree attached through
  ParameterConfig.factory(children=[(parent values, child), ...])."""
  from vizier import pyvizier as vz
  scratch = vz.SearchSpace()
  cond.add_param(scratch.root, dict(p, children=[]))
  base = scratch.parameters[0]
  groups = p.get('children', [])
  if not groups:
    return base
  children = [(list(vals), _factory_config(kid)) for vals, kids in groups for kid in kids]
  kw = {}
  if base.type in (vz.ParameterType.INTEGER, vz.ParameterType.DOUBLE):
    kw['bounds'] = base.bounds
  else:
    kw['feasible_values'] = list(base.feasible_values)
  return vz.ParameterConfig.factory(
      name=base.name, scale_type=base.scale_type, default_value=base.default_value,
      external_type=base.external_type, children=children, **kw)


class DefinitionRefused(Exception):
  """A valid definition was refused on one of the alternative declaration routes."""

  def __init__(self, route, cause):
    super().__init__(f'{route}: {type(cause).__name__}: {cause}')
    self.route, self.cause = route, cause


def build_tree_factory(tree):
  """The same space, children given as (matching parent values, child) pairs."""
  from vizier import pyvizier as vz
  space = vz.SearchSpace()
  try:
    for p in tree:
      space.add(_factory_config(p))
  except Exception as e:  # pylint: disable=broad-except
    raise DefinitionRefused('ParameterConfig.factory(children=...)', e) from e
  return space


def _cfg(tree, which):
  from vizier.service import pyvizier as vz
  env = _env(tree)
  if 'cfg' not in env:
    env['space'], env['cfg'] = _configs(tree)
  if which == 'rt' and 'rt' not in env:
    env['rt'] = vz.StudyConfig.from_proto(env['cfg'].to_proto())
  if which in ('compact', 'compact-spec') and 'compact' not in env:
    env['compact-spec'], env['compact-multi'] = compact_spec(env['cfg'].to_proto())
    try:
      env['compact'] = vz.StudyConfig.from_proto(env['compact-spec'])
    except Exception as e:  # pylint: disable=broad-except
      raise DefinitionRefused('StudyConfig.from_proto(compact StudySpec)', e) from e
  if which == 'factory' and 'factory' not in env:
    fc = vz.StudyConfig(search_space=build_tree_factory(tree), algorithm='RANDOM_SEARCH')
    fc.metric_information.append(
        vz.MetricInformation(name='m', goal=vz.ObjectiveMetricGoal.MAXIMIZE))
    env['factory'] = fc
  return env['cfg' if which == 'orig' else which]


_SPEC_SEQ = [0]


def _study_from_spec(service, spec, tag):
  from vizier._src.service import clients, resources, study_pb2, vizier_client
  from vizier._src.service import vizier_service_pb2
  _SPEC_SEQ[0] += 1
  st = study_pb2.Study(display_name=f'{tag}-{_SPEC_SEQ[0]}', study_spec=spec)
  st = service.CreateStudy(vizier_service_pb2.CreateStudyRequest(
      parent=resources.OwnerResource('vvc').name, study=st))
  return clients.Study(vizier_client.VizierClient(st.name, 'vv-client', service))


def _study(tree, reader, ctx):
  env = _env(tree)
  _cfg(tree, 'orig')
  if reader not in env:
    if reader.endswith('@compact'):
      # the study is created from the compact StudySpec (another writer of the proto)
      env[reader] = _study_from_spec(_service(reader), _cfg(tree, 'compact-spec'),
                                     f'c17c-{ctx.seed}-{ctx.shard}')
    else:
      env[reader] = make_study(_service(reader), env['space'], f'c17-{ctx.seed}')
  return env[reader]


def _read(reader, tree, params, ctx):
  """Presents `params` through `reader`. Returns ('ok', dict) | ('exc', e)."""
  from vizier.service import pyvizier as vz
  try:
    if reader == 'cfg-orig':
      return 'ok', _cfg(tree, 'orig').trial_parameters(_proto(params))
    if reader == 'cfg-rt':
      return 'ok', _cfg(tree, 'rt').trial_parameters(_proto(params))
    if reader == 'cfg-compact':
      return 'ok', _cfg(tree, 'compact').trial_parameters(_proto(params))
    if reader == 'cfg-factory':
      return 'ok', _cfg(tree, 'factory').trial_parameters(_proto(params))
    study = _study(tree, reader, ctx)
    t = study.request(vz.TrialSuggestion(parameters=params))
    got = t.parameters
    # the same trial through the other client read paths
    again = study.get_trial(t.id).parameters
    listed = [x for x in study.trials() if x.id == t.id]
    if again != got or len(listed) != 1 or listed[0].parameters != got:
      return 'exc', AssertionError(
          f'client read paths disagree: {got} / {again} / {len(listed)} listed')
    return 'ok', got
  except Exception as e:  # pylint: disable=broad-except
    return 'exc', e


def exec_valid(ctx, reader, tree, stored):
  """`stored` is exactly the active assignment: must be presented as declared."""
  depth = cond.tree_depth(tree)
  depths = cond.param_depths(tree)
  case = core.case_of('valid', reader, tree, stored)
  n_groups = len({b[0] for n in stored for b in [cond.split_indexed(n)] if b})
  max_d = max([depths[n] for n in stored] + [0])
  ctx.case(['valid', cond.tree_shape(tree), reader, len(stored), n_groups, max_d], bool(stored))
  kind, res = _read(reader, tree, stored, ctx)
  pyb = _pybool_parent_active(tree, stored)
  through_proto = reader not in ('cfg-orig', 'cfg-factory')
  multi_spec = reader in MULTI_VALUE_READERS
  active = core.active_descs(tree, stored)
  first_decl = cond.all_params(tree)
  redecl = core.redeclared_names(tree)
  # names of this trial that another parent value declares differently, and whether
  # this trial sits in a branch other than the first declared one
  redecl_here = sorted(n for n in stored if n in redecl)
  later_branch = any(active[n] != first_decl[n] for n in redecl_here)
  # active children hanging under a group of several parent values, parent not at the last
  multi_grp = _multi_value_children(active, stored)
  non_last = any(not cond.value_matches(active[n], stored[n], [_last_value(vals)])
                 for n, vals in multi_grp)
  if kind == 'exc':
    if isinstance(res, AssertionError):
      ctx.violation(f'client-read-paths-disagree:{reader}', str(res), case)
      return
    if isinstance(res, DefinitionRefused):
      ctx.violation(f'valid-conditional-definition-refused:{reader}:{type(res.cause).__name__}',
                    f'{reader}: {res}'[:300], case)
      return
    # ---- which feature of the case does the refusal go with? ----------------------
    # (decided by reading the same trial through the plain readers)
    if (multi_spec and multi_grp
        and _read('cfg-rt' if through_proto else 'cfg-orig', tree, stored, ctx)[0] == 'ok'):
      ctx.violation(f'active-child-refused:one-spec-lists-several-parent-values:'
                    + ('parent-at-non-last-value' if non_last else 'parent-at-last-value')
                    + f':{reader}',
                    f'{reader}: children declared once for the parent values '
                    f'{[v for _n, v in multi_grp]} are active for this trial, but the trial is '
                    f'refused ({type(res).__name__}: {str(res)[:120]}); the same space declared '
                    f'with one entry per parent value presents it', case)
      return
    if redecl_here and through_proto and _read('cfg-orig', tree, stored, ctx)[0] == 'ok':
      ctx.violation(f'valid-trial-refused:name-redeclared-under-other-parent-value:'
                    + ('later-branch' if later_branch else 'first-branch') + f':{reader}',
                    f'{reader}: {redecl_here} are declared differently under the parent '
                    f'values of one parent; the trial of this branch is refused '
                    f'({type(res).__name__}: {str(res)[:120]}) while the config that was never '
                    f'serialized presents it', case)
      return
    # ---- classification of the two known mechanisms ---------------------------
    if pyb:
      fixed = {n: (('True' if v else 'False') if n in pyb else v) for n, v in stored.items()}
      k2, r2 = _read('cfg-orig', tree, fixed, ctx)
      if k2 == 'ok':
        ctx.violation('active-child-rejected:bool-parent-stored-as-python-bool',
                      f'{reader}: trial with BOOL parent {pyb} stored as python bool and its '
                      f'active children is refused ({type(res).__name__}); the same trial with '
                      f"'True'/'False' strings is presented", case)
        return
    if through_proto and max_d >= 2:
      lost = (_space_names(_cfg(tree, 'orig').search_space)
              - _space_names(_cfg(tree, 'rt').search_space))
      if lost & set(stored):
        ctx.violation('active-param-rejected:grandchild-lost-in-study-spec-proto',
                      f'{reader}: active parameters {sorted(lost & set(stored))} (depth >= 2) do '
                      f'not survive StudyConfig.to_proto/from_proto, the valid trial is refused '
                      f'({type(res).__name__})', case)
        return
    ctx.violation(f'valid-trial-refused:{reader}:depth{max_d}:{type(res).__name__}',
                  f'{reader}: a trial holding exactly the active parameters was refused: '
                  f'{type(res).__name__}: {str(res)[:200]}', case)
    return
  bad = core.compare(ctx, reader, res, tree, stored, case)
  if max_d >= 1:
    ctx.count('conditional_trials_checked')
    if multi_grp:
      ctx.count('conditional_trials_multi_parent_values')
      if multi_spec and not bad:
        ctx.count('multi_value_spec_trials_presented')
        if non_last:
          ctx.count('multi_value_spec_trials_parent_at_non_last_value')
        if reader.endswith('@compact'):
          ctx.count('multi_value_spec_trials_read_through_clients')
  if redecl_here and not bad:
    ctx.count('redeclared_name_trials_presented')
    if later_branch and through_proto:
      ctx.count('redeclared_name_later_branch_trials_through_proto')
  if max_d >= 2 and reader == 'cfg-orig' and not bad:
    ctx.count('deep_trials_in_memory_checked')
  if max_d >= 2 and through_proto and not bad:
    ctx.count('deep_trials_through_proto_presented')
  if any(isinstance(v, bool) for v in stored.values()) and not pyb and not bad:
    ctx.count('pybool_leaf_values_read')


def exec_invalid(ctx, reader, tree, stored, extra_name, extra_value, why):
  """stored + one unknown / inactive parameter: must be reported as an error."""
  params = dict(stored)
  params[extra_name] = extra_value
  case = core.case_of('invalid', reader, tree, stored, extra=extra_name,
                      extra_value=core.enc(extra_value), why=why)
  ctx.case(['invalid', cond.tree_shape(tree), reader, why, len(stored)], True)
  kind, res = _read(reader, tree, params, ctx)
  ctx.count(f'{why}_rejections_checked')
  if reader in MULTI_VALUE_READERS:
    ctx.count(f'{why}_rejections_checked:multi-value-spec')
  if kind == 'exc':
    if isinstance(res, AssertionError):
      ctx.violation(f'client-read-paths-disagree:{reader}', str(res), case)
    elif isinstance(res, DefinitionRefused):
      ctx.violation(f'valid-conditional-definition-refused:{reader}:{type(res.cause).__name__}',
                    f'{reader}: {res}'[:300], case)
    elif not isinstance(res, ValueError):
      ctx.count(f'{why}_refused_with:{type(res).__name__}')
    return
  presented = extra_name in res or (
      cond.split_indexed(extra_name) and cond.split_indexed(extra_name)[0] in res
      and cond.split_indexed(extra_name)[0] not in core.expected_parameters(tree, stored))
  mech = (f'{why}-parameter-presented' if presented else f'{why}-parameter-silently-dropped')
  ctx.violation(f'{mech}:{reader}',
                f'{reader}: trial with {why} parameter {extra_name!r} was presented as '
                f'{dict(res)!r} instead of being reported as an error', case)


def exec_suggest(ctx, reader, tree, algorithm):
  """Flat spaces: what the client reads from suggested trials."""
  space, _ = _configs(tree)
  case = {'kind': 'suggest', 'reader': reader, 'tree': tree, 'algorithm': algorithm}
  try:
    study = make_study(_service(reader), space, f'c17s-{ctx.seed}', algorithm=algorithm)
    trials = study.suggest(count=2)
    raws = [t.materialize().parameters.as_dict() for t in trials]
  except Exception as e:  # pylint: disable=broad-except
    ctx.count(f'suggest_failed:{algorithm}:{type(e).__name__}')   # not this property
    return
  for t, raw in zip(trials, raws):
    ctx.case(['suggest', cond.tree_shape(tree), reader, algorithm], True)
    try:
      got = t.parameters
    except Exception as e:  # pylint: disable=broad-except
      ctx.violation(f'suggested-trial-refused:{reader}:{type(e).__name__}',
                    f'reading a suggested trial raised {type(e).__name__}: {e}',
                    dict(case, stored=core.enc(raw)))
      continue
    if not core.compare(ctx, reader, got, tree, raw, dict(case, stored=core.enc(raw))):
      ctx.count('suggested_trials_read')


# ---------------------------------------------------------------------------
# re-created study: same owner + study id after delete, changed declarations
# ---------------------------------------------------------------------------
class _Probe:
  """Collects what core.compare would report, without reporting it."""

  def __init__(self):
    self.v = []

  def count(self, *a, **k):
    pass

  def violation(self, mech, what, case=None, witness=None):
    self.v.append((mech, what))


_LEAF_KINDS = ['BOOL', 'DISC_INT', 'DISC_INT_NOCAST', 'DISC_FRAC', 'DOUBLE', 'CATEGORICAL',
               'INTEGER']


def redeclare(rng, tree):
  """Flat tree -> flat tree with the same names but other declared types (plus,
  sometimes, one parameter dropped and one new parameter)."""
  out = []
  for p in tree:
    q = p
    if rng.random() < 0.75:
      for _ in range(20):
        q = core._typed_leaf(rng, p['name'], rng.choice(_LEAF_KINDS))  # pylint: disable=protected-access
        if cond.declared_external(q) != cond.declared_external(p):
          break
      if p.get('index') is not None:
        q['base'], q['index'] = p['base'], p['index']
    out.append(q)
  if len(out) > 1 and rng.random() < 0.3:
    out.pop(rng.randrange(len(out)))
  if rng.random() < 0.4:
    out.append(core._typed_leaf(rng, 'fresh_param'))  # pylint: disable=protected-access
  rng.shuffle(out)
  return out


def _named_study(service, tree, name):
  from vizier._src.service import clients, resources, study_pb2, vizier_client
  from vizier._src.service import vizier_service_pb2
  _, cfg = _configs(tree)
  st = study_pb2.Study(display_name=name, study_spec=cfg.to_proto())
  st = service.CreateStudy(vizier_service_pb2.CreateStudyRequest(
      parent=resources.OwnerResource('vvr').name, study=st))
  return clients.Study(vizier_client.VizierClient(st.name, 'vv-client', service))


_RECREATE_SEQ = [0]


def exec_recreate(ctx, reader, tree, stored, tree2, stored2):
  """Generation 1 is read (any per-client caching gets filled), deleted, and a
  new study with the same owner / id but other declarations is read."""
  from vizier.service import pyvizier as vz
  _RECREATE_SEQ[0] += 1
  name = f'recreated-{ctx.seed}-{ctx.shard}-{_RECREATE_SEQ[0]}'
  case = core.case_of('recreate', reader, tree, stored, tree2=tree2,
                      stored2=core.enc(stored2))
  changed = sorted(n for n, p in cond.all_params(tree2).items()
                   if n in cond.all_params(tree) and cond.declared_external(p)
                   != cond.declared_external(cond.all_params(tree)[n]))
  ctx.case(['recreate', reader, cond.tree_shape(tree), cond.tree_shape(tree2), len(changed)],
           bool(changed))
  service = _service(reader)
  try:
    study1 = _named_study(service, tree, name)
    t1 = study1.request(vz.TrialSuggestion(parameters=stored))
    got1 = t1.parameters
  except Exception as e:  # pylint: disable=broad-except
    ctx.violation(f'valid-trial-refused:{reader}:first-generation:{type(e).__name__}',
                  f'{reader}: {type(e).__name__}: {str(e)[:200]}', case)
    return
  core.compare(ctx, reader, got1, tree, stored, case)
  study1.delete()
  study2 = _named_study(service, tree2, name)
  if study2.resource_name != study1.resource_name:
    ctx.count('recreate_resource_name_differs')
    return
  t2 = study2.request(vz.TrialSuggestion(parameters=stored2))
  try:
    got2, err = t2.parameters, None
  except Exception as e:  # pylint: disable=broad-except
    got2, err = None, e
  probe = _Probe()
  if err is None:
    core.compare(probe, reader, got2, tree2, stored2, case)
  if err is None and not probe.v:
    ctx.count('recreated_study_reads_checked')
    if changed:
      ctx.count('recreated_study_reads_with_changed_declarations')
    core.compare(ctx, reader + ':recreated', got2, tree2, stored2, case)   # counters
    return
  # ---- classification: does the CURRENT study config present it correctly? ----
  cur_probe = _Probe()
  try:
    cur = study2.materialize_study_config().trial_parameters(
        vz.TrialConverter.to_proto(t2.materialize()))
    core.compare(cur_probe, reader, cur, tree2, stored2, case)
    cur_ok = not cur_probe.v
  except Exception:  # pylint: disable=broad-except
    cur_ok = False
  how = f'raised-{type(err).__name__}' if err is not None else probe.v[0][0].split(':')[0]
  if cur_ok:
    ctx.violation(f'recreated-study-read-with-stale-declarations:{how}:{reader}',
                  f'{reader}: after delete + re-create under the same owner/study id, '
                  f'Trial.parameters ' + (f'raised {type(err).__name__}: {str(err)[:120]}'
                                          if err is not None else f'gave {dict(got2)!r}') +
                  f' while the current study config presents the trial correctly '
                  f'(declarations changed for {changed})', case,
                  {'problems': probe.v[:4]})
  elif err is not None:
    ctx.violation(f'valid-trial-refused:{reader}:recreated:{type(err).__name__}',
                  f'{reader}: {type(err).__name__}: {str(err)[:200]}', case)
  else:
    core.compare(ctx, reader + ':recreated', got2, tree2, stored2, case)


READERS = ['cfg-orig', 'cfg-rt', 'client-ram', 'client-sql', 'client-grpc']
# readers whose space came from a declaration that lists several parent values at once
MULTI_VALUE_READERS = ['cfg-compact', 'cfg-factory', 'client-ram@compact', 'client-sql@compact',
                       'client-grpc@compact']


def _last_value(vals):
  return sorted(vals)[-1]


def _decl(p):
  """The declaration as it reaches the space (how the values were handed over is dropped)."""
  return {k: v for k, v in p.items() if k != 'given_values'}


def _multi_value_children(active, stored):
  """[(parent name, parent values)] for every active child of this trial whose
  declaration (whole subtree) is the same under several values of its parent -
  one group of several values, or equal declarations in several groups: a
  compact declaration lists all those values in one entry."""
  out = []
  for n in stored:
    p = active[n]
    groups = p.get('children', [])
    for vals, kids in groups:
      if not cond.value_matches(p, stored[n], vals):
        continue
      for kid in kids:
        union = []
        for vals2, kids2 in groups:
          if any(_decl(k2) == _decl(kid) for k2 in kids2):
            union.extend(v for v in vals2 if v not in union)
        if len(union) > 1:
          out.append((n, union))
  return out


def run_case(ctx, i):
  rng = ctx.rng(i)
  depth = [0, 1, 1, 0, 1, 2, 1, 0, 1, 3][i % 10]
  tree = core.gen_typed_tree(rng, depth)
  choices = core.draw_stored(rng, tree)
  stored = core.active_assignment(tree, choices)
  if i < 40:
    ctx.sample({'tree': tree, 'stored': core.enc(stored)})
  readers = ['cfg-orig', 'cfg-rt', rng.choice(['client-ram', 'client-sql'])]
  if i % 8 == 0:
    readers.append('client-grpc')
  conditional = cond.tree_depth(tree) >= 1
  if conditional:
    # the same space declared with several parent values per entry
    readers += ['cfg-compact', 'cfg-factory']
    if i % 3 == 0:
      readers.append(rng.choice(['client-ram@compact', 'client-sql@compact']))
    if i % 16 == 8:
      readers.append('client-grpc@compact')
  for reader in readers:
    exec_valid(ctx, reader, tree, stored)
  # negatives -------------------------------------------------------------------
  neg_readers = ['cfg-orig', rng.choice(READERS[1:4])] + (['client-grpc'] if i % 16 == 0 else [])
  if conditional:
    neg_readers.append(rng.choice(MULTI_VALUE_READERS[:4]))
  unknown = rng.choice([('zz_unknown', 1), ('zz_unknown', 'a'), ('zz[0]', 0.5),
                        (next(iter(stored)) + '_', 1) if stored else ('zz', 1)])
  for reader in neg_readers:
    exec_invalid(ctx, reader, tree, stored, unknown[0], unknown[1], 'unknown')
  inactive = sorted(set(choices) - set(stored))
  if inactive:
    n = rng.choice(inactive)
    for reader in neg_readers:
      exec_invalid(ctx, reader, tree, stored, n, choices[n], 'inactive')
  # suggestions -----------------------------------------------------------------
  if cond.tree_depth(tree) == 0 and i % 3 == 0:
    algo = ['RANDOM_SEARCH', 'GRID_SEARCH', 'RANDOM_SEARCH', 'QUASI_RANDOM_SEARCH'][(i // 3) % 4]
    exec_suggest(ctx, rng.choice(['client-ram', 'client-sql'] + (
        ['client-grpc'] if i % 4 == 0 else [])), tree, algo)
  # re-created study -------------------------------------------------------------
  if cond.tree_depth(tree) == 0 and i % 3 != 0:
    rr = ctx.rng(i, 'recreate')
    tree2 = redeclare(rr, tree)
    stored2 = core.active_assignment(tree2, core.draw_stored(rr, tree2))
    reader = ['client-ram', 'client-sql', 'client-grpc'][(i // 3) % 3]
    exec_recreate(ctx, reader, tree, stored, tree2, stored2)


def run_shard(ctx):
  quiet_logs()
  n_cases = 1500 if ctx.tier == 'quick' else 60000
  for i in range(n_cases):
    if not ctx.mine(i):
      continue
    if ctx.out_of_time():
      ctx.note(f'time budget reached at case {i}')
      break
    run_case(ctx, i)


def replay(ctx, case):
  quiet_logs()
  stored = core.stored_of(case) if 'stored' in case else None
  if case['kind'] == 'valid':
    exec_valid(ctx, case['reader'], case['tree'], stored)
  elif case['kind'] == 'invalid':
    exec_invalid(ctx, case['reader'], case['tree'], stored, case['extra'],
                 core.dec(case['extra_value']), case['why'])
  elif case['kind'] == 'recreate':
    exec_recreate(ctx, case['reader'], case['tree'], stored, case['tree2'],
                  core.dec(case['stored2']))
  else:
    exec_suggest(ctx, case['reader'], case['tree'], case['algorithm'])
