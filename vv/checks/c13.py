"""C13 — a restarted stateful algorithm continues exactly like one that never stopped.

Three layers, all differential (run A = never stopped, run B = restarted at the
steps of a subset R; every subset of the n <= 6 steps is enumerated):

L1 `direct`   designer.dump() -> study-metadata protos (bytes or a SQLite file
              written and re-opened) -> factory(same args).load(); A and B are
              fed the same trial history (A's trials).
L2 `policy`   PartiallySerializableDesignerPolicy on an InRamPolicySupporter;
              restart = everything re-read from "storage" (study metadata and
              trials through protos) + a new policy object whose designer is
              built WITHOUT the seed, exactly as `_restore_designer` does.
L3 `service`  VizierServicer on a SQLite file; restart = new servicer on the
              same file. Grid coverage ledger (K suggestions == the K grid
              points, each once) and stream equality against a live designer.

Trial histories include unusual metric reports (+-inf, NaN, beyond float32,
denormal, -0.0; `c13_lib.gen_special`), so that the dumped state holds such
numbers. Besides the per-step comparisons, the restart point itself is compared
(L1: live vs restored population / dump -> load -> dump fixed point; L2,
NSGA-II: a shadow policy kept alive on the same study vs the re-created one).
"""
import copy
import os
import shutil
import tempfile

import numpy as np

from vv import c13_lib as L
from vv import gen

PROPERTY = 'C13'
LEVEL = 'fault_enumeration'
RULE = ('base case = (layer, designer in {grid, shuffled grid, quasi-random, eagle, NSGA-II, '
        'CMA-ES} with a generated config, generated flat search space of 1-4 parameters of '
        'all five kinds (DOUBLE only for CMA-ES), seed, n<=6 step script of batch sizes with '
        'scripted partial completion / infeasible trials); for every base case ALL 2^n '
        'subsets R of restart positions are executed (exhaustive for that sub-space; CMA-ES '
        'n<=3..4). A case = base x R x route (direct | KeyValue bytes | SQLite file). '
        'Non-trivial when at least one restart was injected after a step that changed the '
        'designer state; distinct = hash of (layer, designer, config, space shape, batch '
        'profile, completion profile, R, route, special-value profile). Service layer: '
        'K-point spaces, K suggestions over generated batch sizes, restart subsets '
        'enumerated. 55% of the eagle / CMA-ES, 70% of the NSGA-II (90% at the policy layer) '
        'base cases carry a special-value profile (drawn last from the case rng): each '
        'reported metric (objectives and safety) is replaced with '
        'probability p in {.25,.4,.6} by one of a drawn subset (always holding a non-finite '
        'value) of {+inf, -inf, NaN, 1e300, '
        '-1e300, 1e39, float32 max, 5e-324, 1e-310, -0.0, 0.1, 123456789.12345679, -1/3}, so '
        'that the persisted state (population arrays, firefly pool, CMA state) holds such '
        'numbers when it is dumped. Monitors: per step stream / phase / population / dump '
        'equality as before, plus at every restart point itself live-vs-restored population '
        '(NSGA-II; values, NaN positions, sign of zero, dtype, shape) or dump -> load -> dump '
        'fixed point (others), plus at the policy layer a kept-alive shadow policy on the '
        'same study against the policy re-created from study metadata (NSGA-II population '
        'and trial counter).')
ASSUMPTIONS = [
    'suggestions are compared by parameter values (int 1 == float 1.0), exactly (repr of float64)',
    'NSGA-II: suggestions themselves are not compared (its RNGs are documented as not '
    'persisted); compared are the population arrays (NaN == NaN), the phase observable '
    'through suggest (sampled offspring carry generation 0, mutated ones >= 1) and the '
    'id counter of sampled offspring',
    'a restart is only ever injected from a state produced by dump() (load on an empty '
    'study is allowed to raise HarmlessDecodeError and is not exercised as a restart)',
    'eagle `dump_timestamp` is masked when dumps are compared',
    'designers that refuse a generated problem in run A are skipped (counted as refused)',
    'L1 rebuilds the designer with the same constructor arguments (PartiallySerializable '
    'contract); L2 rebuilds it the way the production policy does (no seed)',
    'unusual metric values (non-finite, out of float32 range, denormal, -0.0) are legal '
    'reports: vz.Measurement and every designer accept them on the unchanged tree; if the '
    'never-stopped run A raises on them the case is dropped (runA_raised), only a '
    'difference between A and the restarted run is ever reported',
    'population arrays are compared with NaN == NaN (any NaN payload / sign), -0.0 != 0.0, '
    'equal dtype and shape; the dump -> load -> dump fixed point is compared on the '
    'canonical metadata text (eagle dump_timestamp masked) and is skipped for CMA-ES '
    'restarts that fall on a partially filled queue (known finding)',
    'the L2 shadow policy never writes to the study (its decisions and metadata delta are '
    'discarded); it reads trials through the same supporter as the serving policy',
]
DET_KINDS = ['grid', 'sgrid', 'qr', 'eagle', 'cmaes']
REQUIRED_COUNTERS = (
    [f'restarts_injected:{k}' for k in L.DESIGNER_KINDS]
    + [f'L2_restarts_injected:{k}' for k in ('grid', 'sgrid', 'qr', 'eagle', 'nsga2')]
    + ['steps_compared', 'populations_compared', 'nsga2_phase_compared',
       'nsga2_mutation_phase_steps', 'eagle_pool_full_steps', 'dumps_compared',
       'cmaes_restarts_after_tell_with_empty_queue',
       'route:sql', 'route:kv', 'all_subsets_enumerated',
       'special_metric_values_fed', 'restart_points_compared',
       'restarts_with_nonfinite_state:nsga2', 'restarts_with_nonfinite_state:eagle',
       'L2_shadow_populations_compared', 'L2_shadow_nonfinite_population_steps',
       'service_ledgers_checked', 'service_restarts', 'service_streams_compared'])
MIN_DISTINCT = {'quick': 350, 'thorough': 6000}


def plan(tier, seed):
  return {'shards': 12 if tier == 'quick' else 16,
          'budget_s': 55 if tier == 'quick' else 900}


# ---------------------------------------------------------------------------
# helpers
# ---------------------------------------------------------------------------
def _abstraction(case):
  sc = case['script']
  return [case['layer'], case['designer']['kind'], L.dumps(case['designer'].get('cfg', {})),
          gen.space_shape(case['problem']['space']), len(case['problem']['metrics']),
          sc['batches'], sc['p_complete'], sc['p_infeasible'], case['R'], case.get('route'),
          L.dumps(sc.get('special'))]


def _nsga_view(suggestions, ns='nsga2'):
  """(phase, ids, generations) observable from the suggestions' own metadata."""
  import json
  ids, gens = [], []
  for s in suggestions:
    raw = s.metadata.ns(ns).get('values', default=None, cls=str)
    if raw is None:
      return ('unknown', [], [])
    d = json.loads(raw)
    ids += list(d['ids']['value'])
    gens += list(d['generations']['value'])
  phase = 'sample' if all(g == 0 for g in gens) else 'mutate'
  return (phase, ids, gens)


def _pop_arrays(pop):
  import attr
  return {k: np.asarray(v) for k, v in attr.asdict(pop).items()}


def _pop_diff2(pa, pb):
  """None or (anomaly class, text). Classes, from the shape of the difference:

  shape:<field> | dtype:<field> | nonfinite-entry-changed:<field> (an entry that
  is +-inf / NaN on the live side is something else on the restarted side, all
  finite entries being equal) | values:<field>.
  """
  a, b = _pop_arrays(pa), _pop_arrays(pb)
  found = []
  for k in a:
    if a[k].shape != b[k].shape:
      found.append((0, f'shape:{k}', f'{k}: shape {a[k].shape} vs {b[k].shape}'))
      continue
    if a[k].dtype != b[k].dtype:
      found.append((1, f'dtype:{k}', f'{k}: dtype {a[k].dtype} vs {b[k].dtype}'))
      continue
    fa, fb = a[k].astype(np.float64), b[k].astype(np.float64)
    num = ~np.isnan(fa)   # NaN == NaN (whatever its sign bit); -0.0 != 0.0
    if not (np.array_equal(np.isnan(fa), np.isnan(fb)) and np.array_equal(fa[num], fb[num])
            and np.array_equal(np.signbit(fa[num]), np.signbit(fb[num]))):
      text = f'{k}: {a[k].tolist()} vs {b[k].tolist()}'
      fin = np.isfinite(fa)
      if (not fin.all()) and np.array_equal(fa[fin], fb[fin]) and \
          np.array_equal(np.signbit(fa[fin]), np.signbit(fb[fin])):
        found.append((2, f'nonfinite-entry-changed:{k}', text))
      else:
        found.append((3, f'values:{k}', text))
  if not found:
    return None
  # the most specific anomaly class names the mechanism (stable sort: field order)
  _, cls, text = sorted(found, key=lambda t: t[0])[0]
  return cls, text


def _pop_diff(pa, pb):
  d = _pop_diff2(pa, pb)
  return d[1] if d else None


def _pop_nonfinite(pop):
  return any(v.dtype.kind == 'f' and v.size and not np.isfinite(v).all()
             for v in _pop_arrays(pop).values())


def _md_nonfinite(canon):
  """True if a dumped state (canon_metadata form) carries a non-finite number."""
  import re
  return any(re.search(r'(?<![A-Za-z_"])(-?Infinity|NaN|nan|-?inf)(?![A-Za-z_"])', str(x[2]))
             for x in canon)


def _dump_mech(kind, case, e, fed_infeasible):
  if (kind == 'eagle' and isinstance(e, KeyError) and 'objective' in str(e)
      and case['designer']['cfg'].get('variant') == 'infeasible_force'
      and fed_infeasible):
    # infeasible_force_factor > 0 puts infeasible trials into the pool; their
    # metric is never renamed to 'objective', which the encoder reads
    return 'eagle:dump-raises-KeyError:infeasible-firefly-in-pool'
  return f'dump-raises:{kind}:{type(e).__name__}'


class _Once:
  """One violation per mechanism per case."""

  def __init__(self, ctx, case):
    self.ctx, self.case, self.seen = ctx, case, set()

  def __call__(self, mech, what, witness=None):
    if mech in self.seen:
      return
    self.seen.add(mech)
    self.ctx.violation(mech, what, self.case, witness)


# ---------------------------------------------------------------------------
# L1: direct designers
# ---------------------------------------------------------------------------
def exec_direct(ctx, case, router):
  from vizier import algorithms as vza
  pd, ds, seed, script = case['problem'], case['designer'], case['seed'], case['script']
  kind, R, route = ds['kind'], set(case['R']), case['route']
  fire = _Once(ctx, case)
  problem = L.build_problem(pd)
  factory = L.make_factory(ds)
  try:
    A = factory(problem, seed=seed)
  except (ValueError, NotImplementedError) as e:
    ctx.count(f'refused:{kind}')
    return 'refused'
  B = factory(problem, seed=seed)
  study_name = router.new_study(problem) if route == 'sql' else None
  active = {}
  next_id = 1
  restarted = False
  cma_queue_at_restart = False
  state_changed_before_restart = False
  fed_bare_infeasible = False
  for i, b in enumerate(script['batches']):
    if i in R:
      if kind == 'cmaes':  # private reads: classification / coverage counters only
        if A._trial_population.qsize() > 0:
          cma_queue_at_restart = True
        elif A._cma_es_jax.generation > 0:
          ctx.count('cmaes_restarts_after_tell_with_empty_queue')
      try:
        md = B.dump()
      except Exception as e:  # pylint: disable=broad-except
        fire(_dump_mech(kind, case, e, fed_bare_infeasible),
             f'{kind}: dump() raised {type(e).__name__}: {e}', {'step': i})
        ctx.case(_abstraction(case), True)
        return 'raised'
      try:
        md2 = router.route(route, md, study_name)
        B = factory(problem, seed=seed)
        B.load(md2)
      except Exception as e:  # pylint: disable=broad-except
        fire(f'restart-raises:{kind}:{type(e).__name__}',
             f'{kind}: dump -> {route} -> new instance -> load raised {type(e).__name__}: {e}',
             {'step': i})
        ctx.case(_abstraction(case), True)
        return 'raised'
      ctx.count(f'restarts_injected:{kind}')
      ctx.count(f'route:{route}')
      restarted = True
      # ---- at the restart point itself: the fresh instance holds what the live one holds
      if kind == 'nsga2':
        ctx.count('restart_points_compared')
        if _pop_nonfinite(A.population):
          ctx.count('restarts_with_nonfinite_state:nsga2')
        d = _pop_diff2(A.population, B.population)
        if d and 'nsga2:population-differs-after-restart' not in fire.seen:
          fire(f'nsga2:restored-population-differs-from-live:{d[0]}',
               f'NSGA-II restart before step {i} ({route}): the population of the fresh '
               f'instance after load() differs from the live one: {d[1]}'[:500], {'step': i})
          ctx.case(_abstraction(case), True)
          return 'done'
      elif not (kind == 'cmaes' and cma_queue_at_restart) and \
          'cmaes:restart-drops-partially-filled-population-queue' not in fire.seen:
        # dump() is public: dump -> load -> dump gives back the same state
        try:
          d0, d1 = L.canon_metadata(md), L.canon_metadata(B.dump())
        except Exception as e:  # pylint: disable=broad-except
          fire(_dump_mech(kind, case, e, fed_bare_infeasible),
               f'{kind}: dump() raised {type(e).__name__}: {e}', {'step': i})
          ctx.case(_abstraction(case), True)
          return 'raised'
        ctx.count('restart_points_compared')
        nonfinite = _md_nonfinite(d0)
        if nonfinite:
          ctx.count(f'restarts_with_nonfinite_state:{kind}')
        if d0 != d1:
          bad = [x[:2] for x, y in zip(d0, d1) if x != y][:3]
          fire(f'redump-after-load-differs:{kind}' + (
              ':state-holds-nonfinite-values' if nonfinite else ''),
               f'{kind}: dump -> {route} -> new instance -> load -> dump differs from the '
               f'first dump at keys {bad}', {'step': i, 'keys': bad})
          ctx.case(_abstraction(case), True)
          return 'done'
      if i > 0:
        state_changed_before_restart = True
    try:
      sa = list(A.suggest(b))
    except Exception as e:  # pylint: disable=broad-except
      # run A itself fails: nothing to compare against (other properties' business)
      ctx.count(f'runA_raised:{kind}:{type(e).__name__}')
      break
    try:
      sb = list(B.suggest(b))
    except Exception as e:  # pylint: disable=broad-except
      if restarted:
        fire(f'suggest-raises-after-restart:{kind}:{type(e).__name__}',
             f'{kind}: suggest raised only in the restarted run: {e}', {'step': i})
      break
    ctx.count('steps_compared')
    if kind == 'nsga2':
      va, vb = _nsga_view(sa), _nsga_view(sb)
      ctx.count('nsga2_phase_compared')
      if va[0] == 'mutate':
        ctx.count('nsga2_mutation_phase_steps')
      if va[0] != vb[0]:
        if restarted and va[0] == 'mutate' and vb[0] == 'sample':
          mech = 'nsga2:restart-returns-to-sampling-phase:num_trials_seen-not-dumped'
        else:
          mech = f'nsga2:phase-differs:{va[0]}-vs-{vb[0]}'
        fire(mech, f'NSGA-II step {i}: live instance is in phase {va[0]}, restarted one in {vb[0]}',
             {'step': i, 'live_num_trials_seen': A._num_trials_seen,
              'restarted_num_trials_seen': B._num_trials_seen, 'first_survival_after':
              A._first_survival_after})
      elif va[0] == 'sample':
        if va[1] != vb[1]:
          if restarted and vb[1] and min(vb[1]) < min(va[1]):
            mech = 'nsga2:restart-resets-sample-id-counter:sampler-num_samples-not-dumped'
          else:
            mech = 'nsga2:sample-ids-differ'
          fire(mech, f'NSGA-II step {i}: ids of freshly sampled offspring differ', {
              'step': i, 'live_ids': va[1], 'restarted_ids': vb[1]})
      else:
        if va[1] != vb[1] or va[2] != vb[2]:
          fire('nsga2:mutated-offspring-lineage-differs',
               f'NSGA-II step {i}: ids/generations of mutated offspring differ',
               {'step': i, 'live': va[1:], 'restarted': vb[1:]})
    else:
      ca, cb = L.canon_suggestions(sa), L.canon_suggestions(sb)
      ctx.count(f'streams_compared:{kind}')
      if kind == 'eagle' and A._firefly_pool.size >= A._firefly_pool.capacity:
        ctx.count('eagle_pool_full_steps')
      if ca != cb:
        if kind == 'cmaes' and cma_queue_at_restart:
          mech = 'cmaes:restart-drops-partially-filled-population-queue'
        else:
          mech = f'stream-diverged:{kind}:' + ('at-restart-step' if i in R else 'after-restart')
        j = next((k for k in range(min(len(ca), len(cb))) if ca[k] != cb[k]), None)
        fire(mech, f'{kind}: suggestions of step {i} differ between the live and the restarted run',
             {'step': i, 'index': j, 'live': ca[j] if j is not None else len(ca),
              'restarted': cb[j] if j is not None else len(cb), 'n_live': len(ca),
              'n_restarted': len(cb)})
        break   # the runs are now legitimately different
    # ---- feed the same history (A's trials) to both ---------------------------
    for s in sa:
      active[next_id] = s.to_trial(next_id)
      next_id += 1
    completed_now = []
    for tid in sorted(active):
      verdict = L.decide(script, tid, i)
      if verdict != 'wait':
        n_sp = L.complete_trial(pd, script, active[tid], verdict)
        if n_sp:
          ctx.count('special_metric_values_fed', n_sp)
        if verdict == 'infeasible':
          fed_bare_infeasible = True
        completed_now.append(active.pop(tid))
    comp = [L.roundtrip_trial(t) for t in completed_now]
    act = [L.roundtrip_trial(t) for t in active.values()]
    try:
      A.update(vza.CompletedTrials(copy.deepcopy(comp)), vza.ActiveTrials(copy.deepcopy(act)))
    except Exception as e:  # pylint: disable=broad-except
      ctx.count(f'runA_raised:{kind}:{type(e).__name__}')
      break
    try:
      B.update(vza.CompletedTrials(copy.deepcopy(comp)), vza.ActiveTrials(copy.deepcopy(act)))
    except Exception as e:  # pylint: disable=broad-except
      if restarted:
        fire(f'update-raises-after-restart:{kind}:{type(e).__name__}',
             f'{kind}: update raised only in the restarted run: {e}', {'step': i})
      break
    if kind == 'nsga2':
      ctx.count('populations_compared')
      d = _pop_diff2(A.population, B.population)
      if d:
        fire('nsga2:population-differs-after-restart' + (
            '' if d[0].startswith('values:') else ':' + d[0]),
             f'NSGA-II after step {i}: population differs: {d[1]}'[:400], {'step': i})
        break
    elif 'cmaes:restart-drops-partially-filled-population-queue' not in fire.seen:
      # dump() is a public method: states must be indistinguishable through it
      try:
        da, db = L.canon_metadata(A.dump()), L.canon_metadata(B.dump())
      except Exception as e:  # pylint: disable=broad-except
        fire(_dump_mech(kind, case, e, fed_bare_infeasible),
             f'{kind}: dump() raised {type(e).__name__}: {e}', {'step': i})
        break
      ctx.count('dumps_compared')
      if da != db:
        bad = [x[:2] for x, y in zip(da, db) if x != y][:3]
        if kind == 'cmaes' and cma_queue_at_restart:
          fire('cmaes:restart-drops-partially-filled-population-queue',
               'CMA-ES: dump differs after a restart with a partially filled queue',
               {'step': i, 'keys': bad})
        else:
          fire(f'dump-differs:{kind}', f'{kind}: dump() differs after step {i} at keys {bad}',
               {'step': i, 'keys': bad})
        break
  ctx.case(_abstraction(case), bool(R) and state_changed_before_restart)
  return 'done'


# ---------------------------------------------------------------------------
# L2: the production policy wrapper
# ---------------------------------------------------------------------------
class _SupProxy:
  """Supporter handle of the kept-alive shadow policy: always the current study."""

  def __init__(self, cur):
    self.cur = cur

  def __getattr__(self, name):
    return getattr(self.cur, name)


def _policy_run(pd, ds, seed, script, R, on_restart=None, shadow=None):
  """Returns the per-step observation list of one run with restarts at R.

  shadow (a list, NSGA-II only): a second policy object is kept alive for the
  whole run and receives every request first (its decisions are discarded, it
  never writes to the study). After every request the population / trial
  counter of its designer and those of the serving (re-created) policy's
  designer - both have incorporated the same trials of the same study - are
  appended to `shadow` as (step, diff or None, counters, nonfinite).
  """
  from vizier import pythia
  from vizier import pyvizier as vz
  from vizier._src.algorithms.policies import designer_policy as dp
  kind = ds['kind']
  factory = L.make_factory(ds)
  base = L.build_problem(pd)
  problem = copy.deepcopy(base)
  sup = pythia.InRamPolicySupporter(problem)
  policy = dp.PartiallySerializableDesignerPolicy(problem, sup, factory, seed=seed)
  obs = []
  queue_lost = False
  live = proxy = None
  if shadow is not None:
    proxy = _SupProxy(sup)
    live = dp.PartiallySerializableDesignerPolicy(copy.deepcopy(problem), proxy, factory,
                                                  seed=seed)
  for i, b in enumerate(script['batches']):
    if i in R:
      if kind == 'cmaes' and policy._designer is not None and \
          policy._designer._trial_population.qsize() > 0:   # classification only
        queue_lost = True
      md2 = L.roundtrip_study_metadata(sup.study_config.metadata)
      problem = vz.ProblemStatement(
          search_space=copy.deepcopy(base.search_space),
          metric_information=copy.deepcopy(base.metric_information), metadata=md2)
      trials = [L.roundtrip_trial(t) for t in sup.trials]
      sup = pythia.InRamPolicySupporter(problem)
      sup.AddTrials(trials)
      policy = dp.PartiallySerializableDesignerPolicy(problem, sup, factory, seed=seed)
      if proxy is not None:
        proxy.cur = sup
      if on_restart:
        on_restart()
    if live is not None:
      live.suggest(pythia.SuggestRequest(study_descriptor=sup.study_descriptor(), count=b))
    trials = sup.SuggestTrials(policy, b)
    if live is not None:
      la, lb = live.designer, policy.designer
      shadow.append((i, _pop_diff2(la.population, lb.population),
                     (la.dump().get('num_trials_seen', default=None),
                      lb.dump().get('num_trials_seen', default=None)),
                     _pop_nonfinite(la.population)))
    if kind == 'nsga2':
      v = _nsga_view(trials)
      obs.append({'phase': v[0], 'ids': v[1] if v[0] == 'sample' else None,
                  'n': len(trials), 'seen': policy.designer._num_trials_seen})
    else:
      obs.append({'s': L.canon_suggestions(trials)})
      if kind == 'cmaes':
        obs[-1]['queue_lost'] = queue_lost
    for t in sup.GetTrials(status_matches=vz.TrialStatus.ACTIVE):
      verdict = L.decide(script, t.id, i)
      if verdict != 'wait':
        L.complete_trial(pd, script, t, verdict)
  return obs


def exec_policy(ctx, case, ref=None):
  pd, ds, seed, script = case['problem'], case['designer'], case['seed'], case['script']
  kind, R = ds['kind'], set(case['R'])
  fire = _Once(ctx, case)
  try:
    A = ref if ref is not None else _policy_run(pd, ds, seed, script, set())
  except Exception as e:  # pylint: disable=broad-except
    ctx.count(f'L2_runA_raised:{kind}:{type(e).__name__}')
    if (kind == 'eagle' and isinstance(e, KeyError) and 'objective' in str(e)
        and ds['cfg'].get('variant') == 'infeasible_force' and script['p_infeasible'] > 0):
      # the policy dumps after every suggest: the never-stopped run dies as well
      fire('L2:eagle:dump-raises-KeyError:infeasible-firefly-in-pool',
           'policy layer, eagle: suggest raised KeyError(objective) out of dump() once an '
           'infeasible firefly is in the pool')
      ctx.case(_abstraction(case), True)
    return None
  if not R:
    ctx.case(_abstraction(case), False)
    return A
  shadow = [] if kind == 'nsga2' else None
  try:
    B = _policy_run(pd, ds, seed, script, R,
                    on_restart=lambda: ctx.count(f'L2_restarts_injected:{kind}'),
                    shadow=shadow)
  except Exception as e:  # pylint: disable=broad-except
    fire(f'L2:restarted-run-raises:{kind}:{type(e).__name__}',
         f'policy layer, {kind}: the restarted run raised {type(e).__name__}: {e}')
    ctx.case(_abstraction(case), True)
    return A
  first = min(R)
  for step, d, seen, nonfinite in shadow or ():
    if step < first:
      continue
    ctx.count('L2_shadow_populations_compared')
    if nonfinite:
      ctx.count('L2_shadow_nonfinite_population_steps')
    if d:
      fire(f'L2:nsga2:policy-recreated-from-study-metadata-holds-different-population:{d[0]}',
           f'policy layer, NSGA-II request {step}: a policy re-created from the study '
           f'metadata (restarts at {sorted(R)}) and a policy object kept alive, same study, '
           f'same trials, hold different populations: {d[1]}'[:500], {'step': step})
      break
    if seen[0] != seen[1]:
      fire('L2:nsga2:policy-recreated-from-study-metadata-has-different-trial-counter',
           f'policy layer, NSGA-II request {step}: num_trials_seen {seen[0]} (kept alive) vs '
           f'{seen[1]} (re-created)', {'step': step, 'seen': list(seen)})
      break
  for i, (oa, ob) in enumerate(zip(A, B)):
    ctx.count('L2_steps_compared')
    if kind == 'nsga2':
      if oa['phase'] != ob['phase']:
        if oa['phase'] == 'mutate' and ob['phase'] == 'sample' and i >= first:
          mech = 'L2:nsga2:restart-returns-to-sampling-phase:num_trials_seen-not-dumped'
        else:
          mech = f'L2:nsga2:phase-differs:{oa["phase"]}-vs-{ob["phase"]}'
        fire(mech, f'policy layer, NSGA-II step {i}: live policy is in phase {oa["phase"]}, '
             f'restarted one in {ob["phase"]}', {'step': i, 'live': oa, 'restarted': ob})
        break
      if oa['phase'] == 'sample' and oa['ids'] != ob['ids']:
        if i >= first and ob['ids'] and min(ob['ids']) < min(oa['ids']):
          mech = 'L2:nsga2:restart-resets-sample-id-counter:sampler-num_samples-not-dumped'
        else:
          mech = 'L2:nsga2:sample-ids-differ'
        fire(mech, f'policy layer, NSGA-II step {i}: ids of sampled offspring differ',
             {'step': i, 'live': oa, 'restarted': ob})
        break
    elif oa['s'] != ob['s']:
      if kind == 'cmaes' and ob.get('queue_lost'):
        mech = 'L2:cmaes:restart-drops-partially-filled-population-queue'
      elif kind == 'cmaes':
        mech = 'L2:cmaes:stream-diverged:queue-empty-at-restarts'
      else:
        mech = f'L2:stream-diverged:{kind}:' + ('at-restart-step' if i in R else (
            'after-restart' if i > first else 'before-any-restart'))
      j = next((k for k in range(min(len(oa['s']), len(ob['s']))) if oa['s'][k] != ob['s'][k]), None)
      fire(mech, f'policy layer, {kind}: suggestions of step {i} differ between the live and '
           'the restarted policy', {'step': i, 'index': j,
                                    'live': oa['s'][j] if j is not None else len(oa['s']),
                                    'restarted': ob['s'][j] if j is not None else len(ob['s'])})
      break
  ctx.case(_abstraction(case), max(R) > 0)
  return A


# ---------------------------------------------------------------------------
# L3: the service on a SQLite file
# ---------------------------------------------------------------------------
ALGO_OF = {'grid': 'GRID_SEARCH', 'sgrid': 'SHUFFLED_GRID_SEARCH', 'qr': 'QUASI_RANDOM_SEARCH'}


def exec_service(ctx, case):
  from vizier._src.service import study_pb2
  from vizier._src.service import vizier_service
  from vizier._src.service import vizier_service_pb2 as vs
  from vizier.service import pyvizier as svz
  from vizier._src.pyvizier.oss import metadata_util
  pd, kind, batches, R = case['problem'], case['designer']['kind'], case['script']['batches'], set(case['R'])
  fire = _Once(ctx, case)
  tmp = tempfile.mkdtemp(prefix='c13-svc-', dir=os.environ.get('VV_TMP') or None)
  url = f'sqlite:///{tmp}/vizier.db'
  try:
    problem = L.build_problem(pd)
    cfg = svz.StudyConfig.from_problem(problem)
    cfg.algorithm = ALGO_OF[kind]
    servicer = vizier_service.VizierServicer(database_url=url)
    study = servicer.CreateStudy(vs.CreateStudyRequest(
        parent='owners/c13', study=study_pb2.Study(display_name='s', study_spec=cfg.to_proto())))
    got = []
    got_batches = []
    for i, b in enumerate(batches):
      if i in R:
        servicer = vizier_service.VizierServicer(database_url=url)
        ctx.count('service_restarts')
      try:
        op = servicer.SuggestTrials(vs.SuggestTrialsRequest(
            parent=study.name, suggestion_count=b, client_id=f'w{i}'))
      except Exception as e:  # pylint: disable=broad-except
        msg = str(e)
        if kind == 'sgrid' and "unexpected keyword argument 'shuffle_seed'" in msg:
          mech = 'service:shuffled-grid-unusable:factory-passes-shuffle_seed-to-from_problem'
        else:
          mech = f'service:suggest-raises:{kind}:{type(e).__name__}'
        fire(mech, f'{ALGO_OF[kind]} hosted in the service: SuggestTrials raised '
             f'{type(e).__name__}: {msg[:200]}', {'step': i})
        ctx.case(_abstraction(case), True)
        return
      if op.HasField('error') and op.error.code:
        if kind == 'sgrid' and "unexpected keyword argument 'shuffle_seed'" in op.error.message:
          mech = 'service:shuffled-grid-unusable:factory-passes-shuffle_seed-to-from_problem'
        else:
          mech = f'service:suggest-error:{kind}'
        fire(mech, f'{ALGO_OF[kind]} hosted in the service: operation finished with error '
             f'{op.error.message[:200]}', {'step': i})
        ctx.case(_abstraction(case), True)
        return
      resp = vs.SuggestTrialsResponse.FromString(op.response.value)
      if len(resp.trials) != b:
        fire(f'service:wrong-count:{kind}', f'asked {b} got {len(resp.trials)}', {'step': i})
      batch = sorted(resp.trials, key=lambda t: int(t.id))
      # the order of trials inside one response is unspecified (the servicer
      # pops the newest first): each batch is compared as a sorted list
      got_batches.append(sorted(
          L.canon_params(svz.TrialConverter.from_proto(t).parameters) for t in batch))
      for t in batch:
        got.append(L.canon_params(svz.TrialConverter.from_proto(t).parameters))
        m = study_pb2.Measurement(metrics=[study_pb2.Measurement.Metric(
            metric_id=pd['metrics'][0]['name'], value=float(len(got)))])
        servicer.CompleteTrial(vs.CompleteTrialRequest(name=t.name, final_measurement=m))
    # ---- reference: one live designer that never stopped -----------------------
    if kind == 'grid':
      from vizier._src.algorithms.designers import grid
      live = grid.GridSearchDesigner.from_problem(problem)
    elif kind == 'sgrid':
      from vizier._src.algorithms.designers import grid
      spec = servicer.GetStudy(vs.GetStudyRequest(name=study.name)).study_spec
      md = metadata_util.from_key_value_list(spec.metadata)
      seed = md.ns(L.NS_ROOT).ns(L.NS_DESIGNER).ns('grid')['shuffle_seed']
      live = grid.GridSearchDesigner.from_problem(problem, int(seed))
    else:
      from vizier._src.algorithms.designers import quasi_random
      spec = servicer.GetStudy(vs.GetStudyRequest(name=study.name)).study_spec
      md = metadata_util.from_key_value_list(spec.metadata)
      seed = md.ns(L.NS_ROOT).ns(L.NS_DESIGNER).ns('quasi_random')['seed']
      live = quasi_random.QuasiRandomDesigner.from_problem(problem, seed=int(seed))
    want = [sorted(L.canon_suggestions(live.suggest(b))) for b in batches]
    ctx.count('service_streams_compared')
    if got_batches != want:
      gb = got_batches
      j = next((k for k in range(min(len(gb), len(want))) if gb[k] != want[k]), None)
      fire(f'service:stream-differs-from-live-designer:{kind}',
           f'{ALGO_OF[kind]} in the service (restarts at {sorted(R)}) does not continue like '
           'one live designer', {'batch': j, 'service': gb[j] if j is not None else len(gb),
                                 'live': want[j] if j is not None else len(want)})
    if kind in ('grid', 'sgrid'):
      K = L.n_points(pd)
      if len(got) == K:
        ctx.count('service_ledgers_checked')
        uniq = {L.dumps(g) for g in got}
        if len(uniq) != K:
          fire(f'service:grid-point-repeated-before-coverage:{kind}',
               f'{K}-point grid: {K} suggestions contained only {len(uniq)} distinct points',
               {'K': K, 'distinct': len(uniq)})
        else:
          # every suggested point is a grid point of the description
          for g in got:
            if not gen.member(pd['space'], {k: _decanon(pd, k, v) for k, v in g}):
              fire(f'service:grid-point-outside-space:{kind}', f'suggested {g}', {'point': g})
              break
    ctx.case(_abstraction(case), bool(R))
  finally:
    shutil.rmtree(tmp, ignore_errors=True)


def _decanon(pd, name, v):
  p = next(q for q in pd['space'] if q['name'] == name)
  return float(v) if p['kind'] in ('DOUBLE', 'INTEGER', 'DISCRETE') else v


def gen_service_case(rng, kind):
  """Small space with K points and batch sizes that sum to exactly K."""
  while True:
    n = rng.randint(1, 3)
    space = []
    for i in range(n):
      k = rng.choice(['INTEGER', 'CATEGORICAL', 'DISCRETE', 'BOOL', 'DOUBLE'])
      if k == 'INTEGER':
        lo = rng.randint(-3, 3)
        space.append({'name': f'i{i}', 'kind': k, 'lo': lo, 'hi': lo + rng.randint(0, 4),
                      'scale': None, 'default': None})
      elif k == 'CATEGORICAL':
        space.append({'name': f'c{i}', 'kind': k, 'values': sorted(rng.sample(
            ['a', 'b', 'c', 'dd', 'x y', 'True', '1'], rng.randint(1, 4))), 'default': None})
      elif k == 'DISCRETE':
        space.append({'name': f'd{i}', 'kind': k, 'values': sorted(rng.sample(
            [-2.5, -1.0, 0.0, 0.5, 1.0, 3.0, 10.0], rng.randint(1, 4))), 'scale': None,
                      'default': None})
      elif k == 'BOOL':
        space.append({'name': f'b{i}', 'kind': k, 'values': ['False', 'True'], 'default': None})
      else:
        space.append({'name': f'f{i}', 'kind': k, 'lo': -1.0, 'hi': rng.choice([-1.0, 2.0, 1e3]),
                      'scale': None, 'default': None})
    pd = {'space': space, 'metrics': [{'name': 'obj', 'goal': 'MAXIMIZE', 'safety': None}]}
    K = L.n_points(pd)
    if 4 <= K <= 90:
      break
  n_steps = rng.randint(2, 5)
  cuts = sorted(rng.sample(range(1, K), min(n_steps - 1, K - 1)))
  batches = [b - a for a, b in zip([0] + cuts, cuts + [K])]
  return pd, batches


# ---------------------------------------------------------------------------
# case generation
# ---------------------------------------------------------------------------
def gen_base(rng, layer, kind, tier):
  if layer == 'service':
    pd, batches = gen_service_case(rng, kind)
    return {'layer': layer, 'designer': {'kind': kind, 'cfg': {}}, 'problem': pd, 'seed': None,
            'script': {'batches': batches, 'p_complete': 1.0, 'p_infeasible': 0.0, 'salt': 0}}
  if kind == 'nsga2':
    pd = L.gen_problem(rng, kind, n_objectives=rng.choice([1, 2, 2, 3]),
                       safety=rng.random() < 0.25)
  else:
    pd = L.gen_problem(rng, kind)
  ds = L.gen_designer(rng, kind)
  if kind == 'cmaes':
    # XLA compiles once per (dimension, ask-count): keep both on a small lattice
    pd['space'] = pd['space'][:rng.choice([2, 2, 3])]
    n = rng.choice([3, 4]) if tier == 'quick' else rng.choice([4, 5])
  elif kind == 'eagle':
    n = rng.choice([3, 4, 5])
  else:
    n = rng.choice([3, 4, 5, 6])
  script = L.gen_script(rng, n, kind)
  if kind == 'nsga2':
    # NSGA-II refuses completed trials that lack a metric (documented TODO in
    # numpy_populations._create_metric_converter): infeasible trials report theirs
    script['infeasible_with_metrics'] = True
  if kind == 'cmaes':
    import math
    pop = 4 + int(math.floor(3 * math.log(len(pd['space']))))
    if rng.random() < 0.6:
      # restarts that fall between full populations: the queue is empty there
      script['batches'] = [pop for _ in range(n)]
      script['p_complete'] = 1.0
    else:
      script['batches'] = [rng.choice([2, 3, pop]) for _ in range(n)]
  if kind == 'eagle' and ds['cfg'].get('variant') == 'infeasible_force':
    # dump() is unusable once an infeasible trial entered the pool (reported
    # under its own mechanism): keep most cases of this variant free of them
    script['p_infeasible'] = rng.choice([0.0, 0.0, 0.2])
    script['infeasible_with_metrics'] = rng.random() < 0.5
  seed = rng.choice([0, 1, rng.getrandbits(16), rng.getrandbits(31)])
  # drawn last: everything above is the same base case as before this was added
  special = L.gen_special(rng, p_none=0.1 if (layer, kind) == ('policy', 'nsga2') else (
      0.3 if kind == 'nsga2' else 0.45))
  if special is not None and kind in ('eagle', 'nsga2', 'cmaes'):
    # (grid / quasi-random never read a metric)
    script['special'] = special
  return {'layer': layer, 'designer': ds, 'problem': pd, 'seed': seed, 'script': script}


# schedule of base cases: (layer, kind) cycled; cost-aware weights. Its length
# (29) is prime so that every shard count walks through every slot.
SCHEDULE = (
    [('direct', k) for k in ('grid', 'sgrid', 'qr', 'eagle', 'nsga2')] * 3
    + [('direct', 'cmaes')] * 3 + [('direct', 'eagle'), ('direct', 'nsga2')]
    + [('policy', k) for k in ('grid', 'sgrid', 'qr', 'eagle', 'nsga2')]
    + [('service', k) for k in ('grid', 'sgrid', 'qr')]
    + [('policy', 'cmaes')]
)


def run_base(ctx, base, router, index):
  n = len(base['script']['batches'])
  layer = base['layer']
  complete = True
  ref = None
  for R in L.subsets(n):
    if ctx.out_of_time():
      complete = False
      break
    case = dict(base, R=R, index=index)
    if layer == 'direct':
      # route is a function of R so that each subset is executed once
      case['route'] = ['sql', 'kv', 'sql', 'direct'][(len(R) + sum(R)) % 4] if R else 'direct'
      if exec_direct(ctx, case, router) == 'refused':
        return
    elif layer == 'policy':
      case['route'] = 'policy'
      ref = exec_policy(ctx, case, ref)
      if ref is None:
        return
    else:
      case['route'] = 'service'
      if base['designer']['kind'] == 'sgrid' and R and R != [n - 1]:
        continue   # unusable in the service (reported once per base); do not pay 2^n times
      exec_service(ctx, case)
  if complete:
    ctx.count('all_subsets_enumerated')
    ctx.count(f'subsets_enumerated:n={n}', 1 << n)


def run_shard(ctx):
  n_bases = 20 * len(SCHEDULE) if ctx.tier == 'quick' else 400 * len(SCHEDULE)
  tmp = tempfile.mkdtemp(prefix='c13-', dir=os.environ.get('VV_TMP') or None)
  router = L.Router(tmp)
  try:
    for i in range(n_bases):
      if not ctx.mine(i):
        continue
      if ctx.out_of_time():
        ctx.note(f'time budget reached at base case {i}')
        break
      layer, kind = SCHEDULE[i % len(SCHEDULE)]
      rng = ctx.rng(i)
      base = gen_base(rng, layer, kind, ctx.tier)
      if i < 2 * ctx.nshards:
        ctx.sample({'layer': layer, 'kind': kind, 'cfg': base['designer']['cfg'],
                    'batches': base['script']['batches'],
                    'space': [p['kind'] for p in base['problem']['space']]})
      run_base(ctx, base, router, i)
  finally:
    shutil.rmtree(tmp, ignore_errors=True)


def replay(ctx, case):
  tmp = tempfile.mkdtemp(prefix='c13-replay-')
  try:
    if case['layer'] == 'direct':
      exec_direct(ctx, case, L.Router(tmp))
    elif case['layer'] == 'policy':
      exec_policy(ctx, case)
    else:
      exec_service(ctx, case)
  finally:
    shutil.rmtree(tmp, ignore_errors=True)
