"""C12 — algorithms get each completed trial exactly once, and all active trials.

A recording designer sits behind the repository's real policy wrappers
(PartiallySerializableDesignerPolicy: state through study metadata, policy
rebuilt per request by the service; DesignerPolicy: rebuilt from scratch;
a policy kept alive over InRamPolicySupporter). Every Designer.update() call is
logged together with the ground-truth trial table read at that instant, and a
ledger keyed by trial *identity* (creation ordinal, so id reuse is visible)
decides: active == ACTIVE now; completed == completed trials not delivered
since the algorithm state was (re)built; nothing delivered twice.
"""
import json
import os

PROPERTY = 'C12'
LEVEL = 'exploration'
RULE = ('histories of 6..30 steps: suggest (batch 1..5, 1..3 workers), complete feasible/infeasible out of order, add '
        'completed trial, request trial, stop, delete trial (incl. the highest id), corrupt the persisted algorithm '
        'state, a completion by another worker injected between two reads of a running request; routes: real service + PartiallySerializableDesignerPolicy (RAM / in-memory SQLite), real service + '
        'DesignerPolicy, policy kept alive over InRamPolicySupporter, real service on an SQLite file with server restarts in between. Non-trivial = history with >=2 update events and '
        '>=1 completed trial delivered; distinct = hash of (route, step-kind sequence).')
ASSUMPTIONS = [
    'ledger is relative to the restored algorithm state: when the policy could not restore its state (fresh designer '
    'without load) every completed trial may be delivered again once',
    'ACTIVE means proto state ACTIVE (STOPPING trials are not ACTIVE)',
    'ground truth is read from the datastore inside the same Designer.update() call',
]
REQUIRED_COUNTERS = ['designer_state_corruptions', 'server_restarts', 'update_events', 'deliveries_ledgered', 'events_with_active', 'state_restorations',
                     'state_losses', 'rebuilt_policy_events', 'inram_events', 'kept_alive_policy_events',
                     'racing_completions_between_reads', 'updates_with_concurrent_completion_checked', 'study_recreations']
MIN_DISTINCT = {'quick': 150, 'thorough': 3000}
ROUTES = ['svc-ps-ram', 'svc-ps-sqlmem', 'svc-dp-ram', 'inram-ps', 'svc-ps-sqlfile', 'svc-ps-ram', 'svc-keep-ram', 'svc-keep-sqlmem']


def plan(tier, seed):
  return {'shards': 12 if tier == 'quick' else 16, 'budget_s': 60 if tier == 'quick' else 900}


class Recorder:

  def __init__(self):
    self.events = []
    self.truth = None
    self.instances = 0
    # {'after': n, 'fire': callable}: after the n-th read (GetTrials) of the current
    # request another worker's call is executed (on a second thread) before the
    # algorithm's next read
    self.race = None
    self.race_log = []


class RacingSupporter:
  """The policy's supporter, with a yield point after every read: what another
  worker does between two reads of one request (the service does not hold the
  study lock while the algorithm runs)."""

  def __init__(self, inner):
    self._inner = inner
    self._reads = 0

  def __getattr__(self, name):
    return getattr(self._inner, name)

  def GetTrials(self, *a, **kw):  # pylint: disable=invalid-name
    out = self._inner.GetTrials(*a, **kw)
    self._reads += 1
    race = REC.race
    if race is not None and race.get('after') == self._reads and not race.get('fired'):
      race['fired'] = True
      import threading
      res = {}

      def body():
        try:
          res['out'] = race['fire']()
        except Exception as e:  # pylint: disable=broad-except
          res['exc'] = e
      th = threading.Thread(target=body, daemon=True)
      th.start()
      th.join(20)
      REC.race_log.append({'after': self._reads, 'blocked': th.is_alive(), 'out': str(res.get('out'))[:40],
                           'exc': type(res['exc']).__name__ if 'exc' in res else None})
    return out


REC = Recorder()


def make_designer_cls():
  from vizier import pyvizier as vz
  from vizier import algorithms as vza
  from vizier.interfaces import serializable

  class RecordingDesigner(vza.PartiallySerializableDesigner):

    def __init__(self, problem, seed=None):
      del seed
      self._problem = problem
      self._n_updates = 0
      self._n_suggested = 0
      self._loaded = False
      REC.instances += 1
      self._serial = REC.instances

    def update(self, completed, all_active):
      REC.events.append({
          'instance': self._serial, 'restored': self._loaded, 'n_updates_before': self._n_updates,
          'completed': [t.id for t in completed.trials], 'active': [t.id for t in all_active.trials],
          'truth': REC.truth() if REC.truth else None})
      self._n_updates += 1

    def suggest(self, count=None):
      count = count or 1
      out = []
      for _ in range(count):
        n = self._n_suggested
        self._n_suggested += 1
        out.append(vz.TrialSuggestion(parameters={'x': ((n * 37) % 101) / 100.0, 'k': n % 10, 'c': 'ab'[n % 2]}))
      return out

    def dump(self):
      md = vz.Metadata()
      md['rec'] = json.dumps({'n_updates': self._n_updates, 'n_suggested': self._n_suggested})
      return md

    def load(self, md):
      if 'rec' not in md:
        raise serializable.HarmlessDecodeError('no recorded state')
      try:
        st = json.loads(md['rec'])
      except json.JSONDecodeError as e:
        raise serializable.HarmlessDecodeError('garbled') from e
      self._n_updates = st['n_updates']
      self._n_suggested = st['n_suggested']
      self._loaded = True

  return RecordingDesigner


_CLS = {}


def designer_cls():
  if 'c' not in _CLS:
    _CLS['c'] = make_designer_cls()
  return _CLS['c']


def custom_policies():
  from vizier._src.algorithms.policies import designer_policy as dp
  cls = designer_cls()
  return {
      'VVREC_PS': lambda problem, supporter, study_name: dp.PartiallySerializableDesignerPolicy(
          problem, RacingSupporter(supporter), cls),
      'VVREC_DP': lambda problem, supporter, study_name: dp.DesignerPolicy(
          supporter, lambda p, **kw: cls(p), use_seeding=False),
      # a policy factory that keeps one policy (and therefore the supporter of the
      # first request) alive per study, as a long-running Pythia host may do
      'VVREC_KEEP': _kept_alive(lambda problem, supporter: dp.PartiallySerializableDesignerPolicy(
          problem, supporter, cls)),
  }


KEPT = {}


def _kept_alive(build):
  def factory(problem, supporter, study_name):
    if study_name not in KEPT:
      KEPT[study_name] = build(problem, supporter)
    return KEPT[study_name]
  return factory


# ---------------------------------------------------------------------------
def gen_history(rng, route):
  steps = []
  n = rng.randint(6, 30)
  for _ in range(n):
    r = rng.random()
    if r < 0.34:
      steps.append({'k': 'suggest', 'count': rng.choice([1, 1, 2, 3, 5]), 'w': rng.choice(['w1', 'w2', 'w3'])})
    elif r < 0.62:
      steps.append({'k': 'complete', 'pick': rng.random(), 'infeasible': rng.random() < 0.2,
                    'reason': rng.choice(['', 'x', ''])})
      if rng.random() < 0.25:
        # ... or the same completion arrives while another worker's suggest is inside the
        # algorithm, between two of its reads
        steps[-1] = {'k': 'suggest_race', 'count': rng.choice([1, 2, 3]), 'w': rng.choice(['w1', 'w2', 'w3']),
                     'pick': steps[-1]['pick'], 'infeasible': steps[-1]['infeasible'], 'reason': steps[-1]['reason'],
                     'after': rng.choice([1, 1, 2])}
    elif r < 0.72:
      steps.append({'k': 'add_completed', 'v': round(rng.uniform(0, 1), 3)})
    elif r < 0.78:
      steps.append({'k': 'request'})
    elif r < 0.83:
      steps.append({'k': 'stop', 'pick': rng.random()})
    elif r < 0.95:
      steps.append({'k': 'delete', 'pick': rng.random(), 'highest': rng.random() < 0.5})
      if steps[-1]['highest'] and rng.random() < 0.45:
        # several of the newest trials go (a sweep of late trials is withdrawn): the largest id
        # falls below the number of trials the algorithm has already been given
        for _ in range(rng.randint(1, 3)):
          steps.append({'k': 'delete', 'pick': rng.random(), 'highest': True})
    elif r < 0.965:
      # the study is deleted and created again under the same name: a new study, nothing
      # learnt about the old one's trials may be applied to it
      steps.append({'k': 'recreate_study'})
    elif r < 0.98:
      steps.append({'k': 'corrupt_state'})
    else:
      # only the designer's part of the persisted state is unreadable: the policy has
      # to start a fresh designer *and* forget what it had delivered to the old one
      steps.append({'k': 'corrupt_designer_state'})
  if route.endswith('sqlfile'):
    # server restarts: a new VizierServicer on the same SQLite file
    for _ in range(rng.randint(1, 4)):
      steps.insert(rng.randint(1, len(steps)), {'k': 'restart'})
  steps.append({'k': 'suggest', 'count': 1, 'w': 'w1'})
  steps.append({'k': 'suggest', 'count': 40, 'w': 'w2'})
  if not (route.startswith('svc-ps')):
    # the racing step needs the real service and the policy rebuilt per request
    steps = [dict(s, k='complete') if s['k'] == 'suggest_race' else s for s in steps]
  if route.endswith('sqlfile') or route == 'inram-ps':
    steps = [s for s in steps if s['k'] != 'recreate_study']
  if route == 'inram-ps':
    steps = [s for s in steps if s['k'] in ('suggest', 'complete', 'add_completed')]
  if route.startswith('svc-dp'):
    steps = [s for s in steps if s['k'] not in ('corrupt_state', 'corrupt_designer_state')]
  return steps


class Ledger:

  def __init__(self, ctx, route, case, rebuilt_each_time):
    self.ctx, self.route, self.case = ctx, route, case
    self.delivered = {}        # serial -> id
    self.ever_delivered_ids = set()   # ids handed to the algorithm since its state was (re)built
    self.rebuilt = rebuilt_each_time
    self.deleted_ids = []
    self.last_instance = None
    self.ok = True
    self.n_delivered = 0

  def on_event(self, ev, step_no, concurrent=None):
    ctx = self.ctx
    ctx.count('update_events')
    truth = ev['truth']
    if truth is None:
      return
    if concurrent is not None:
      # A trial completed by another worker *while* this request was reading: either read may
      # or may not have seen it (delivered now, still listed ACTIVE, or in neither list and
      # delivered next time) - but one update never lists it as ACTIVE and as completed.
      if concurrent in ev['active'] and concurrent in ev['completed']:
        self.fail('trial-both-active-and-completed-in-one-update',
                  f'step {step_no}: trial {concurrent}, completed by another worker between two reads of this '
                  f'request, was handed over as ACTIVE and as completed in the same update '
                  f'(active {sorted(ev["active"])}, completed {sorted(ev["completed"])})')
      ctx.count('updates_with_concurrent_completion_checked')
      delivered_now = concurrent in ev['completed']
      ev = dict(ev, active=[i for i in ev['active'] if i != concurrent],
                completed=[i for i in ev['completed'] if i != concurrent],
                truth=[(i, s, ser) for (i, s, ser) in truth if i != concurrent])
      ser = {i: sr for (i, _, sr) in truth}.get(concurrent)
      if delivered_now and ser is not None:
        if ser in self.delivered:
          self.fail('completed-trial-delivered-twice', f'step {step_no}: trial {concurrent} delivered again')
        self.delivered[ser] = concurrent
        self.ever_delivered_ids.add(concurrent)
        self.n_delivered += 1
        ctx.count('deliveries_ledgered')
      truth = ev['truth']
    fresh = (not ev['restored']) and ev['instance'] != self.last_instance
    if self.rebuilt:
      self.delivered = {}
      self.ever_delivered_ids = set()
      ctx.count('rebuilt_policy_events')
    elif fresh:
      if self.delivered:
        ctx.count('state_losses')
      self.delivered = {}
      self.ever_delivered_ids = set()
    elif ev['instance'] != self.last_instance:
      ctx.count('state_restorations')
    self.last_instance = ev['instance']
    active_truth = sorted(i for i, s, _ in truth if s == 'ACTIVE')
    if active_truth:
      ctx.count('events_with_active')
    if sorted(ev['active']) != active_truth:
      self.fail('active-set-mismatch', f'step {step_no}: update() got active {sorted(ev["active"])}, ACTIVE now {active_truth}')
    completed_truth = {i: ser for i, s, ser in truth if s in ('SUCCEEDED', 'INFEASIBLE')}
    expected = sorted(i for i, ser in completed_truth.items() if ser not in self.delivered)
    got = list(ev['completed'])
    if len(set(got)) != len(got):
      self.fail('duplicate-in-one-update', f'step {step_no}: completed list {got} has duplicates')
    got_s = sorted(set(got))
    if got_s != expected:
      missing = [i for i in expected if i not in got_s]
      extra = [i for i in got_s if i not in expected]
      if missing:
        reused = [i for i in missing if i in self.ever_delivered_ids]
        max_id = max(i for i, _, _ in truth)
        if reused and len(reused) == len(missing) and self.deleted_ids:
          # a trial was deleted after it had been delivered and a later trial got its id
          mech = 'completed-trial-never-delivered:id-reused-after-delete'
        elif self.deleted_ids and len(self.ever_delivered_ids) == max_id:
          # the loader's `number of delivered ids == max trial id` shortcut after a deletion lowered the max id
          mech = 'completed-trial-not-delivered:delivered-count-equals-max-id-after-delete'
        elif self.deleted_ids and reused:
          mech = 'completed-trial-never-delivered:id-reused-after-delete+others'
        else:
          mech = 'completed-trial-not-delivered:other'
        self.fail(mech, f'step {step_no}: completed trials {missing} (not delivered before) missing from update(): '
                        f'got {got_s}, expected {expected}; deleted so far {self.deleted_ids}')
      if extra:
        not_completed = [i for i in extra if i not in completed_truth]
        mech = 'delivered-trial-not-completed' if not_completed else 'completed-trial-delivered-twice'
        self.fail(mech, f'step {step_no}: update() got {extra} unexpectedly (expected {expected})')
    for i in got_s:
      if i in completed_truth:
        self.delivered[completed_truth[i]] = i
        self.ever_delivered_ids.add(i)
        self.n_delivered += 1
        ctx.count('deliveries_ledgered')

  def fail(self, mech, what):
    self.ok = False
    self.ctx.violation(mech, f'{self.route}: {what}'[:500], self.case)


def run_service(ctx, index, route, steps):
  from vv import service as S
  from vizier._src.service import vizier_service_pb2 as vsp
  _, kind, backend = route.split('-')
  algo = {'ps': 'VVREC_PS', 'dp': 'VVREC_DP', 'keep': 'VVREC_KEEP'}[kind]
  KEPT.clear()
  mon = S.WriteMonitor()
  ctl = S.Controller()
  tmpdir = None
  if backend == 'sqlfile':
    import tempfile
    tmpdir = tempfile.mkdtemp(prefix='vv-c12-', dir=os.environ.get('VV_TMP'))
    backend = f'sqlite:///{tmpdir}/v.db'
  servicer = S.make_servicer(backend, ctl, mon, custom_policies=custom_policies())
  sname = 'owners/o/studies/s'
  S.call_servicer(servicer, {'op': 'CreateStudy', 'owner': 'o', 'display': 's', 'algo': algo})
  box = {'sv': servicer, 'inner': servicer.datastore._inner}

  class _Inner:
    def __getattr__(self, name):
      return getattr(box['inner'], name)
  inner = _Inner()

  def truth():
    out = []
    for t in inner.list_trials(sname):
      out.append((int(t.id), S.TS.Name(t.state), mon.created_serial.get(t.name)))
    return out
  REC.truth = truth
  REC.events = []
  case = {'route': route, 'steps': steps, 'index': index}
  ledger = Ledger(ctx, route, case, rebuilt_each_time=(kind == 'dp'))
  kinds = []
  for step_no, st in enumerate(steps):
    k = st['k']
    kinds.append(k)
    trials = inner.list_trials(sname)
    by_state = {}
    for t in trials:
      by_state.setdefault(S.TS.Name(t.state), []).append(int(t.id))
    if k == 'suggest':
      n_ev = len(REC.events)
      ocls, oresp, _ = S.call_servicer(servicer, {'op': 'SuggestTrials', 'study': sname, 'count': st['count'], 'client': st['w']})
      if ocls != 'OK' or (isinstance(oresp, dict) and oresp.get('error')):
        ctx.violation('suggest-failed', f'{route} step {step_no}: suggest -> {ocls} {str(oresp)[:200]}', case)
        break
      for ev in REC.events[n_ev:]:
        if kind == 'keep':
          ctx.count('kept_alive_policy_events')
        ledger.on_event(ev, step_no)
    elif k == 'complete':
      pool = sorted(by_state.get('ACTIVE', []) + by_state.get('STOPPING', []))
      if pool:
        tid = pool[int(st['pick'] * len(pool)) % len(pool)]
        c = {'op': 'CompleteTrial', 'trial': f'{sname}/trials/{tid}', 'final': {'metrics': {'obj': 0.5}}}
        if st['infeasible']:
          c = {'op': 'CompleteTrial', 'trial': f'{sname}/trials/{tid}', 'infeasible': True, 'reason': st.get('reason', 'x')}
        S.call_servicer(servicer, c)
    elif k == 'suggest_race':
      # a suggest that needs the algorithm (large count), raced by the completion of an
      # ACTIVE trial of some worker between two reads of the algorithm
      pool = sorted(by_state.get('ACTIVE', []))
      n_ev = len(REC.events)
      racing = None
      if pool:
        racing = pool[int(st['pick'] * len(pool)) % len(pool)]
        c = {'op': 'CompleteTrial', 'trial': f'{sname}/trials/{racing}', 'final': {'metrics': {'obj': 0.25}}}
        if st['infeasible']:
          c = {'op': 'CompleteTrial', 'trial': f'{sname}/trials/{racing}', 'infeasible': True, 'reason': st.get('reason', 'x')}
        sv_now = servicer
        REC.race = {'after': st['after'], 'fire': (lambda c=c, sv_now=sv_now: S.call_servicer(sv_now, c)[0])}
      REC.race_log = []
      try:
        ocls, oresp, _ = S.call_servicer(servicer, {'op': 'SuggestTrials', 'study': sname, 'count': st['count'] + 8,
                                                   'client': st['w']})
      finally:
        fired = bool(REC.race and REC.race.get('fired'))
        REC.race = None
      if ocls != 'OK' or (isinstance(oresp, dict) and oresp.get('error')):
        ctx.violation('suggest-failed', f'{route} step {step_no}: raced suggest -> {ocls} {str(oresp)[:200]}', case)
        break
      if fired and REC.race_log and REC.race_log[0]['blocked']:
        ctx.count('racing_completions_blocked')
      elif fired and REC.race_log and REC.race_log[0]['out'] == 'OK':
        ctx.count('racing_completions_between_reads')
        ctx.count(f'racing_completions_after_read_{st["after"]}')
      else:
        racing = None if not (fired and REC.race_log and REC.race_log[0]['out'] == 'OK') else racing
      for ev in REC.events[n_ev:]:
        ledger.on_event(ev, step_no, concurrent=racing)
    elif k == 'add_completed':
      S.call_servicer(servicer, {'op': 'CreateTrial', 'study': sname, 'params': {'x': 0.3, 'k': 3, 'c': 'a'},
                                 'state': 'SUCCEEDED', 'final': {'metrics': {'obj': st['v']}}})
    elif k == 'request':
      S.call_servicer(servicer, {'op': 'CreateTrial', 'study': sname, 'params': {'x': 0.6, 'k': 6, 'c': 'b'}})
    elif k == 'stop':
      pool = sorted(by_state.get('ACTIVE', []))
      if pool:
        S.call_servicer(servicer, {'op': 'StopTrial', 'trial': f'{sname}/trials/{pool[int(st["pick"] * len(pool)) % len(pool)]}'})
    elif k == 'delete':
      ids = sorted(int(t.id) for t in trials)
      if ids:
        tid = ids[-1] if st['highest'] else ids[int(st['pick'] * len(ids)) % len(ids)]
        S.call_servicer(servicer, {'op': 'DeleteTrial', 'trial': f'{sname}/trials/{tid}'})
        ledger.deleted_ids.append(tid)
    elif k == 'recreate_study':
      ctx.count('study_recreations')
      S.call_servicer(servicer, {'op': 'DeleteStudy', 'study': sname})
      S.call_servicer(servicer, {'op': 'CreateStudy', 'owner': 'o', 'display': 's', 'algo': algo})
      KEPT.clear()      # (the harness's own kept-alive host keys its policies by study incarnation)
      ledger = Ledger(ctx, route, case, rebuilt_each_time=(kind == 'dp'))
    elif k == 'restart':
      ctx.count('server_restarts')
      try:
        box['inner']._connection.close()
        box['inner']._engine.dispose()
      except Exception:  # pylint: disable=broad-except
        pass
      servicer = S.make_servicer(backend, ctl, mon, custom_policies=custom_policies())
      box['sv'], box['inner'] = servicer, servicer.datastore._inner
    elif k == 'corrupt_state':
      S.call_servicer(servicer, {'op': 'UpdateMetadata', 'study': sname, 'delta': [
          [None, ':designer_policy_v0:cache', 'incorporated_completed_trials_ids', 'not json']]})
    elif k == 'corrupt_designer_state':
      ctx.count('designer_state_corruptions')
      S.call_servicer(servicer, {'op': 'UpdateMetadata', 'study': sname, 'delta': [
          [None, ':designer_policy_v0:designer', 'rec', 'not json']]})
    if not ledger.ok:
      break
  for kk, dd in mon.anomalies:
    ctx.violation(f'monitor:{kk}', f'{route}: {kk} {dd}'[:300], case)
  REC.truth = None
  if tmpdir:
    import shutil
    shutil.rmtree(tmpdir, ignore_errors=True)
  ctx.case([route, kinds], nontrivial=len(REC.events) >= 2 and ledger.n_delivered >= 1)


def run_inram(ctx, index, route, steps):
  from vizier import pyvizier as vz
  from vizier._src.algorithms.policies import designer_policy as dp
  from vizier._src.pythia import local_policy_supporters
  from vv import service as S
  problem = S.make_study_config('X').to_problem()
  sup = local_policy_supporters.InRamPolicySupporter(problem)
  policy = dp.PartiallySerializableDesignerPolicy(problem, sup, designer_cls())
  serial = {}

  def truth():
    out = []
    for t in sup.GetTrials():
      state = {'ACTIVE': 'ACTIVE', 'COMPLETED': 'SUCCEEDED', 'REQUESTED': 'REQUESTED', 'STOPPING': 'STOPPING'}[t.status.name]
      out.append((t.id, state, serial.setdefault(t.id, len(serial) + 1)))
    return out
  REC.truth = truth
  REC.events = []
  case = {'route': route, 'steps': steps, 'index': index}
  ledger = Ledger(ctx, route, case, rebuilt_each_time=False)
  kinds = []
  for step_no, st in enumerate(steps):
    k = st['k']
    kinds.append(k)
    if k == 'suggest':
      n_ev = len(REC.events)
      sup.SuggestTrials(policy, count=min(st['count'], 6))
      for ev in REC.events[n_ev:]:
        ctx.count('inram_events')
        ledger.on_event(ev, step_no)
    elif k == 'complete':
      pool = [t for t in sup.GetTrials() if t.status == vz.TrialStatus.ACTIVE]
      if pool:
        t = pool[int(st['pick'] * len(pool)) % len(pool)]
        if st['infeasible']:
          t.complete(vz.Measurement(), infeasibility_reason=st.get('reason', 'x'))
        else:
          t.complete(vz.Measurement(metrics={'obj': 0.5}))
    elif k == 'add_completed':
      t = vz.Trial(parameters={'x': 0.3, 'k': 3, 'c': 'a'})
      t.complete(vz.Measurement(metrics={'obj': st['v']}))
      sup.AddTrials([t])
    if not ledger.ok:
      break
  REC.truth = None
  ctx.case([route, kinds], nontrivial=len(REC.events) >= 2 and ledger.n_delivered >= 1)


def run_case(ctx, index, route, steps):
  if route == 'inram-ps':
    run_inram(ctx, index, route, steps)
  else:
    run_service(ctx, index, route, steps)


def run_shard(ctx):
  n = 1500 if ctx.tier == 'quick' else 60000
  for i in range(n):
    if not ctx.mine(i):
      continue
    if ctx.out_of_time():
      ctx.note(f'time budget reached at history {i}')
      break
    rng = ctx.rng(i)
    route = ROUTES[(i // ctx.nshards) % len(ROUTES)]
    steps = gen_history(rng, route)
    run_case(ctx, i, route, steps)
    if i < ctx.nshards:
      ctx.sample({'route': route, 'steps': steps[:8], 'n_steps': len(steps)})


def replay(ctx, case):
  run_case(ctx, case.get('index', 0), case['route'], case['steps'])
