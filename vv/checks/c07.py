"""C07 — RAM and SQL datastores are observationally equivalent behind the service.

The same generated program is fed to three real servicers (RAM datastore,
in-memory SQLite, SQLite file); after every call the outcome class, the
normalised response and the complete stored state (ListStudies / GetStudy /
ListTrials as *ordered* lists) are compared pairwise; at the end every
suggestion operation seen is fetched from each backend and compared. The RAM
run is simultaneously checked against the reference model, which also drives
the state-aware program generator.
"""
import os
import re
import shutil
import tempfile

from vv.checks import c01

PROPERTY = 'C07'
LEVEL = 'exploration'
RULE = ('programs of 8..40 RPCs as in C01 plus a class aimed at delete-study -> re-create same name -> suggest, '
        'UpdateMetadata naming missing trials, early-stopping checks and unknown owners; algorithms: deterministic '
        'harness algorithm and GRID_SEARCH (values compared) and RANDOM_SEARCH (shape only). Non-trivial = program '
        'with >=1 study deletion or failed metadata update or >=1 rejected call; distinct = hash of the multiset of '
        '(RPC, pre-state, outcome) triples.')
ASSUMPTIONS = [
    'error messages may differ between backends: only outcome classes and stored data are compared',
    'timestamps masked to presence flags; early-stopping boolean masked',
    'trial parameters suggested by RANDOM_SEARCH are masked (the algorithm is unseeded)',
    'a syntactically malformed resource name may be rejected as INVALID by one backend and NOT_FOUND by another: '
    'both count as the same rejection (the documentation does not say which)',
]
REQUIRED_COUNTERS = ['id_reuse_tails_run', 'committed_equals_visible_checked', 'early_stop_answers_compared', 'early_stop_answers_true', 'algorithm_reach_compared', 'calls_compared_3way', 'snapshots_compared_3way', 'study_recreations', 'failed_metadata_updates',
                     'operations_compared']
MIN_DISTINCT = {'quick': 60, 'thorough': 2000}

WEIGHTS = {
    'CreateStudy': 8, 'GetStudy': 2, 'ListStudies': 3, 'DeleteStudy': 5, 'SetStudyState': 3,
    'CreateTrial': 8, 'SuggestTrials': 14, 'GetOperation': 3, 'GetTrial': 2, 'ListTrials': 2,
    'AddTrialMeasurement': 5, 'CompleteTrial': 9, 'StopTrial': 3, 'DeleteTrial': 4,
    'CheckTrialEarlyStoppingState': 4, 'UpdateMetadata': 10, 'ListOptimalTrials': 3}
PROFILE = {'algos': ['VVSTUB'] * 7 + ['GRID_SEARCH', 'GRID_SEARCH', 'RANDOM_SEARCH'],
           'deltas': [0, 0, 0, 1, 2, -1, -2], 'algo_md': True}


def plan(tier, seed):
  return {'shards': 12 if tier == 'quick' else 16, 'budget_s': 70 if tier == 'quick' else 1000}


_RE = {
    'study': re.compile(r'^owners/[^/]+/studies/[^/]+\Z'),
    'trial': re.compile(r'^owners/[^/]+/studies/[^/]+/trials/(0|[1-9][0-9]*)\Z'),
    'name': re.compile(r'^owners/[^/]+/operations/suggestion/[^/]+/[^/]+/(0|[1-9][0-9]*)\Z'),
    'raw_parent': re.compile(r'^owners/[^/]+\Z'),
}


def malformed(call):
  """True when the resource name in the call is not a well-formed name (the
  backends may reject it as INVALID or as NOT_FOUND: both are rejections)."""
  for k, rx in _RE.items():
    if call.get(k) is not None and not rx.match(call[k]):
      return True
  return False


def mask_random(x, random_studies):
  """Masks parameters of trials belonging to studies run by an unseeded algorithm."""
  if isinstance(x, dict):
    if 'params' in x and 'name' in x and any(x['name'].startswith(s + '/') for s in random_studies):
      x = dict(x)
      x['params'] = sorted(x['params'])
    return {k: mask_random(v, random_studies) for k, v in x.items()}
  if isinstance(x, list):
    return [mask_random(v, random_studies) for v in x]
  return x


def run_case(ctx, index, calls=None):
  from vv import model as model_lib
  from vv import rpcprog
  from vv import service as S
  rng = ctx.rng(index)
  tmp = tempfile.mkdtemp(prefix='vv-c07-', dir=os.environ.get('VV_TMP'))
  try:
    recycle = [0.0, 60.0][index % 2]
    ram = rpcprog.ProgramRunner('ram', early_stop_recycle_s=recycle)
    others = {
        'sqlmem': S.make_servicer('sqlmem', S.Controller(), S.WriteMonitor(), early_stop_recycle_s=recycle),
        'sqlfile': S.make_servicer(f'sqlite:///{tmp}/v.db', S.Controller(), S.WriteMonitor(),
                                   early_stop_recycle_s=recycle),
    }
    n = rng.choice([8, 12, 20, 30, 40]) if calls is None else len(calls)
    executed = []
    random_studies = set()
    op_names = set()
    events = {'recreate': 0, 'failed_md': 0}
    deleted = set()
    tail = []          # scripted continuation, generated against the state reached (see below)
    k = -1
    while True:
      k += 1
      if k >= n:
        if calls is not None:
          break
        if k == n and index % 3 == 0:
          tail = id_reuse_tail(rng, ram, random_studies)
          if tail:
            ctx.count('id_reuse_tails_run')
        if k - n >= len(tail):
          break
        call = tail[k - n]
        if callable(call):
          call = call(ram)
          if call is None:
            break
      else:
        call = calls[k] if calls is not None else rpcprog.gen_call(rng, ram.model, WEIGHTS, PROFILE)
      executed.append(call)
      case = {'calls': executed[:], 'index': index}
      if call['op'] == 'CreateStudy' and call.get('algo') == 'RANDOM_SEARCH' and call.get('display'):
        random_studies.add(S.study_name(call['owner'], call['display']))
      if call['op'] == 'CreateStudy' and call.get('display'):
        nm = S.study_name(call['owner'], call['display'])
        if nm in deleted and nm not in ram.model.studies:
          events['recreate'] += 1
      ram_reach0 = (ram.controller.suggest_calls, ram.controller.early_stop_calls)
      disc = ram.step(call)
      ram_reach = (ram.controller.suggest_calls - ram_reach0[0], ram.controller.early_stop_calls - ram_reach0[1])
      ram_raw = ram.last_raw
      for d in disc:
        ctx.violation('ram-vs-model:' + c01.classify(d, call),
                      f'RAM backend vs reference model: {d["kind"]} at step {d["step"]} ({d["op"]}): {d["what"]}'[:500],
                      case, d)
      ram_out = ram.trace[-1]['outcome']
      if call['op'] == 'DeleteStudy' and ram_out == 'OK':
        deleted.add(call['study'])
      # the RAM response was consumed by the model; re-derive it for comparison
      ram_resp = ram.last_response
      if call['op'] == 'UpdateMetadata' and ram_out == 'OK' and isinstance(ram_resp, dict) and ram_resp.get('error_details'):
        events['failed_md'] += 1
      if call['op'] == 'SuggestTrials' and ram_out == 'OK':
        op_names.add(ram_resp['name'])
      ram_snap = mask_random(S.snapshot(ram.servicer, ram.owners), random_studies)
      bad = False
      for name, sv in others.items():
        ctl = sv.vv_controller
        ctl.plan.clear()
        ctl.es_plan.clear()
        ctl.stub_studies = ram.controller.stub_studies
        if call.get('_stub_entry') is not None:
          ctl.plan.append(dict(call['_stub_entry']))
        if call.get('_es_entry') is not None:
          ctl.es_plan.append(dict(call['_es_entry']))
        reach0 = (ctl.suggest_calls, ctl.early_stop_calls)
        ocls, oresp, oraw = S.call_servicer(sv, call)
        ctl.plan.clear()
        ctl.es_plan.clear()
        reach = (ctl.suggest_calls - reach0[0], ctl.early_stop_calls - reach0[1])
        ctx.count('calls_compared_3way')
        if malformed(call) and {ocls, ram_out} <= {'INVALID', 'NOT_FOUND'}:
          ctx.count('malformed_names_rejected_by_all')
          ocls = ram_out
        if ocls != ram_out:
          ctx.violation(f'outcome-differs:{call["op"]}:ram={ram_out}:{name}={ocls}',
                        f'step {k} {call["op"]}: RAM -> {ram_out}, {name} -> {ocls} ({str(oresp)[:150]})', case)
          bad = True
          continue
        # the harness algorithm is deterministic: every backend must consult it equally
        # often (a backend that keeps answering from a stored operation never does) ...
        ctx.count('algorithm_reach_compared')
        if reach != ram_reach:
          ctx.violation(f'algorithm-reach-differs:{call["op"]}:{name}',
                        f'step {k} {call["op"]}: the algorithm was consulted (suggest, early-stop) = {ram_reach} times behind RAM '
                        f'but {reach} times behind {name}', case)
          bad = True
        # ... and its early-stopping decision must come back the same
        if (call['op'] == 'CheckTrialEarlyStoppingState' and ocls == 'OK' and ram_out == 'OK'
            and call['trial'].split('/trials/')[0] in ram.controller.stub_studies):
          ctx.count('early_stop_answers_compared')
          if bool(oraw.should_stop):
            ctx.count('early_stop_answers_true')
          if bool(oraw.should_stop) != bool(ram_raw.should_stop):
            ctx.violation(f'early-stop-answer-differs:{name}',
                          f'step {k}: CheckTrialEarlyStoppingState answered should_stop={bool(ram_raw.should_stop)} behind RAM and '
                          f'{bool(oraw.should_stop)} behind {name} (same deterministic algorithm decision {call.get("_es_entry")})', case)
            bad = True
        if ocls == 'OK':
          d = model_lib.diff(mask_random(ram_resp, random_studies), mask_random(oresp, random_studies))
          if d:
            ctx.violation(f'response-differs:{call["op"]}:{name}',
                          f'step {k} {call["op"]}: response of {name} differs from RAM at {d}'[:500], case)
            bad = True
        snap = mask_random(S.snapshot(sv, ram.owners), random_studies)
        ctx.count('snapshots_compared_3way')
        d = model_lib.diff(ram_snap, snap)
        if d:
          ctx.violation(f'stored-state-differs:{call["op"]}:{name}',
                        f'after step {k} {call["op"]}: stored state of {name} differs from RAM at {d}'[:500], case)
          bad = True
        if name == 'sqlfile':
          # what the server sees through its own connection must be what is committed to the file
          ctx.count('committed_equals_visible_checked')
          pend = S.uncommitted_writes(sv, f'{tmp}/v.db')
          if pend:
            ctx.violation(f'acknowledged-write-not-committed:{call["op"]}',
                          f'after step {k} {call["op"]} ({ocls}) the SQLite file lacks changes the server already shows: {pend}'[:500], case)
            bad = True
        for kind, detail in sv.datastore._mon.anomalies:
          ctx.violation(f'monitor:{kind}:{name}', f'{name}: {kind} {detail}'[:400], case)
          bad = True
        sv.datastore._mon.anomalies.clear()
      if disc or bad:
        break
    # final: operations
    for opn in sorted(op_names):
      views = {}
      for name, sv in [('ram', ram.servicer)] + list(others.items()):
        ocls, oresp, _ = S.call_servicer(sv, {'op': 'GetOperation', 'name': opn})
        views[name] = (ocls, mask_random(oresp, random_studies) if ocls == 'OK' else None)
      ctx.count('operations_compared')
      for name in ('sqlmem', 'sqlfile'):
        if views[name][0] != views['ram'][0] or (views['ram'][0] == 'OK' and model_lib.diff(views['ram'][1], views[name][1])):
          ctx.violation(f'operation-differs:{name}', f'GetOperation({opn}) differs between RAM and {name}',
                        {'calls': executed[:], 'index': index}, {k2: str(v)[:300] for k2, v in views.items()})
    ctx.count('study_recreations', events['recreate'])
    ctx.count('failed_metadata_updates', events['failed_md'])
    cov = ram.coverage
    illegal = sum(1 for (_, _, o) in cov if o != 'OK')
    ctx.case(sorted(set(map(str, cov))), nontrivial=bool(events['recreate'] or events['failed_md'] or illegal))
    return executed
  finally:
    shutil.rmtree(tmp, ignore_errors=True)


def id_reuse_tail(rng, ram, random_studies):
  """What is kept *about* a trial (early-stopping decision, operations) when the trial is
  deleted and its id is handed out again: hand out a trial, have the algorithm decide about
  it, delete it, hand out the next trial (same id when it was the newest), ask again."""
  from vv import service as S
  cands = sorted(sn for sn, st in ram.model.studies.items()
                 if st['study']['state'] in ('ACTIVE', 'STATE_UNSPECIFIED') and st['study']['algo'] == S.STUB
                 and sn not in random_studies)
  if not cands:
    return []
  sn = rng.choice(cands)
  box = {}

  def first(r):
    return {'op': 'SuggestTrials', 'study': sn, 'count': 1, 'client': 'tail-a', '_stub_entry': {'delta': 0}}

  def check1(r):
    resp = r.last_response
    if not (isinstance(resp, dict) and resp.get('trials')):
      return None
    box['t'] = resp['trials'][0]['name']
    return {'op': 'CheckTrialEarlyStoppingState', 'trial': box['t'], '_es_entry': {'stop': True}}

  def delete(r):
    return {'op': 'DeleteTrial', 'trial': box['t']}

  def second(r):
    return {'op': 'SuggestTrials', 'study': sn, 'count': 1, 'client': 'tail-b', '_stub_entry': {'delta': 0}}

  def check2(r):
    resp = r.last_response
    if not (isinstance(resp, dict) and resp.get('trials')):
      return None
    return {'op': 'CheckTrialEarlyStoppingState', 'trial': resp['trials'][0]['name'], '_es_entry': {'stop': False}}
  return [first, check1, delete, second, check2]


def run_shard(ctx):
  n = 500 if ctx.tier == 'quick' else 20000
  for i in range(n):
    if not ctx.mine(i):
      continue
    if ctx.out_of_time():
      ctx.note(f'time budget reached at program {i}')
      break
    executed = run_case(ctx, i)
    if i < ctx.nshards:
      ctx.sample({'calls': executed[:6], 'n_calls': len(executed)})


def replay(ctx, case):
  run_case(ctx, case.get('index', 0), calls=case['calls'])
