"""C06 — a failing algorithm is reported and never wedges the study.

Fault-injecting harness algorithm (exceptions of 8 types at suggest / early-stop
time, at the 1st / k-th / every call; deliveries of 0..N+k) behind the real
servicer, in-process Pythia and the split (remote gRPC) Pythia deployment. After
every fault: the failure must be reported (finished operation with error, or an
error status), no stored operation may stay unfinished, a later request by the
same and by another worker must reach the algorithm again and terminate, and
the stored trials must satisfy the lifecycle invariants (write monitor + model).
"""
import json

from vv.checks import c01

PROPERTY = 'C06'
LEVEL = 'fault_enumeration'
RULE = ('scenario = setup calls, one or more injected faults (exception type x site {policy.suggest, early-stop, building the '
        'algorithm in the policy factory} x '
        'schedule {first, k-th, every} or delivery delta in {-N..+3}), then 2..8 follow-up calls by the same and '
        'other workers with the fault switched off; deployments: in-process Pythia on RAM / in-memory SQLite, and '
        'remote Pythia over gRPC. Non-trivial = a fault actually fired and a reach-again probe ran after it; '
        'distinct = hash of (deployment, fault kind, site, schedule, pool/own-active situation, follow-up ops).')
ASSUMPTIONS = [
    'the harness algorithm is plugged in through the documented policy_factory argument of PythiaServicer / '
    'DefaultVizierServer / DistributedPythiaVizierServer',
    'a failing early-stopping check may surface as any error class; a failing suggest must come back as a '
    'finished operation carrying an error (servicer docstring) or an error status',
    'early_stop_recycle_period is 0 so that a later check is entitled to reach the algorithm again',
    'bounded progress: one client call; the polling loop of VizierClient is exercised separately with a poll cap',
]
REQUIRED_COUNTERS = ['faults_fired', 'faults_fired_while_building_algorithm', 'reach_again_checked', 'faults_fired_suggest', 'faults_fired_early_stop',
                     'short_deliveries', 'unfinished_operation_scans', 'client_poll_probes']
MIN_DISTINCT = {'quick': 120, 'thorough': 1000}

EXC = ['ValueError', 'KeyError', 'RuntimeError', 'StubFault', 'AssertionError', 'TypeError',
       'ZeroDivisionError', 'RpcError',
       # the error classes the Pythia interface documents for policies (retryable / not)
       'TemporaryPythiaError', 'InactivateStudyError', 'LoadTooLargeError', 'CancelComputeError']
DEPLOYMENTS = ['local-ram', 'local-sqlmem', 'split-ram']


def plan(tier, seed):
  return {'shards': 12 if tier == 'quick' else 16, 'budget_s': 70 if tier == 'quick' else 1000}


def classify(d, call):
  what, op = d['what'], d['op']
  ent = call.get('_stub_entry') or {}
  es = call.get('_es_entry') or {}
  fault = ent.get('raise') or es.get('raise')
  if d['kind'] == 'unfinished-operation':
    return f'operation-left-unfinished:{d.get("site", "?")}'
  if d['kind'] == 'algorithm-reach':
    return f'algorithm-not-reached-again:{op}'
  if d['kind'] == 'es-not-reached':
    return 'early-stop-answered-from-abandoned-operation'
  if 'outcome CRASH' in what and op == 'SuggestTrials':
    exc = what.split('(')[1].split(':')[0] if '(' in what else '?'
    return f'suggest-exception-escaped:{exc}:' + ('fault' if fault else ('short' if ent.get('delta', 0) < 0 else 'none'))
  if 'not done' in what or 'does not end with' in what:
    return 'answered-from-abandoned-operation'
  return c01.classify(d, call)


def scan_unfinished(runner, site):
  """No stored suggestion operation may be left done=False once a call returned."""
  out = []
  ds = runner.servicer.datastore
  for sname, st in runner.model.studies.items():
    for client in ('w1', 'w2', 'w3'):
      try:
        ops = ds.list_suggestion_operations(sname, client, lambda op: not op.done)
      except Exception:  # pylint: disable=broad-except
        continue
      for op in ops:
        out.append({'kind': 'unfinished-operation', 'site': site,
                    'what': f'stored operation {op.name} is done=False after the call returned'})
  return out


def gen_scenario(rng):
  """Returns list of calls (dicts) forming one fault scenario."""
  study = 'owners/o1/studies/s1'
  calls = [{'op': 'CreateStudy', 'owner': 'o1', 'display': 's1', 'algo': 'VVSTUB'}]
  # ---- setup ---------------------------------------------------------------
  for _ in range(rng.randint(0, 4)):
    r = rng.random()
    if r < 0.45:
      calls.append({'op': 'SuggestTrials', 'study': study, 'count': rng.choice([1, 2, 3]),
                    'client': rng.choice(['w1', 'w2']), '_stub_entry': {'delta': rng.choice([0, 0, 1])}})
    elif r < 0.7:
      calls.append({'op': 'CreateTrial', 'study': study, 'params': {'x': 0.5, 'k': 1, 'c': 'a'}})
    else:
      calls.append({'op': 'CompleteTrial', 'trial': f'{study}/trials/{rng.randint(1, 3)}',
                    'final': {'metrics': {'obj': rng.uniform(0, 1)}}})
  # ---- faults + follow-ups ---------------------------------------------------
  site = rng.choice(['suggest', 'suggest', 'suggest', 'early_stop'])
  schedule = rng.choice(['first', 'kth', 'every'])
  kind = rng.choice(['raise', 'raise', 'short', 'zero', 'over', 'build', 'build'])
  exc = rng.choice(EXC)
  n_fault_calls = 1 if schedule == 'first' else rng.randint(2, 3)
  from vv import service as S
  msg = S.gen_msg_spec(rng) if kind in ('raise', 'build') else None
  meta = {'site': site, 'schedule': schedule, 'kind': kind, 'exc': exc if kind == 'raise' else None,
          'msg': (msg[0] if msg else 'plain')}

  # the algorithm fails for the whole request: every further algorithm call made while this
  # request is being served (a service may retry) meets the same failure. (A single transient
  # failure followed by a successful retry is not "a failing algorithm" and is not judged.)
  persist = 50

  def fault_entry(count):
    if kind == 'raise':
      return {'raise': exc, 'msg': msg, 'repeat': persist}
    if kind == 'short':
      return {'delta': -rng.randint(1, count)}
    if kind == 'zero':
      return {'delta': -count - 5}
    return {'delta': rng.randint(1, 3)}

  for j in range(n_fault_calls):
    faulty = (schedule != 'kth') or (j == n_fault_calls - 1)
    if site == 'suggest' or kind == 'build':
      count = rng.choice([1, 2, 3, 5])
      # a big count so that the algorithm is certainly needed
      c = {'op': 'SuggestTrials', 'study': study, 'count': count + 6, 'client': rng.choice(['w1', 'w1', 'w2']),
           '_stub_entry': {'delta': 0}, '_fault': faulty}
      if kind == 'build':
        # the failure happens while the algorithm is being built (policy factory /
        # constructor), i.e. outside policy.suggest(): it is not wrapped in RuntimeError
        if faulty:
          c['_factory_fault'] = {'site': rng.choice(['factory', 'constructor']), 'raise': exc, 'msg': msg, 'repeat': persist}
      elif faulty:
        c['_stub_entry'] = fault_entry(count + 6)
      calls.append(c)
    else:
      # needs an ACTIVE trial to check
      calls.append({'op': 'SuggestTrials', 'study': study, 'count': 1, 'client': 'w1',
                    '_stub_entry': {'delta': 0}})
      calls.append({'op': 'CheckTrialEarlyStoppingState', 'trial': f'{study}/trials/{rng.randint(1, 2)}',
                    '_es_entry': {'raise': exc, 'msg': msg, 'repeat': persist} if (faulty and kind == 'raise') else {},
                    '_fault': faulty and kind == 'raise'})
  # follow-ups with the fault off
  for _ in range(rng.randint(2, 8)):
    r = rng.random()
    if r < 0.5:
      calls.append({'op': 'SuggestTrials', 'study': study, 'count': rng.choice([1, 2, 12, 20]),
                    'client': rng.choice(['w1', 'w2', 'w3']), '_stub_entry': {'delta': 0}, '_probe': True})
    elif r < 0.65:
      calls.append({'op': 'CheckTrialEarlyStoppingState', 'trial': f'{study}/trials/{rng.randint(1, 4)}',
                    '_es_entry': {}, '_probe': True})
    elif r < 0.85:
      calls.append({'op': 'CompleteTrial', 'trial': f'{study}/trials/{rng.randint(1, 6)}',
                    'final': {'metrics': {'obj': rng.uniform(0, 1)}}})
    else:
      calls.append({'op': 'CreateTrial', 'study': study, 'params': {'x': 0.25, 'k': 2, 'c': 'b'},
                    'state': 'SUCCEEDED', 'final': {'metrics': {'obj': 0.5}}})
  # always end with a probe by the faulted worker and by another one
  calls.append({'op': 'SuggestTrials', 'study': study, 'count': 25, 'client': 'w1',
                '_stub_entry': {'delta': 0}, '_probe': True})
  calls.append({'op': 'SuggestTrials', 'study': study, 'count': 25, 'client': 'w3',
                '_stub_entry': {'delta': 0}, '_probe': True})
  return calls, meta


def run_scenario(ctx, index, deployment, calls, meta, servers):
  from vv import rpcprog
  from vv import service as S
  kind, backend = deployment.split('-')
  if kind == 'local':
    runner = rpcprog.ProgramRunner(backend)
    server = None
  else:
    mon = S.WriteMonitor()
    ctl = S.Controller()
    server, servicer = S.make_split(backend, ctl, mon)
    runner = rpcprog.ProgramRunner(backend, servicer=servicer)
    runner.monitor, runner.controller = mon, ctl
  try:
    fired_before = 0
    executed = []
    any_fault = False
    probes_after_fault = 0
    for call in calls:
      executed.append(call)
      es_before = runner.controller.early_stop_calls
      log_before = len(runner.controller.log)
      disc = runner.step(call)
      site = 'early_stop' if call['op'] == 'CheckTrialEarlyStoppingState' else 'suggest'
      disc += scan_unfinished(runner, site)
      ctx.count('unfinished_operation_scans')
      reached = len(runner.controller.log) > log_before or (
          call.get('_factory_fault') is not None and bool(runner.controller.factory_fault_log))
      if call.get('_factory_fault') is not None and runner.controller.factory_fault_log:
        ctx.count('faults_fired_while_building_algorithm')
        ctx.count('exceptions_injected_at_build:' + call['_factory_fault']['raise'])
        runner.controller.factory_fault_log.clear()
      if call.get('_fault') and reached:
        any_fault = True
        ctx.count('faults_fired')
        ctx.count('faults_fired_' + site)
        ent = call.get('_stub_entry') or {}
        if ent.get('delta', 0) < 0:
          ctx.count('short_deliveries')
        if ent.get('raise') or (call.get('_es_entry') or {}).get('raise'):
          ctx.count('exceptions_injected:' + (ent.get('raise') or call['_es_entry']['raise']))
      if call.get('_probe') and any_fault:
        probes_after_fault += 1
        ctx.count('reach_again_checked')
        if site == 'early_stop':
          outcome = runner.trace[-1]['outcome']
          if outcome == 'OK' and runner.controller.early_stop_calls == es_before:
            disc.append({'kind': 'es-not-reached', 'step': len(runner.trace) - 1, 'op': call['op'], 'pre': '-',
                         'outcome': outcome,
                         'what': 'early-stopping check after a failed one did not reach the algorithm '
                                 '(recycle period 0): answered from the abandoned operation'})
      for d in disc:
        d.setdefault('step', len(runner.trace) - 1)
        d.setdefault('op', call['op'])
        d.setdefault('pre', '-')
        d.setdefault('outcome', runner.trace[-1]['outcome'])
        ctx.violation(classify(d, call),
                      f'{deployment} {d["kind"]} at step {d["step"]} ({d["op"]}, outcome={d["outcome"]}): {d["what"]}'[:600],
                      {'deployment': deployment, 'calls': executed[:], 'meta': meta, 'index': index}, d)
      if disc:
        break
    ctx.count('calls_checked', len(runner.coverage))
    ctx.count('datastore_writes_checked', runner.monitor.writes)
    ctx.case([deployment, meta, sorted({c['op'] for c in calls}), len(calls) // 4],
             nontrivial=any_fault and probes_after_fault > 0)
    return runner
  finally:
    if server is not None:
      S.stop_server(server)


def client_poll_probe(ctx, index):
  """VizierClient.get_suggestions after an algorithm failure terminates within a poll cap."""
  import time
  from vv import service as S
  from vizier._src.service import vizier_client
  rng = ctx.rng(index, 'poll')
  ctl = S.Controller()
  mon = S.WriteMonitor()
  servicer = S.make_servicer(rng.choice(['ram', 'sqlmem']), ctl, mon)
  servicer.CreateStudy(S.build_request({'op': 'CreateStudy', 'owner': 'o1', 'display': 's1'})[1])
  client = vizier_client.VizierClient(study_resource_name='owners/o1/studies/s1', client_id='w1',
                                      service=servicer)
  polls = {'n': 0}
  real_get = servicer.GetOperation

  class PollCap(Exception):
    pass

  def counting_get(req, context=None):
    polls['n'] += 1
    if polls['n'] > 20:
      raise PollCap()
    return real_get(req)
  servicer.GetOperation = counting_get
  old = vizier_client.environment_variables.new_suggestion_polling_secs
  vizier_client.environment_variables.new_suggestion_polling_secs = 0.0
  # logical polls, not wall clock: the client's back-off sleeps (>= 0.3 s each) are skipped
  real_time = vizier_client.time

  class _NoSleep:
    def __getattr__(self, name):
      return getattr(real_time, name)

    def sleep(self, secs):
      del secs
  vizier_client.time = _NoSleep()
  exc = rng.choice(EXC)
  msg = S.gen_msg_spec(rng)
  site = rng.choice(['suggest', 'build'])
  case = {'probe': 'client-poll', 'exc': exc, 'index': index, 'site': site, 'msg': msg}
  try:
    if site == 'build':
      ctl.factory_faults.append({'site': 'factory', 'raise': exc, 'msg': msg, 'repeat': 50})
    else:
      ctl.plan.append({'raise': exc, 'msg': msg, 'repeat': 50})
    try:
      got = client.get_suggestions(suggestion_count=2)
      first = 'returned'
      # the algorithm raised: the caller of the client must be told, a normal
      # return (an empty list reads as "search space exhausted") hides the failure
      ctx.violation(f'client-failure-not-reported:{site}',
                    f'the algorithm raised {exc} (text shape {msg[0] if msg else "plain"}, site {site}) but '
                    f'VizierClient.get_suggestions returned normally with {len(got)} trials', case)
      return
    except PollCap:
      ctx.violation('client-polls-forever:after-failure', 'get_suggestions exceeded 20 polls on the failing call', case)
      return
    except Exception as e:  # pylint: disable=broad-except
      first = type(e).__name__
    ctl.plan.clear()
    ctl.factory_faults.clear()
    polls['n'] = 0
    try:
      trials = client.get_suggestions(suggestion_count=2)
      if len(trials) != 2:
        ctx.violation('client-retry-wrong-count', f'retry after {exc} returned {len(trials)} trials', case)
    except PollCap:
      ctx.violation('client-polls-forever:retry', f'after a failed suggest ({exc}, first call: {first}) the same worker '
                    'polls an unfinished operation forever (cap 20)', case)
    except Exception as e:  # pylint: disable=broad-except
      ctx.violation(f'client-retry-raised:{type(e).__name__}', f'retry after {exc} raised {type(e).__name__}: {e}', case)
    ctx.count('client_poll_probes')
    ctx.count('client_poll_probes_site_' + site)
    ctx.count('client_poll_probes_text_' + (msg[0] if msg else 'plain'))
    ctx.case(['client-poll', exc, first, site, msg[0] if msg else 'plain'], True)
  finally:
    vizier_client.environment_variables.new_suggestion_polling_secs = old
    vizier_client.time = real_time


def run_shard(ctx):
  n = 700 if ctx.tier == 'quick' else 30000
  for i in range(n):
    if not ctx.mine(i):
      continue
    if ctx.out_of_time():
      ctx.note(f'time budget reached at scenario {i}')
      break
    rng = ctx.rng(i)
    deployment = DEPLOYMENTS[(i // ctx.nshards) % len(DEPLOYMENTS)]
    if rng.random() < 0.08:
      client_poll_probe(ctx, i)
      continue
    calls, meta = gen_scenario(rng)
    run_scenario(ctx, i, deployment, calls, meta, None)
    if i < ctx.nshards:
      ctx.sample({'deployment': deployment, 'meta': meta, 'calls': calls[:8], 'n_calls': len(calls)})


def replay(ctx, case):
  if case.get('probe') == 'client-poll':
    client_poll_probe(ctx, case['index'])
    return
  run_scenario(ctx, case.get('index', 0), case['deployment'], case['calls'], case.get('meta', {}), None)
