"""C02 — suggest hands out exactly the requested trials, sticky per worker, fresh ids.

Same engine as C01 (generated programs, reference model following the observed
choice, datastore write monitor) with a workload restricted to the calls the
property quantifies over and a delivery-shaping harness algorithm: exactly N,
more (surplus must be queued as REQUESTED), fewer, none.
"""
from vv.checks import c01

PROPERTY = 'C02'
LEVEL = 'exploration'
RULE = ('programs of 8..40 calls drawn from SuggestTrials (N in 1..5, 3 workers), CompleteTrial, '
        'CreateTrial (REQUESTED / SUCCEEDED), DeleteTrial, StopTrial, AddTrialMeasurement on 1-2 studies; the '
        'harness algorithm delivers N+delta, delta in {-N..+3}. Non-trivial = program with >=1 re-ask while '
        'holding ACTIVE trials and >=1 suggest reaching the algorithm; distinct = hash of the multiset of '
        '(RPC, pre-state, outcome) triples + suggest-event profile.')
ASSUMPTIONS = [
    'suggest monitor = ServiceModel._follow_suggest: |response| == min(N, own ACTIVE + REQUESTED pool + delivered); '
    'own ACTIVE trials first (id order) and nothing created when they cover N; pool before algorithm; every returned '
    'trial ACTIVE and owned by the caller; new ids > every id present; surplus queued as REQUESTED (checked on the '
    'stored state); operation numbering 1..k per (study, worker)',
    'which REQUESTED trial is handed out, and which delivered suggestion becomes ACTIVE vs queued, is unspecified: the '
    'model follows the observation inside the allowed set',
]
REQUIRED_COUNTERS = ['suggests_with_own_active', 'sticky_reasks_fully_covered', 'suggests_from_pool',
                     'over_deliveries', 'under_deliveries', 'exact_deliveries', 'datastore_writes_checked']
MIN_DISTINCT = {'quick': 150, 'thorough': 3000}

WEIGHTS = {'CreateStudy': 3, 'SuggestTrials': 30, 'CompleteTrial': 14, 'CreateTrial': 10, 'DeleteTrial': 5,
           'StopTrial': 3, 'AddTrialMeasurement': 3, 'ListTrials': 1, 'GetOperation': 2, 'SetStudyState': 1}
PROFILE = {'algos': ['VVSTUB'] * 9 + ['RANDOM_SEARCH'], 'deltas': [0, 0, 0, 1, 2, 3, -1, -1, -2, -5]}


def plan(tier, seed):
  return {'shards': 12 if tier == 'quick' else 16, 'budget_s': 70 if tier == 'quick' else 1000}


def classify(d, call):
  what = d['what']
  if d['op'] == 'SuggestTrials':
    if 'outcome CRASH' in what:
      exc = what.split('(')[1].split(':')[0] if '(' in what else '?'
      delta = (call.get('_stub_entry') or {}).get('delta', 0)
      return f'suggest-crash:{exc}:' + ('under-delivery' if delta < 0 else 'other')
    for key, tag in [('not returned first', 'own-active-not-first'), ('REQUESTED pool', 'pool-misuse'),
                     ('expected', 'wrong-count'), ('did not deliver', 'foreign-parameters'),
                     ('not larger than', 'id-not-fresh'), ('not ACTIVE', 'not-active-or-wrong-owner'),
                     ('operation name', 'operation-numbering'), ('although own ACTIVE', 'created-needlessly'),
                     ('returned twice', 'duplicate-in-response'), ('not done', 'operation-not-done'),
                     ('carries error', 'unexpected-error')]:
      if key in what:
        return f'suggest:{tag}'
    if d['kind'] == 'state':
      return 'suggest:stored-state-mismatch'
  return c01.classify(d, call)


def run_shard(ctx):
  n_programs = 1400 if ctx.tier == 'quick' else 60000
  for i in range(n_programs):
    if not ctx.mine(i):
      continue
    if ctx.out_of_time():
      ctx.note(f'time budget reached at program {i}')
      break
    backend = c01.BACKENDS[(i // ctx.nshards) % 2]
    runner, executed = c01.run_program(ctx, i, backend, weights=WEIGHTS, profile=PROFILE,
                                       prop_classify=classify)
    account(ctx, runner, executed, backend)
    if i < ctx.nshards:
      ctx.sample({'backend': backend, 'calls': executed[:6], 'n_calls': len(executed),
                  'suggest_events': dict(runner.model.events)})


def account(ctx, runner, executed, backend):
  ev = runner.model.events
  for k, v in ev.items():
    ctx.count(k, v)
  ctx.count('calls_checked', len(runner.coverage))
  ctx.count('datastore_writes_checked', runner.monitor.writes)
  ctx.count('algorithm_calls_observed', runner.controller.suggest_calls)
  nontrivial = ev.get('suggests_with_own_active', 0) > 0 and ev.get('suggests_reaching_algorithm', 0) > 0
  ctx.case(sorted(set(map(str, runner.coverage))) + [backend, sorted(ev)], nontrivial)


def replay(ctx, case):
  runner, executed = c01.run_program(ctx, case.get('index', 0), case['backend'], calls=case['calls'],
                                     prop_classify=classify)
  account(ctx, runner, executed, case['backend'])
