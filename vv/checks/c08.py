"""C08 — local, gRPC and split-Pythia deployments behave identically for clients.

Generated client programs (clients.Study / clients.Trial methods incl. error
paths) are replayed through the real client library against
  local  : the implicit in-process service (NO_ENDPOINT),
  grpc   : DefaultVizierServer over a real gRPC channel,
  split  : DistributedPythiaVizierServer (algorithms behind a second gRPC hop),
each on the RAM and the in-memory SQLite datastore. Every method call is
recorded at the client boundary (normalised return value or exception class);
the six traces must be equal, the exceptions promised by client_abc must be
raised in every deployment, and a datastore write monitor on the server side of
every deployment asserts the trial-lifecycle invariants (an illegal call that is
"rejected" over the wire must not have changed stored data).
"""
import json

PROPERTY = 'C08'
LEVEL = 'exploration'
RULE = ('client programs of 6..25 method calls (create/load, suggest by 1-2 workers, complete feasible/infeasible/without '
        'measurement, add_measurement, stop, early-stop check, delete trial, get_trial existing/missing, trials(), '
        'optimal_trials(), add_trial inside/outside the space, request, update_metadata study/trial/missing trial, set_state, '
        'materialize_*, from_resource_name / from_owner_and_id on existing and missing studies, delete study and use it '
        'afterwards, second operations on completed trials) with the deterministic harness algorithm or GRID_SEARCH; each '
        'program runs on 6 deployment x datastore combinations under a fresh owner. Non-trivial = program with >=1 error path '
        'and >=1 completed trial; distinct = hash of the op-kind sequence + outcome classes.')
ASSUMPTIONS = [
    'exception classes are compared after mapping to {ResourceNotFoundError, NOT_FOUND (datastore NotFoundError in process == '
    'status NOT_FOUND over the wire), ValueError, RuntimeError, KeyError, RpcError:<other status code>, other type name}; '
    'messages are not compared',
    'the early-stopping boolean is masked; timestamps are not compared',
    'the harness algorithm is plugged in through the documented policy_factory argument of the servers and of PythiaServicer',
    'the implicit local service is configured through vizier_client.environment_variables (documented knob)',
]
REQUIRED_COUNTERS = ['concurrent_study_probes_run', 'traces_compared', 'calls_recorded', 'not_found_paths', 'illegal_calls_over_wire',
                     'promise_checks', 'server_writes_monitored']
MIN_DISTINCT = {'quick': 60, 'thorough': 1500}
DEPLOYMENTS = [('local', 'ram'), ('local', 'sqlmem'), ('grpc', 'ram'), ('grpc', 'sqlmem'), ('split', 'ram'), ('split', 'sqlmem')]


def plan(tier, seed):
  return {'shards': 12 if tier == 'quick' else 16, 'budget_s': 75 if tier == 'quick' else 1100}


# ---------------------------------------------------------------------------
# program generation
# ---------------------------------------------------------------------------
def gen_program(rng):
  from vv import gen
  from vv import service as S
  ops = [{'k': 'create', 'algo': rng.choice(['VVSTUB'] * 6 + ['GRID_SEARCH'] * 3 + ['ALGORITHM_NOBODY_REGISTERED']),
          'metrics': rng.choice([[['obj', 'MAXIMIZE']], [['obj', 'MINIMIZE']], [['obj', 'MAXIMIZE'], ['cost', 'MINIMIZE']]])}]
  n = rng.randint(6, 25)
  for _ in range(n):
    r = rng.random()
    tid = rng.choice([1, 1, 2, 2, 3, 4, 9, 77])
    if r < 0.2:
      ops.append({'k': 'suggest', 'count': rng.choice([1, 2, 3]), 'w': rng.choice(['w1', 'w2'])})
    elif r < 0.36:
      c = {'k': 'complete', 't': tid}
      x = rng.random()
      if x < 0.6:
        c['m'] = {'obj': rng.choice([0.0, 1.0, 2.5, -1.0]), 'cost': rng.choice([0.0, 3.0])}
      elif x < 0.8:
        c['infeasible'] = rng.choice(['', 'bad'])
      ops.append(c)
    elif r < 0.44:
      ops.append({'k': 'measure', 't': tid, 'm': {'obj': rng.choice([0.1, 0.2])}, 'steps': rng.choice([1, 2]), 'secs': rng.choice([0.0, 1.5])})
    elif r < 0.49:
      ops.append({'k': 'stop', 't': tid})
    elif r < 0.53:
      ops.append({'k': 'early', 't': tid})
    elif r < 0.58:
      ops.append({'k': 'delete_trial', 't': tid})
    elif r < 0.66:
      ops.append({'k': 'get_trial', 't': tid})
    elif r < 0.71:
      ops.append({'k': 'trials'})
    elif r < 0.76:
      ops.append({'k': 'optimal'})
    elif r < 0.82:
      p = gen.sample_point(rng, S.SPACE_DESC)
      if rng.random() < 0.35:
        p = dict(p)
        bad = rng.choice(['range', 'missing', 'extra', 'type'])
        if bad == 'range':
          p['x'] = 1.5
        elif bad == 'missing':
          del p['k']
        elif bad == 'extra':
          p['zz'] = 1.0
        else:
          p['c'] = 'nope'
      ops.append({'k': 'add_trial', 'p': p, 'done': rng.random() < 0.5, 'v': rng.choice([0.5, 1.5])})
    elif r < 0.86:
      ops.append({'k': 'request', 'p': gen.sample_point(rng, S.SPACE_DESC)})
    elif r < 0.91:
      # 'big': a bulky value (tens of kilobytes, e.g. a serialised model) - whatever the
      # server later says about that trial or study must still travel over the wire
      ops.append({'k': 'md', 't': rng.choice([None, None, tid, tid]), 'ns': rng.choice(['', 'a', 'a:b']), 'key': rng.choice(['k', 'k2']),
                  'v': rng.choice(['v', '', 'v', 'big20k', 'big70k'])})
    elif r < 0.94:
      ops.append({'k': 'set_state', 's': rng.choice(['ACTIVE', 'ABORTED', 'COMPLETED'])})
    elif r < 0.96:
      ops.append({'k': 'state'})
    elif r < 0.98:
      ops.append({'k': 'load', 'how': rng.choice(['name', 'owner_id']), 'missing': rng.random() < 0.6})
    else:
      ops.append({'k': 'delete_study'})
  ops.append({'k': 'trials'})
  ops.append({'k': 'config'})
  return ops


# ---------------------------------------------------------------------------
# execution at the client boundary
# ---------------------------------------------------------------------------
def norm_trial(t):
  fm = t.final_measurement
  return {'id': t.id, 'status': t.status.name, 'infeasible': t.infeasible,
          'params': {k: v.value for k, v in t.parameters.items()},
          'final': None if fm is None else {k: m.value for k, m in fm.metrics.items()},
          'n_meas': len(t.measurements),
          'reason': t.infeasibility_reason,
          'md': sorted((list(ns), k, _short(v)) for ns, k, v in t.metadata.all_items())}


def _short(v):
  v = str(v)
  if len(v) > 200:
    import hashlib
    return f'<{len(v)} chars sha1={hashlib.sha1(v.encode()).hexdigest()[:12]}>'
  return v


def exc_class(e):
  import grpc
  from vizier._src.service import clients
  if isinstance(e, clients.ResourceNotFoundError):
    return 'ResourceNotFoundError'
  if isinstance(e, grpc.RpcError):
    try:
      code = e.code().name
    except Exception:  # pylint: disable=broad-except
      return 'RpcError:?'
    # a datastore lookup failure is a KeyError subclass in process and status
    # NOT_FOUND over the wire: the same class of error
    return 'NOT_FOUND' if code == 'NOT_FOUND' else 'RpcError:' + code
  from vizier._src.service import custom_errors
  if isinstance(e, custom_errors.NotFoundError):
    return 'NOT_FOUND'
  for cls in (ValueError, RuntimeError, KeyError, TypeError, NotImplementedError):
    if isinstance(e, cls):
      return cls.__name__
  return type(e).__name__


class PollCapExceeded(Exception):
  """The client polled an operation more than POLL_CAP times (logical steps, not wall clock)."""


POLL_CAP = 25


class _CountingClock:
  """Stands in for the `time` module inside vizier_client: back-off sleeps are
  counted instead of slept, and a client that keeps polling is cut off."""

  def __init__(self, real):
    self._real = real
    self.polls = 0

  def __getattr__(self, name):
    return getattr(self._real, name)

  def sleep(self, secs):
    del secs
    self.polls += 1
    if self.polls > POLL_CAP:
      raise PollCapExceeded()


def run_program(ops, owner):
  """Runs the client program against the currently configured deployment."""
  from vizier import pyvizier as vz
  from vizier._src.service import clients
  from vizier._src.service import vizier_client
  from vv import service as S
  trace = []
  study = None
  real_time = vizier_client.time._real if isinstance(vizier_client.time, _CountingClock) else vizier_client.time
  clock = _CountingClock(real_time)
  vizier_client.time = clock

  def rec(op, fn):
    clock.polls = 0
    try:
      out = fn()
      trace.append([op['k'], 'ok', out])
    except PollCapExceeded:
      trace.append([op['k'], 'exc', 'POLLS-FOREVER'])
    except Exception as e:  # pylint: disable=broad-except
      trace.append([op['k'], 'exc', exc_class(e)])

  for op in ops:
    k = op['k']
    if k == 'create':
      cfg = S.make_study_config(op['algo'], tuple(map(tuple, op['metrics'])))

      def f():
        nonlocal study
        study = clients.Study.from_study_config(cfg, owner=owner, study_id='s')
        return study.resource_name.split('/')[-1]
      rec(op, f)
      continue
    if study is None:
      trace.append([k, 'skipped', None])
      continue
    if k == 'suggest':
      rec(op, lambda: [norm_trial(t.materialize()) for t in study.suggest(count=op['count'], client_id=op['w'])])
    elif k == 'complete':
      def f():
        t = clients.Trial(study._client, op['t'])
        m = vz.Measurement(metrics=op['m']) if 'm' in op else None
        out = t.complete(m, infeasible_reason=op.get('infeasible'))
        return None if out is None else {kk: v.value for kk, v in out.metrics.items()}
      rec(op, f)
    elif k == 'measure':
      rec(op, lambda: clients.Trial(study._client, op['t']).add_measurement(
          vz.Measurement(metrics=op['m'], steps=op['steps'], elapsed_secs=op['secs'])))
    elif k == 'stop':
      rec(op, lambda: clients.Trial(study._client, op['t']).stop())
    elif k == 'early':
      rec(op, lambda: 'masked' if clients.Trial(study._client, op['t']).check_early_stopping() in (True, False) else 'not-bool')
    elif k == 'delete_trial':
      rec(op, lambda: clients.Trial(study._client, op['t']).delete())
    elif k == 'get_trial':
      rec(op, lambda: norm_trial(study.get_trial(op['t']).materialize()))
    elif k == 'trials':
      rec(op, lambda: [norm_trial(t) for t in study.trials().get()])
    elif k == 'optimal':
      rec(op, lambda: sorted(t.id for t in study.optimal_trials().get()))
    elif k == 'add_trial':
      def f():
        t = vz.Trial(parameters=op['p'])
        if op['done']:
          t.complete(vz.Measurement(metrics={'obj': op['v'], 'cost': 1.0}))
        return norm_trial(study.add_trial(t).materialize())
      rec(op, f)
    elif k == 'request':
      rec(op, lambda: norm_trial(study.request(vz.TrialSuggestion(parameters=op['p'])).materialize()))
    elif k == 'md':
      def f():
        md = vz.Metadata()
        v = op['v']
        if v.startswith('big'):
          v = 'B' * (int(v[3:-1]) * 1000)
        md.abs_ns([op['ns']] if op['ns'] else [])[op['key']] = v
        if op['t'] is None:
          study.update_metadata(md)
        else:
          clients.Trial(study._client, op['t']).update_metadata(md)
      rec(op, f)
    elif k == 'set_state':
      rec(op, lambda: study.set_state(getattr(vz.StudyState, op['s'])))
    elif k == 'state':
      rec(op, lambda: study.materialize_state().name)
    elif k == 'load':
      def f():
        sid = 'nope' if op['missing'] else 's'
        if op['how'] == 'name':
          s2 = clients.Study.from_resource_name(f'owners/{owner}/studies/{sid}')
        else:
          s2 = clients.Study.from_owner_and_id(owner, sid)
        return s2.resource_name.split('/')[-1]
      rec(op, f)
    elif k == 'delete_study':
      rec(op, lambda: study.delete())
    elif k == 'config':
      def f():
        c = study.materialize_study_config()
        return {'algo': str(c.algorithm), 'params': sorted(p.name for p in c.search_space.parameters),
                'md': sorted((list(ns), kk, _short(v)) for ns, kk, v in c.metadata.all_items())}
      rec(op, f)
  vizier_client.time = real_time
  return trace


# ---------------------------------------------------------------------------
# deployments
# ---------------------------------------------------------------------------
class Deployments:

  def __init__(self):
    from vv import service as S
    self.S = S
    self.servers = {}
    self.monitors = {}
    self.controllers = {}
    for kind, backend in DEPLOYMENTS:
      if kind == 'local':
        continue
      mon, ctl = S.WriteMonitor(), S.Controller()
      server, servicer = (S.make_grpc if kind == 'grpc' else S.make_split)(backend, ctl, mon)
      self.servers[(kind, backend)] = (server, servicer)
      self.monitors[(kind, backend)] = mon
      self.controllers[(kind, backend)] = ctl

  def activate(self, kind, backend, owner):
    """Points the client library at the deployment. Returns (monitor, controller)."""
    from vizier._src.service import constants
    from vizier._src.service import pythia_service
    from vizier._src.service import vizier_client
    S = self.S
    env = vizier_client.environment_variables
    if kind == 'local':
      vizier_client._create_local_vizier_servicer.cache_clear()
      env.server_endpoint = constants.NO_ENDPOINT
      env.servicer_kwargs = {'database_url': None if backend == 'ram' else 'sqlite:///:memory:'}
      servicer = vizier_client._create_local_vizier_servicer()
      mon, ctl = S.WriteMonitor(), S.Controller()
      servicer.default_pythia_service = pythia_service.PythiaServicer(
          vizier_service=servicer, policy_factory=S.HarnessPolicyFactory(ctl))
      servicer.datastore = S.MonitoredDatastore(servicer.datastore, mon)
      import datetime
      servicer._early_stop_recycle_period = datetime.timedelta(seconds=0)
    else:
      server, servicer = self.servers[(kind, backend)]
      env.server_endpoint = server.endpoint
      mon, ctl = self.monitors[(kind, backend)], self.controllers[(kind, backend)]
    ctl.stub_studies.add(f'owners/{owner}/studies/s')
    ctl.plan.clear()
    ctl.default = {'delta': 0}
    return mon, ctl

  def close(self):
    from vizier._src.service import constants
    from vizier._src.service import vizier_client
    for server, _ in self.servers.values():
      self.S.stop_server(server)
    vizier_client.environment_variables.server_endpoint = constants.NO_ENDPOINT
    vizier_client._create_local_vizier_servicer.cache_clear()


def first_diff(a, b):
  from vv import model as model_lib
  for i, (x, y) in enumerate(zip(a, b)):
    if x != y:
      d = model_lib.diff(x, y) if (x[1] == y[1] == 'ok') else f'{x[1:]} vs {y[1:]}'
      return i, x, y, d
  if len(a) != len(b):
    return min(len(a), len(b)), None, None, 'length'
  return None


def classify_diff(op_kind, x, y):
  """x: reference (local/ram) entry, y: the deviating entry."""
  if x[1] == 'exc' and y[1] == 'exc':
    return f'error-class-differs:{op_kind}:{x[2]}-vs-{y[2]}'
  if x[1] == 'exc' and y[1] == 'ok':
    return f'error-swallowed:{op_kind}:{x[2]}'
  if x[1] == 'ok' and y[1] == 'exc':
    return f'spurious-error:{op_kind}:{y[2]}'
  return f'result-differs:{op_kind}'


def check_promises(ctx, trace, ops, dep, case):
  """Absolute promises of client_abc, per deployment."""
  # replay knowledge of which trial ids exist is inside the trace of trials(); we only use robust promises
  deleted = False
  inactive = False
  known_ids = set()
  for op, (k, status, out) in zip(ops, trace):
    if status == 'skipped':
      continue
    if status == 'exc' and out == 'POLLS-FOREVER':
      ctx.violation(f'client-polls-forever:{k}:{dep.split("-")[0]}',
                    f'{dep}: {k} polled an unfinished operation more than {POLL_CAP} times', case)
    if k in ('suggest', 'trials') and status == 'ok':
      known_ids.update(t['id'] for t in out)
    if k in ('add_trial', 'request') and status == 'ok':
      known_ids.add(out['id'])
    if k == 'load' and op['missing'] and not deleted:
      ctx.count('promise_checks')
      ctx.count('not_found_paths')
      if not (status == 'exc' and out == 'ResourceNotFoundError'):
        ctx.violation(f'promise:missing-study-not-ResourceNotFoundError:{dep}:{out if status == "exc" else "returned"}',
                      f'{dep}: loading a missing study gave {status} {out} instead of ResourceNotFoundError', case)
    if k == 'get_trial' and not deleted and op['t'] not in known_ids and op['t'] in (9, 77):
      ctx.count('promise_checks')
      ctx.count('not_found_paths')
      if not (status == 'exc' and out == 'ResourceNotFoundError'):
        ctx.violation(f'promise:missing-trial-not-ResourceNotFoundError:{dep}:{out if status == "exc" else "returned"}',
                      f'{dep}: get_trial({op["t"]}) on a missing trial gave {status} {out} instead of ResourceNotFoundError', case)
    if k == 'set_state' and status == 'ok':
      inactive = op['s'] != 'ACTIVE'
    if k == 'complete' and 'm' not in op and 'infeasible' not in op and status == 'exc' and out not in (
        'NOT_FOUND', 'RpcError:FAILED_PRECONDITION'):
      # client_abc: "Raises ValueError: If neither `measurement` nor `infeasible_reason` is provided but the trial does
      # not contain any intermediate measurements."
      ctx.count('promise_checks')
      if out != 'ValueError':
        ctx.violation(f'promise:complete-without-measurement-not-ValueError:{out}',
                      f'{dep}: complete() without measurement on a trial without intermediate measurements raised {out}, '
                      'client_abc promises ValueError', case)
    if k == 'suggest' and inactive and not deleted:
      ctx.count('promise_checks')
      if not (status == 'ok' and out == []):
        ctx.violation(f'promise:suggest-on-finished-study-not-empty:{dep}', f'{dep}: suggest on an inactive study gave {status} {str(out)[:100]}', case)
    if k == 'add_trial' and not deleted and not inactive:
      from vv import gen
      from vv import service as S
      ctx.count('promise_checks')
      member = gen.member(S.SPACE_DESC, op['p'])
      if not member and not (status == 'exc' and out == 'ValueError'):
        ctx.violation(f'promise:add_trial-outside-space-accepted:{dep}', f'{dep}: add_trial({op["p"]}) gave {status} {str(out)[:100]} instead of ValueError', case)
      if member and status == 'exc' and out == 'ValueError':
        ctx.violation(f'promise:add_trial-inside-space-refused:{dep}', f'{dep}: add_trial({op["p"]}) refused', case)
    if k == 'delete_study' and status == 'ok':
      deleted = True


def run_case(ctx, index, deployments, ops=None):
  rng = ctx.rng(index)
  if ops is None:
    ops = gen_program(rng)
  owner = f'o{ctx.seed}x{index}'
  traces = {}
  case = {'ops': ops, 'index': index}
  for kind, backend in DEPLOYMENTS:
    dep = f'{kind}-{backend}'
    mon, ctl = deployments.activate(kind, backend, owner)
    n_anom = len(mon.anomalies)
    writes = mon.writes
    traces[dep] = run_program(ops, owner)
    ctx.count('calls_recorded', len(traces[dep]))
    ctx.count('server_writes_monitored', mon.writes - writes)
    for kk, dd in mon.anomalies[n_anom:]:
      ctx.violation(f'server-side:{kk}:{kind}', f'{dep}: stored data violated the lifecycle although the client saw an error/ok: {kk} '
                    + json.dumps(dd, default=str)[:300], case)
    check_promises(ctx, traces[dep], ops, dep, case)
  ref_name = 'local-ram'
  ref = traces[ref_name]
  for dep, tr in traces.items():
    if dep == ref_name:
      continue
    ctx.count('traces_compared')
    fd = first_diff(ref, tr)
    if fd is not None:
      i, x, y, d = fd
      kind = ops[i]['k'] if i < len(ops) else '?'
      mech = classify_diff(kind, x, y) + ':' + dep.split('-')[0] if x is not None else f'trace-length:{dep}'
      ctx.violation(mech, f'step {i} ({kind}): {ref_name} -> {str(x)[:200]} but {dep} -> {str(y)[:200]} [{d}]'[:700], case)
  errs = sum(1 for e in ref if e[1] == 'exc')
  ctx.count('illegal_calls_over_wire', errs)
  completed = any(e[0] == 'complete' and e[1] == 'ok' for e in ref)
  ctx.case([[e[0] for e in ref], [e[2] if e[1] == 'exc' else e[1] for e in ref]], nontrivial=errs > 0 and completed)
  return ops


def concurrent_studies_probe(ctx, index, deployments):
  """Two clients on two *different* studies at the same time, the first study's algorithm
  being slow: every deployment must serve both (the calls are independent), with the same
  trials. Sequential programs never have two algorithm requests in flight."""
  import threading
  import time
  from vizier import pyvizier as vz
  from vizier._src.service import clients
  from vv import service as S
  outcomes = {}
  case = {'probe': 'concurrent-studies', 'index': index}
  for kind, backend in DEPLOYMENTS:
    dep = f'{kind}-{backend}'
    owner = f'cc{index}'
    mon, ctl = deployments.activate(kind, backend, owner)
    ctl.stub_studies.update({f'owners/{owner}/studies/a', f'owners/{owner}/studies/b'})
    cfg = S.make_study_config('VVSTUB', (('obj', 'MAXIMIZE'),))
    res = {}
    try:
      sa = clients.Study.from_study_config(cfg, owner=owner, study_id='a')
      sb = clients.Study.from_study_config(cfg, owner=owner, study_id='b')
      ctl.default = {'delta': 0, 'sleep': 0.5}

      def work(name, study, delay):
        time.sleep(delay)
        try:
          ts = study.suggest(count=2, client_id='w')
          res[name] = ['ok', sorted(t.id for t in ts)]
        except Exception as e:  # pylint: disable=broad-except
          res[name] = ['exc', exc_class(e)]
      th = [threading.Thread(target=work, args=('a', sa, 0.0), daemon=True),
            threading.Thread(target=work, args=('b', sb, 0.15), daemon=True)]
      for t in th:
        t.start()
      for t in th:
        t.join(60)
      if any(t.is_alive() for t in th):
        res['hung'] = True
      # and afterwards both studies still work
      ctl.default = {'delta': 0}
      for name, study in (('a', sa), ('b', sb)):
        try:
          res[name + '-after'] = ['ok', sorted(t.id for t in study.suggest(count=3, client_id='w'))]
        except Exception as e:  # pylint: disable=broad-except
          res[name + '-after'] = ['exc', exc_class(e)]
    except Exception as e:  # pylint: disable=broad-except
      res['setup'] = ['exc', exc_class(e)]
    finally:
      ctl.default = {'delta': 0}
    outcomes[dep] = res
    ctx.count('concurrent_study_probes_run')
  ref = outcomes['local-ram']
  for dep, res in outcomes.items():
    if res != ref:
      kind = dep.split('-')[0]
      bad = sorted(k for k in set(res) | set(ref) if res.get(k) != ref.get(k))
      what = res.get(bad[0])
      tag = (what[1] if isinstance(what, list) and what[0] == 'exc' else 'differs')
      ctx.violation(f'concurrent-studies:{bad[0]}:{tag}:{kind}',
                    f'two clients on two different studies at the same time: local-ram -> {ref} but {dep} -> {res}'[:600],
                    case)
  if any(v[0] == 'exc' for v in ref.values() if isinstance(v, list)) or ref.get('hung'):
    ctx.violation('concurrent-studies:reference-failed', f'local-ram: {ref}', case)
  ctx.case(['concurrent-studies', index % 3], nontrivial=True)


def run_shard(ctx):
  deployments = Deployments()
  try:
    n = 600 if ctx.tier == 'quick' else 30000
    concurrent_studies_probe(ctx, 900000 + ctx.shard, deployments)
    for i in range(n):
      if not ctx.mine(i):
        continue
      if ctx.out_of_time():
        ctx.note(f'time budget reached at program {i}')
        break
      ops = run_case(ctx, i, deployments)
      if i < ctx.nshards:
        ctx.sample({'ops': ops[:8], 'n_ops': len(ops), 'deployments': ['-'.join(d) for d in DEPLOYMENTS]})
  finally:
    deployments.close()


def replay(ctx, case):
  deployments = Deployments()
  try:
    if case.get('probe') == 'concurrent-studies':
      concurrent_studies_probe(ctx, case['index'], deployments)
      return
    run_case(ctx, case.get('index', 0), deployments, ops=case['ops'])
  finally:
    deployments.close()
