"""C15 — numeric encoding of trials is invertible and always decodes into the space.

Runtime monitors around the real converters of vizier.pyvizier.converters:

  DTC     DefaultTrialConverter over per-parameter DefaultModelInputConverter
          (all 96 option tuples: scale x onehot x pad_oovs x max_discrete_indices
          {0,10,inf} x float32/64 x clipping)
  T2A     TrialToArrayConverter.from_study_config (one-hot always on)
  PADDED  PaddedTrialToArrayConverter (3x3 padding schedules)
  T2MI    TrialToModelInputConverter (continuous / categorical PaddedArrays)
  SCALER  ProblemAndTrialsScaler.map / unmap
  FMAP    ContinuousCategoricalFeatureMapper.map / unmap
  METRIC  DefaultModelOutputConverter / DefaultTrialConverter / TrialToArray
          label conversion under both sign conventions

Oracles (all computed from the plain space description of vv.gen, never from
the repository's own objects): output-spec kind, feature shape and dtype,
reference scaling formula (LINEAR / LOG / REVERSE_LOG; endpoints 0 and 1,
monotone, unit interval), index / one-hot encoding with exactly one active
entry, round trip (exact for INTEGER / DISCRETE / CATEGORICAL when the dtype
can separate the feasible values, floating-point tolerance for DOUBLE),
decode of arbitrary finite arrays into the space (clipping on), decode to the
nearest feasible value, metric label sign and round trip.

Purity / repeatability monitors (a round trip that only holds for the first call
is not invertibility): every numpy array handed to a decoder (to_parameters,
to_metrics in both documented label shapes (num,) and (num, 1), to_trials) is
bitwise unchanged afterwards, decoding the same array a second time gives the
same parameters / metric values, convert(measurements) gives the same labels on
a second call, and to_features / ProblemAndTrialsScaler.map / unmap leave the
trials they were given untouched.
"""
import math

import numpy as np

from vv import gen

PROPERTY = 'C15'
LEVEL = 'exploration'
RULE = ('flat spaces from vv.gen (1..6 parameters: DOUBLE unit/neg/tiny/huge/pos/'
        'singleton/generic with LINEAR/LOG/REVERSE_LOG, INTEGER small/singleton/'
        'mid/wide/neg, DISCRETE, CATEGORICAL, BOOL) x subject (DTC, T2A, PADDED, '
        'T2MI, SCALER, FMAP) x option tuple (scale, onehot, pad_oovs, '
        'max_discrete_indices 0/10/inf, float32/64, clipping, padding schedule), '
        'cycled systematically by case index; per case 8-10 feasible points incl. '
        'every bound and the midpoint (BOOL values spelled as Python bools in ~40% of the '
        'rows, oracle on the canonical \'True\'/\'False\'), then 7 classes of arbitrary finite arrays '
        '(unit, uniform[-2,3], exact 0/1, edges, +-1e6, dtype extremes, '
        'subnormals). METRIC cases: goal x flip x dtype x value class x route (direct with '
        '(num,1) labels, direct with (num,) labels, DTC to_trials, T2A and PADDED metric '
        'converters with (num,1) / (num,) labels alternating per block of 60). Every decode '
        'call is additionally monitored for purity (argument arrays bitwise unchanged) and '
        'the encoded points / labels are decoded a second time from the same array '
        '(same answer demanded). A case is '
        'non-trivial when at least one non-singleton parameter was round-tripped '
        '(metric: one finite value); distinct = hash(subject, options, space '
        'shape, array class).')
ASSUMPTIONS = [
    'round trip of DOUBLE: |x\'-x| <= 8*eps(dtype)*max(|lo|,|hi|) for LINEAR/unscaled, '
    'relative 32*eps*(max(1,|ln lo|,|ln hi|)) for LOG (i.e. in log space), '
    '32*eps*(M*(lo+hi-x)+lo+hi) for REVERSE_LOG (error lives in the reflected value)',
    'exact round trip of continuified INTEGER/DISCRETE is only demanded when that '
    'error bound is below half the gap to the neighbouring feasible values in the '
    'dtype; otherwise the point is counted as unrepresentable and only membership '
    'of the decoded value is demanded',
    'scaled features are compared with the reference formula with the matching '
    'forward error bound; when the bound reaches 0.25 (range below dtype resolution) '
    'only 0<=f<=1 within the bound is demanded and the point counts as unrepresentable',
    'decode-into-space is asserted only with clipping on and only for NaN-free, '
    'finite (in the converter dtype) arrays; integer index features only inside '
    'their documented bounds; index == len(feasible) must decode to "missing" (OOV)',
    'dtype actually carried by the feature array decides eps (jax may narrow float64)',
    'a Python bool and the string \'True\'/\'False\' denote the same value of a boolean parameter '
    '(SearchSpace.contains accepts both, ParameterValue.as_str normalises); decoding must '
    'return the string spelling',
    'safety metrics are excluded from the label round trip (property text)',
    'a conversion is a read of its arguments: "decoding returns the original values" is '
    'demanded of every decode of the same array, not only of the first one, hence the '
    'caller\'s numpy arrays must be bitwise unchanged by to_parameters / to_metrics / '
    'to_trials and trials unchanged by to_features / map / unmap (jax arrays are immutable '
    'and not snapshotted)',
    'metric values that overflow / underflow the label dtype are excluded',
]
MIN_DISTINCT = {'quick': 400, 'thorough': 4000}

K_LIN = 8.0
K_LOG = 32.0
HEADROOM = {}   # (what, scale) -> largest observed error / tolerance


def headroom(what, scale, err, tol):
  if tol > 0 and err == err:
    k = f'{what}:{scale}'
    r = err / tol
    if r > HEADROOM.get(k, 0.0):
      HEADROOM[k] = r

# the jax-backed subjects cost 150-700 ms per case (one XLA compilation per new
# shape), the numpy ones 8 ms: 16 DTC + 8 T2A + 3 PADDED + 2 T2MI + 2 SCALER + 1 FMAP
SUBJECT_CYCLE = ['DTC', 'T2A', 'DTC', 'PADDED', 'DTC', 'T2A', 'DTC', 'SCALER',
                 'DTC', 'T2A', 'DTC', 'T2MI', 'DTC', 'T2A', 'DTC', 'PADDED',
                 'DTC', 'T2A', 'DTC', 'FMAP', 'DTC', 'T2A', 'DTC', 'SCALER',
                 'DTC', 'T2A', 'DTC', 'T2MI', 'DTC', 'T2A', 'DTC', 'PADDED']
N_DTC = SUBJECT_CYCLE.count('DTC')
N_T2A = SUBJECT_CYCLE.count('T2A')
MDI = {'0': 0, '10': 10, 'inf': float('inf')}


def _dtc_tuples():
  out = []
  for s in (0, 1):
    for o in (0, 1):
      for p in (0, 1):
        for m in ('0', '10', 'inf'):
          for d in ('f32', 'f64'):
            for c in (0, 1):
              out.append({'scale': s, 'onehot': o, 'pad_oovs': p, 'mdi': m,
                          'dtype': d, 'clip': c})
  return out


DTC_TUPLES = _dtc_tuples()
T2A_TUPLES = [t for t in DTC_TUPLES if t['onehot'] == 1]
SCHEDULES = [(a, b) for a in ('NONE', 'M10', 'P2') for b in ('NONE', 'M10', 'P2')]


def opt_key(subject, o):
  k = (f"{subject}:s{o['scale']}:o{o['onehot']}:p{o['pad_oovs']}:m{o['mdi']}:"
       f"{o['dtype']}:c{o['clip']}")
  if o.get('sched'):
    k += ':' + '-'.join(o['sched'])
  return k


REQUIRED_COUNTERS = (
    ['roundtrips', 'arbitrary_arrays_decoded', 'roundtrip_exact_checked',
     'roundtrip_double_checked', 'feature_formula_checked:LINEAR',
     'feature_formula_checked:LOG', 'feature_formula_checked:REVERSE_LOG',
     'endpoints_checked:REVERSE_LOG', 'monotone_checked', 'onehot_blocks_checked',
     'index_features_checked', 'decode_membership_checked',
     'decode_nearest_checked', 'decode_value_checked', 'oov_index_decodes_missing',
     'label_roundtrips:MINIMIZE:flip', 'label_roundtrips:MINIMIZE:noflip',
     'label_roundtrips:MAXIMIZE:flip', 'label_roundtrips:MAXIMIZE:noflip',
     'label_sign_checked', 'padded_shapes_checked', 'scaler_unmap_roundtrips',
     'fmap_roundtrips', 't2mi_to_trials_checked', 'dtc_to_trials_checked',
     'dtc_factory_used', 'bool_values_spelled_as_python_bool',
     'bool_python_spelling:DTC', 'bool_python_spelling:T2A',
     'label_decode_pure_checked:1d', 'label_decode_pure_checked:2d',
     'label_decode_pure_checked:MINIMIZE:flip', 'label_decode_pure_checked:MINIMIZE:noflip',
     'label_decode_pure_checked:MAXIMIZE:flip', 'label_decode_pure_checked:MAXIMIZE:noflip',
     'label_encode_repeat_checked', 'decode_input_unchanged_checked',
     'decode_repeat_checked', 'encode_trials_unchanged_checked',
     'decode_trials_unchanged_checked']
    )
# The per-option-tuple counters ('rt:<tuple>', 'arb:<tuple>') stay in the evidence,
# but a starved shard on a loaded machine must not turn the whole run
# INCONCLUSIVE: post_merge() demands that at least 90% of the tuples were
# exercised instead of every single one.
PER_TUPLE_COUNTERS = (
    ['rt:' + opt_key('DTC', t) for t in DTC_TUPLES]
    + ['rt:' + opt_key('T2A', t) for t in T2A_TUPLES]
    + ['arb:' + opt_key('DTC', t) for t in DTC_TUPLES if t['clip']]
    + ['arb:' + opt_key('T2A', t) for t in T2A_TUPLES if t['clip']])


def post_merge(tier, counters, violations, inconclusive):
  seen = sum(1 for k in PER_TUPLE_COUNTERS if counters.get(k))
  counters['option_tuples_exercised'] = seen
  counters['option_tuples_total'] = len(PER_TUPLE_COUNTERS)
  if seen < 0.9 * len(PER_TUPLE_COUNTERS):
    inconclusive.append(f'only {seen} of {len(PER_TUPLE_COUNTERS)} converter option tuples were exercised')


def plan(tier, seed):
  return {'shards': 12 if tier == 'quick' else 16,
          'budget_s': 55 if tier == 'quick' else 900}


# ---------------------------------------------------------------------------
# reference model of one parameter under one option tuple
# ---------------------------------------------------------------------------
def np_dtype(o):
  return np.float32 if o['dtype'] == 'f32' else np.float64


def feasible(p):
  """Sorted feasible values of a non-DOUBLE parameter (python natives)."""
  if p['kind'] == 'INTEGER':
    return list(range(p['lo'], p['hi'] + 1))
  if p['kind'] == 'DISCRETE':
    return sorted(float(v) for v in p['values'])
  return sorted(p['values'])


def n_feasible(p):
  if p['kind'] == 'INTEGER':
    return p['hi'] - p['lo'] + 1
  return len(p['values'])


def model(p, o):
  """What the documentation promises for parameter p under options o."""
  k = p['kind']
  m = {'name': p['name'], 'kind': k}
  if k == 'DOUBLE':
    m['path'] = 'continuous'
    m['lo'], m['hi'] = float(p['lo']), float(p['hi'])
  elif k in ('INTEGER', 'DISCRETE') and n_feasible(p) > MDI[o['mdi']]:
    m['path'] = 'continuified'
    if k == 'INTEGER':
      m['lo'], m['hi'] = float(p['lo']), float(p['hi'])
    else:
      m['lo'], m['hi'] = float(min(p['values'])), float(max(p['values']))
  else:
    m['path'] = 'onehot' if o['onehot'] else 'index'
    m['n'] = n_feasible(p)
  if m['path'] in ('continuous', 'continuified'):
    m['dims'] = 1
    m['scale'] = (p.get('scale') or 'LINEAR') if o['scale'] else 'NONE'
  elif m['path'] == 'onehot':
    m['dims'] = m['n'] + (1 if o['pad_oovs'] else 0)
  else:
    m['dims'] = 1
  return m


def index_of(p, v):
  if p['kind'] == 'INTEGER':
    return int(v) - p['lo']
  if p['kind'] == 'DISCRETE':
    return feasible(p).index(float(v))
  return feasible(p).index(v)


def log_mag(lo, hi):
  return max(1.0, abs(math.log(lo)), abs(math.log(hi)))


def ref_feature(m, x):
  """Reference scaled feature and its forward error bound (per unit eps)."""
  lo, hi, sc = m['lo'], m['hi'], m['scale']
  if sc == 'LINEAR':
    r = hi - lo
    return (x - lo) / r, K_LIN * max(abs(lo), abs(hi), r) / r
  mag = log_mag(lo, hi)
  d = math.log(hi) - math.log(lo)
  if sc == 'LOG':
    return (math.log(x) - math.log(lo)) / d, K_LOG * mag / d
  r = lo + hi - x
  r = min(max(r, lo), hi)
  return 1.0 - (math.log(r) - math.log(lo)) / d, K_LOG * (mag + (lo + hi) / r) / d


def rt_tolerance(m, x, eps):
  """Bound on |decode(encode(x)) - x| for a continuous feature."""
  lo, hi, sc = m['lo'], m['hi'], m['scale']
  if sc in ('NONE', 'LINEAR') or lo == hi or lo <= 0:
    return K_LIN * eps * max(abs(lo), abs(hi)) + 5e-324
  mag = log_mag(lo, hi)
  if sc == 'LOG':
    return K_LOG * eps * mag * abs(x)
  return K_LOG * eps * (mag * (lo + hi - x) + lo + hi)


def ref_inverse(m, f):
  """Reference unscaled value for feature f (may be +-inf), and rel/abs tol/eps."""
  lo, hi, sc = m['lo'], m['hi'], m['scale']
  if sc == 'NONE':
    return f, K_LIN * max(abs(f), abs(lo), abs(hi))
  if sc == 'LINEAR':
    r = hi - lo
    return f * r + lo, K_LIN * (abs(f) * r + max(abs(lo), abs(hi)))
  mag = log_mag(lo, hi)
  d = math.log(hi) - math.log(lo)
  try:
    if sc == 'LOG':
      a = f * d + math.log(lo)
      x = math.exp(a)
      return x, K_LOG * (mag + abs(f) * d) * x
    a = math.log(hi) - d * f
    r = math.exp(a)
    return lo + hi - r, K_LOG * ((mag + abs(f) * d) * r + lo + hi)
  except OverflowError:
    return (float('inf') if sc == 'LOG' else float('-inf')), 0.0


def sim_unscale(m, f, dt):
  """The documented un-scaling formula evaluated in dtype dt (witness classification only)."""
  lo, hi, sc = dt(m['lo']), dt(m['hi']), m['scale']
  f = dt(f)
  with np.errstate(all='ignore'):
    if sc == 'NONE':
      return float(f)
    if lo == hi:
      return float(f + lo - dt(0.5))
    if sc == 'LINEAR':
      return float(f * (hi - lo) + lo)
    l0, l1 = np.log(lo), np.log(hi)
    d = (l1 - l0) or dt(1.0)
    if sc == 'LOG':
      return float(np.exp(f * d + l0))
    return float((lo + hi) - np.exp(l1 - d * f))


def neighbours_gap(p, v, dt):
  """Smallest distance, in dtype dt, from v to another feasible value."""
  if p['kind'] == 'INTEGER':
    if p['lo'] == p['hi']:
      return float('inf')
    a = float(dt(v))
    gaps = []
    if v > p['lo']:
      gaps.append(abs(a - float(dt(v - 1))))
    if v < p['hi']:
      gaps.append(abs(float(dt(v + 1)) - a))
    return min(gaps)
  vals = feasible(p)
  if len(vals) == 1:
    return float('inf')
  a = float(dt(v))
  return min(abs(float(dt(w)) - a) for w in vals if w != v)


# ---------------------------------------------------------------------------
# case generation
# ---------------------------------------------------------------------------
def extra_param(rng, name):
  """Classes vv.gen does not produce but the property covers."""
  cls = rng.choice(['bigint', 'unit_int', 'log_narrow', 'revlog_wide', 'disc_dense'])
  if cls == 'bigint':     # beyond float32's 2**24
    lo = 2 ** 24 + rng.randint(0, 50)
    return {'name': name, 'kind': 'INTEGER', 'lo': lo, 'hi': lo + rng.randint(1, 30),
            'scale': rng.choice([None, 'LINEAR', 'LOG']), 'default': None}
  if cls == 'unit_int':
    return {'name': name, 'kind': 'INTEGER', 'lo': 0, 'hi': 1, 'scale': None,
            'default': None}
  if cls == 'log_narrow':
    lo = 10 ** rng.uniform(-3, 3)
    return {'name': name, 'kind': 'DOUBLE', 'lo': lo, 'hi': lo * (1 + 10 ** rng.uniform(-5, -1)),
            'scale': rng.choice(['LOG', 'REVERSE_LOG']), 'default': None}
  if cls == 'revlog_wide':
    lo = 10 ** rng.uniform(-4, 0)
    return {'name': name, 'kind': 'DOUBLE', 'lo': lo, 'hi': lo * 10 ** rng.uniform(1, 4),
            'scale': 'REVERSE_LOG', 'default': None}
  n = rng.choice([11, 12, 20])
  base = rng.uniform(0.5, 5)
  vals = sorted({round(base + 0.25 * j, 4) for j in range(n)})
  return {'name': name, 'kind': 'DISCRETE', 'values': vals,
          'scale': rng.choice([None, 'LINEAR', 'LOG', 'REVERSE_LOG']), 'default': None}


def gen_desc(rng, tier, max_params=6):
  desc = gen.gen_space(rng, 1, max_params, max_int_width=1500 if tier == 'quick' else 10 ** 4)
  if rng.random() < 0.35:
    desc.append(extra_param(rng, f'e{len(desc)}'))
  return desc


def gen_points(rng, desc, n=6):
  pts = [gen.sample_point(rng, desc, boundary_bias=0.15) for _ in range(n)]
  # every bound and the midpoint of numeric parameters are always present
  lo_pt, hi_pt, mid_pt = {}, {}, {}
  for p in desc:
    if p['kind'] == 'DOUBLE':
      lo_pt[p['name']], hi_pt[p['name']] = p['lo'], p['hi']
      mid = p['lo'] + (p['hi'] - p['lo']) / 2
      mid_pt[p['name']] = min(max(mid, p['lo']), p['hi'])
    elif p['kind'] == 'INTEGER':
      lo_pt[p['name']], hi_pt[p['name']] = p['lo'], p['hi']
      mid_pt[p['name']] = (p['lo'] + p['hi']) // 2
    else:
      v = feasible(p)
      lo_pt[p['name']], hi_pt[p['name']] = v[0], v[-1]
      mid_pt[p['name']] = v[len(v) // 2]
  return pts + [lo_pt, hi_pt, mid_pt]


def gen_case(rng, i, tier):
  # rotate the cycle by the cycle number so that every shard count sees every
  # subject (each cycle still holds every position exactly once)
  j = i // len(SUBJECT_CYCLE)
  pos = (i + j) % len(SUBJECT_CYCLE)
  subject = SUBJECT_CYCLE[pos]
  if subject == 'DTC':
    slot = [k for k, s in enumerate(SUBJECT_CYCLE) if s == 'DTC'].index(pos)
    o = dict(DTC_TUPLES[(j * N_DTC + slot) % len(DTC_TUPLES)])
  elif subject == 'T2A':
    slot = [k for k, s in enumerate(SUBJECT_CYCLE) if s == 'T2A'].index(pos)
    o = dict(T2A_TUPLES[(j * N_T2A + slot) % len(T2A_TUPLES)])
  elif subject == 'PADDED':
    k = j * 3 + [q for q, s in enumerate(SUBJECT_CYCLE) if s == 'PADDED'].index(pos)
    o = dict(T2A_TUPLES[(k * 5) % len(T2A_TUPLES)])
    o['clip'] = 1
    o['sched'] = list(SCHEDULES[k % len(SCHEDULES)])
  elif subject == 'T2MI':
    k = j * 2 + [q for q, s in enumerate(SUBJECT_CYCLE) if s == 'T2MI'].index(pos)
    o = dict(DTC_TUPLES[(k * 7) % len(DTC_TUPLES)])
    o.update(onehot=0, pad_oovs=1, clip=1)
    o['sched'] = list(SCHEDULES[k % len(SCHEDULES)])
  elif subject == 'SCALER':
    o = {'scale': 1, 'onehot': 0, 'pad_oovs': 1, 'mdi': '0', 'dtype': 'f32', 'clip': 1}
  else:  # FMAP (most expensive subject: every other cycle only)
    o = dict(T2A_TUPLES[(j * 5) % len(T2A_TUPLES)])
    o['clip'] = 1
    if j % 2:
      subject = 'T2A' 
  # small spaces for the jax-backed subjects: fewer distinct shapes to compile
  desc = gen_desc(rng, tier, max_params=3 if subject in ('FMAP', 'T2MI', 'PADDED') else 6)
  pts = gen_points(rng, desc)
  case = {'subject': subject, 'opts': o, 'desc': desc, 'points': pts,
          'aseed': rng.getrandbits(32), 'index': i}
  # boolean parameters: `points` keeps the canonical spelling 'True'/'False' (what
  # the oracles compare against); in the rows listed in `pybool` the trial handed
  # to the converter spells every BOOL value as a Python bool, which the search
  # space accepts as the same feasible point. The all-upper-values row (BOOL =
  # 'True') is always among them.
  if any(p['kind'] == 'BOOL' for p in desc):
    rows = {r for r in range(len(pts)) if rng.random() < 0.4}
    rows.add(len(pts) - 2)
    case['pybool'] = sorted(rows)
  return case


ARRAY_CLASSES = ['unit', 'uniform', 'binary', 'edges', 'big', 'extreme', 'subnormal']


def gen_column(nrng, cls, n, dt):
  fi = np.finfo(dt)
  if cls == 'unit':
    a = nrng.random(n)
  elif cls == 'uniform':
    a = nrng.uniform(-2, 3, n)
  elif cls == 'binary':
    a = nrng.integers(0, 2, n).astype(np.float64)
  elif cls == 'edges':
    pool = np.array([0.0, -0.0, 1.0, 0.5, float(fi.eps), -float(fi.eps),
                     1.0 - float(fi.epsneg), 1.0 + float(fi.eps), 0.25, 0.75,
                     0.49999, 0.50001])
    a = nrng.choice(pool, n)
  elif cls == 'big':
    a = nrng.choice(np.array([1e6, -1e6, 12345.678, -777.0, 1e4]), n) * nrng.uniform(0.5, 1.0, n)
  elif cls == 'extreme':
    mx = float(fi.max)
    a = nrng.choice(np.array([mx, -mx, mx / 4, -mx / 4, 1e30, -1e30]), n)
  else:  # subnormal / tiny
    t = float(fi.tiny)
    s = float(fi.smallest_subnormal)
    a = nrng.choice(np.array([t, -t, s, -s, t / 8, 0.0, 4 * s]), n)
  return a.astype(dt)


# ---------------------------------------------------------------------------
# monitors
# ---------------------------------------------------------------------------
class Reporter:
  """Binds ctx + case; raises nothing."""

  def __init__(self, ctx, case):
    self.ctx = ctx
    self.case = case
    self.subject = case['subject']
    self.fired = False
    self.soft = set()

  def v(self, mech, what, witness=None):
    self.fired = True
    self.ctx.violation(mech, what, self.case, witness)


def check_feature_block(R, p, m, o, block, values, eps, dt_expected):
  """Feature oracles for one parameter. block: (n, dims). Returns unrepresentable flags."""
  ctx = R.ctx
  n = len(values)
  tag = f"{p['kind']}:{m['path']}"
  if block.ndim != 2 or block.shape != (n, m['dims']):
    R.v(f'feature-shape:{tag}', f"{p['name']}: feature block shape {block.shape}, "
        f"documented ({n},{m['dims']})", {'param': p, 'opts': o})
    return None
  if not np.all(np.isfinite(block)):
    R.v(f'feature-nonfinite:{tag}:{m.get("scale")}',
        f"{p['name']}: non-finite feature for a feasible point",
        {'param': p, 'values': values, 'block': block})
    return None
  if m['path'] == 'index':
    ctx.count('index_features_checked')
    if not np.issubdtype(block.dtype, np.integer):
      R.v(f'index-dtype:{tag}', f"{p['name']}: index feature dtype {block.dtype}", {'param': p})
      return None
    exp = [index_of(p, v) for v in values]
    got = [int(x) for x in block[:, 0]]
    if exp != got:
      R.v(f'index-wrong:{p["kind"]}', f"{p['name']}: index features {got} != positions {exp} "
          'within the sorted feasible values', {'param': p, 'values': values})
    return [False] * n
  if m['path'] == 'onehot':
    ctx.count('onehot_blocks_checked')
    exp = [index_of(p, v) for v in values]
    for r in range(n):
      row = block[r]
      ones = int(np.sum(row == 1))
      zeros = int(np.sum(row == 0))
      if ones != 1 or zeros != row.size - 1:
        R.v(f'onehot-not-one-hot:{p["kind"]}:pad{o["pad_oovs"]}',
            f"{p['name']}: one-hot block {row.tolist()} does not have exactly one active entry",
            {'param': p, 'value': values[r]})
        return None
      if int(np.argmax(row)) != exp[r]:
        R.v(f'onehot-wrong-position:{p["kind"]}:pad{o["pad_oovs"]}',
            f"{p['name']}: active one-hot entry {int(np.argmax(row))} != index {exp[r]} "
            f"of value {values[r]!r}", {'param': p, 'row': row})
        return None
    return [False] * n
  # ---- continuous / continuified -----------------------------------------
  col = block[:, 0].astype(np.float64)
  unrep = [False] * n
  sc = m['scale']
  lo, hi = m['lo'], m['hi']
  if sc == 'NONE':
    ctx.count('unscaled_features_checked')
    for r, v in enumerate(values):
      if abs(col[r] - float(v)) > eps * abs(float(v)):
        R.v(f'feature-unscaled-mismatch:{tag}', f"{p['name']}: unscaled feature {col[r]!r} "
            f"is not the value {v!r} in the dtype", {'param': p})
        return None
    return unrep
  if lo == hi:
    ctx.count('singleton_features_checked')
    bad = [float(x) for x in col if not 0.0 <= x <= 1.0]
    if bad:
      R.v(f'feature-out-of-unit:{tag}:singleton', f"{p['name']}: zero-range feature {bad[0]!r} "
          'outside [0,1]', {'param': p})
      return None
    return unrep
  ctx.count('feature_formula_checked:' + sc)
  feats = []
  for r, v in enumerate(values):
    ref, tol_u = ref_feature(m, float(v))
    tol = tol_u * eps
    f = float(col[r])
    feats.append((float(v), f, tol))
    if tol >= 0.25:
      unrep[r] = True
      ctx.count('feature_points_unrepresentable')
      if not (-min(tol, 1e300) <= f <= 1 + min(tol, 1e300)):
        R.v(f'feature-out-of-unit:{tag}:{sc}:coarse', f"{p['name']}: feature {f!r} for {v!r}",
            {'param': p, 'tol': tol})
        return None
      continue
    if not (-tol <= f <= 1.0 + tol):
      R.v(f'feature-out-of-unit:{tag}:{sc}', f"{p['name']}: scaled feature {f!r} of feasible "
          f"value {v!r} lies outside [0,1] (tolerance {tol:.3g})", {'param': p, 'ref': ref})
      return None
    if not 0.0 <= f <= 1.0:
      ctx.count('features_outside_unit_within_rounding:' + sc)
    headroom('feature', sc + ':' + str(np.dtype(dt_expected)), abs(f - ref), tol)
    if abs(f - ref) > tol:
      which = 'endpoint' if float(v) in (lo, hi) else 'interior'
      R.v(f'feature-formula:{tag}:{sc}:{which}', f"{p['name']}: {sc} feature of {v!r} is {f!r}, "
          f"documented scaling gives {ref!r} (tolerance {tol:.3g})", {'param': p})
      return None
    if float(v) in (lo, hi):
      ctx.count('endpoints_checked:' + sc)
  # monotone (non-decreasing in the value, whatever the scale type)
  feats.sort()
  ctx.count('monotone_checked')
  for (v1, f1, t1), (v2, f2, t2) in zip(feats, feats[1:]):
    if v2 > v1 and f2 < f1 - min(t1 + t2, 0.25):
      R.v(f'feature-not-monotone:{tag}:{sc}', f"{p['name']}: feature decreases from {f1!r} at "
          f"{v1!r} to {f2!r} at {v2!r}", {'param': p})
      return None
  return unrep


def same_value(p, got, v):
  """Value equality with the documented python type of the parameter kind."""
  if p['kind'] == 'INTEGER':
    return isinstance(got, int) and not isinstance(got, bool) and got == v
  if p['kind'] == 'DISCRETE':
    return isinstance(got, (int, float)) and not isinstance(got, bool) and float(got) == float(v)
  return isinstance(got, str) and got == v


def check_roundtrip_param(R, p, m, o, values, decoded, eps, dt, unrep):
  """decoded: list of raw python values or None (missing)."""
  ctx = R.ctx
  tag = f"{p['kind']}:{m['path']}"
  sc = m.get('scale', 'NA')
  nontrivial = False
  for r, v in enumerate(values):
    got = decoded[r]
    if got is None:
      R.v(f'roundtrip-missing:{tag}:{sc}', f"{p['name']}: feasible value {v!r} decodes to "
          '"parameter missing"', {'param': p, 'opts': o})
      return nontrivial
    if p['kind'] == 'DOUBLE':
      ctx.count('roundtrip_double_checked')
      if not isinstance(got, float):
        R.v(f'roundtrip-type:{tag}', f"{p['name']}: decoded {type(got).__name__}", {'param': p})
        return nontrivial
      tol = rt_tolerance(m, float(v), eps)
      if (sc in ('LOG', 'REVERSE_LOG') and m['lo'] > 0 and m['hi'] > m['lo']
          and (m['hi'] - m['lo']) < 64 * eps * m['hi']):
        # the range is narrower than the dtype can resolve (log(hi) - log(lo) is a
        # few ulps at best): the scaled coordinate is numerically meaningless and
        # nothing about the round trip is representable in this dtype. Only
        # "inside the bounds when clipping is on" is demanded.
        ctx.count('roundtrip_log_range_below_dtype_resolution')
        if o['clip'] and not gen.member1(p, got):
          R.v(f'roundtrip-outside-space:{tag}:{sc}', f"{p['name']}: {v!r} -> {got!r} which is "
              'outside the bounds although clipping is on', {'param': p, 'opts': o})
          return nontrivial
        continue
      if not abs(got - float(v)) <= tol:
        R.v(f'roundtrip-mismatch:{tag}:{sc}', f"{p['name']}: {v!r} -> {got!r} after encode/"
            f"decode (|diff|={abs(got - float(v)):.3g} > {tol:.3g})", {'param': p, 'opts': o})
        return nontrivial
      headroom('roundtrip', sc + ':' + str(np.dtype(dt)), abs(got - float(v)), tol)
      if o['clip'] and not gen.member1(p, got):
        R.v(f'roundtrip-outside-space:{tag}:{sc}', f"{p['name']}: {v!r} -> {got!r} which is "
            'outside the bounds although clipping is on', {'param': p, 'opts': o})
        return nontrivial
      nontrivial = nontrivial or p['lo'] != p['hi']
      continue
    # exact kinds
    if m['path'] == 'continuified':
      gap = neighbours_gap(p, v, dt)
      bound = rt_tolerance(m, float(v), eps)
      if not bound < gap / 2:
        ctx.count('roundtrip_points_unrepresentable')
        if not gen.member1(p, got):
          R.v(f'roundtrip-outside-space:{tag}:{sc}', f"{p['name']}: {v!r} -> {got!r} not feasible",
              {'param': p, 'opts': o})
          return nontrivial
        continue
    ctx.count('roundtrip_exact_checked')
    if not same_value(p, got, v):
      R.v(f'roundtrip-mismatch:{tag}:{sc}', f"{p['name']}: {v!r} -> {got!r} "
          f"({type(got).__name__}) after encode/decode", {'param': p, 'opts': o})
      return nontrivial
    nontrivial = nontrivial or n_feasible(p) > 1
  return nontrivial


def frozen(x):
  """Bitwise snapshot of the numpy arrays handed to a converter (array, or dict of
  arrays); None for anything else (jax arrays are immutable)."""
  if isinstance(x, np.ndarray):
    return (x.shape, str(x.dtype), x.tobytes())
  if isinstance(x, dict) and all(isinstance(v, np.ndarray) for v in x.values()):
    return {k: frozen(v) for k, v in x.items()}
  return None


def trial_params(trials):
  return repr([sorted((k, repr(raw(v))) for k, v in t.parameters.items()) for t in trials])


def plain_dicts(pdicts):
  return repr([sorted((k, repr(raw(v))) for k, v in d.items()) for d in pdicts])


def check_pure(R, what, mech_tail, before, x):
  """A conversion is a read of its argument: the caller's arrays are bitwise unchanged."""
  if before is None:
    return True
  R.ctx.count(what + '_input_unchanged_checked')
  if frozen(x) != before:
    R.v(f'{what}-mutates-input:{mech_tail}', f'{what}: the array handed to the converter was '
        'modified in place by the call (a later conversion of the same array gives '
        'different values)', {'opts': R.case.get('opts')})
    return False
  return True


def raw(pv):
  return pv.value if hasattr(pv, 'value') and not isinstance(pv, (int, float, str)) else pv


def decoded_column(pdicts, name):
  out = []
  for d in pdicts:
    out.append(raw(d[name]) if name in d else None)
  return out


def nearest_expected(p, x, margin):
  """Nearest feasible value to x, or None when two candidates are within margin."""
  if p['kind'] == 'INTEGER':
    if x <= p['lo']:
      c1, c2 = p['lo'], p['lo'] + 1
    elif x >= p['hi']:
      c1, c2 = p['hi'], p['hi'] - 1
    else:
      fl = math.floor(x)
      c1, c2 = (fl, fl + 1) if x - fl <= 0.5 else (fl + 1, fl)
    if p['lo'] == p['hi']:
      return p['lo']
    if abs(abs(x - c2) - abs(x - c1)) <= 2 * margin:
      return None
    return c1
  vals = feasible(p)
  if len(vals) == 1:
    return vals[0]
  ds = sorted((abs(x - w), w) for w in vals)
  if ds[1][0] - ds[0][0] <= 2 * margin:
    return None
  return ds[0][1]


def check_decode_param(R, p, m, o, feats, decoded, eps, dt, cls):
  """feats: float64 copies of the features handed to the decoder (n,) for
  continuous paths, (n, dims) for one-hot, int list for index."""
  ctx = R.ctx
  tag = f"{p['kind']}:{m['path']}"
  xt = ':extreme' if cls in ('extreme', 'big') else ''
  sc = m.get('scale', 'NA')
  for r in range(len(decoded)):
    got = decoded[r]
    if got is None:
      if m['path'] in ('continuous', 'continuified') and not math.isfinite(
          sim_unscale(m, float(feats[r]), dt)):
        # finite feature, but the unscaling arithmetic overflows in the dtype and
        # the converter then treats the non-finite value as "missing"
        mech = f'decode-missing:unscale-overflow:{sc}'
        if mech not in R.soft:
          R.soft.add(mech)
          R.ctx.violation(mech, f"{p['name']}: finite feature {feats[r]!r} decodes to "
                          '"parameter missing": un-scaling overflows to a non-finite value, '
                          'which the converter drops instead of clipping into the space',
                          R.case, {'param': p, 'opts': o, 'array_class': cls,
                                   'feature': feats[r]})
        ctx.count('decode_missing_by_overflow')
        continue
      R.v(f'decode-missing:{m["path"]}:{sc}:finite-value-dropped',
          f"{p['name']}: finite feature {feats[r]!r} decodes to \"parameter missing\" instead of "
          'a value inside the space', {'param': p, 'opts': o, 'array_class': cls})
      return
    ctx.count('decode_membership_checked')
    if not gen.member1(p, got):
      R.v(f'decode-outside-space:{tag}:{sc}{xt}', f"{p['name']}: feature {feats[r]!r} decodes to "
          f"{got!r} ({type(got).__name__}) outside the space", {'param': p, 'opts': o,
                                                               'array_class': cls})
      return
    if m['path'] == 'onehot':
      row = np.asarray(feats[r][:m['n']], dtype=np.float64)
      top = np.flatnonzero(row == row.max())
      if top.size == 1:
        ctx.count('decode_onehot_argmax_checked')
        exp = feasible(p)[int(top[0])]
        if not same_value(p, got, exp):
          R.v(f'decode-onehot-not-argmax:{p["kind"]}:pad{o["pad_oovs"]}',
              f"{p['name']}: block {feats[r]!r} decodes to {got!r}, the largest in-vocabulary "
              f"entry is {exp!r}", {'param': p, 'opts': o})
          return
      continue
    if m['path'] == 'index':
      exp = feasible(p)[int(feats[r])]
      if not same_value(p, got, exp):
        R.v(f'decode-index-wrong:{p["kind"]}', f"{p['name']}: index {feats[r]} decodes to {got!r}, "
            f"feasible value at that index is {exp!r}", {'param': p})
        return
      continue
    if cls in ('extreme',):
      continue
    x_ref, tol_u = ref_inverse(m, float(feats[r]))
    if not math.isfinite(x_ref):
      continue
    tol = tol_u * eps + 5e-324
    if m['path'] == 'continuous':
      ctx.count('decode_value_checked')
      exp = min(max(x_ref, m['lo']), m['hi'])
      if exp != x_ref:
        # clipped: an implementation may also clip in the scaled space and
        # un-scale the bound, which is only accurate relative to the bound
        tol += rt_tolerance(m, exp, eps)
      headroom('decode', sc + ':' + str(np.dtype(dt)), abs(got - exp), tol)
      if abs(got - exp) > tol:
        R.v(f'decode-value:{tag}:{sc}{xt}', f"{p['name']}: feature {feats[r]!r} decodes to {got!r}; "
            f"unscale-then-clip gives {exp!r} (tolerance {tol:.3g})", {'param': p, 'opts': o})
        return
    else:
      exp = nearest_expected(p, x_ref, tol + abs(x_ref) * eps)
      if exp is None:
        ctx.count('decode_nearest_ties_skipped')
        continue
      # the dtype must be able to tell exp from its neighbours
      if neighbours_gap(p, exp, dt) <= 4 * (tol + abs(float(exp)) * eps):
        ctx.count('decode_nearest_ties_skipped')
        continue
      ctx.count('decode_nearest_checked')
      if not same_value(p, got, exp):
        R.v(f'decode-not-nearest:{tag}:{sc}{xt}', f"{p['name']}: feature {feats[r]!r} (value "
            f"{x_ref!r}) decodes to {got!r}, nearest feasible value is {exp!r}",
            {'param': p, 'opts': o})
        return


# ---------------------------------------------------------------------------
# subjects
# ---------------------------------------------------------------------------
def make_problem(desc, metrics=None):
  from vizier import pyvizier as vz
  space = gen.build_space(desc)
  mi = metrics or [vz.MetricInformation(name='obj', goal=vz.ObjectiveMetricGoal.MAXIMIZE)]
  return vz.ProblemStatement(search_space=space, metric_information=mi)


BOOL_SPELLING = {'True': True, 'False': False}


def make_trials(points, case=None, ctx=None):
  """Trials for `points`; rows in case['pybool'] spell BOOL values as Python bools."""
  from vizier import pyvizier as vz
  rows = set(case.get('pybool', ())) if case else set()
  bools = [p['name'] for p in case['desc'] if p['kind'] == 'BOOL'] if rows else []
  out = []
  for r, pt in enumerate(points):
    prm = dict(pt)
    if r in rows:
      for nm in bools:
        prm[nm] = BOOL_SPELLING[prm[nm]]
        if ctx is not None:
          ctx.count('bool_values_spelled_as_python_bool')
          ctx.count('bool_python_spelling:' + case['subject'])
    out.append(vz.Trial(parameters=prm))
  return out


def canon(v):
  """Canonical spelling of a categorical value (Python bool -> 'True'/'False')."""
  return ('True' if v else 'False') if isinstance(v, bool) else v


def _sched(o):
  from vizier.pyvizier.converters import padding
  T = {'NONE': padding.PaddingType.NONE, 'M10': padding.PaddingType.MULTIPLES_OF_10,
       'P2': padding.PaddingType.POWERS_OF_2}
  a, b = o['sched']
  return padding.PaddingSchedule(num_trials=T[a], num_features=T[b], num_metrics=T[b])


def padded_ok(kind, dim, padded):
  if kind == 'NONE':
    return padded == dim
  if kind == 'M10':
    return padded % 10 == 0 and dim <= padded < dim + 10
  if dim == 0:
    return padded == 0
  return padded >= dim and padded & (padded - 1) == 0 and padded < 2 * dim


def eps_of(arr_dtype, o):
  dt = np_dtype(o)
  if np.issubdtype(arr_dtype, np.floating) and np.finfo(arr_dtype).eps > np.finfo(dt).eps:
    return float(np.finfo(arr_dtype).eps), np.dtype(arr_dtype).type
  return float(np.finfo(dt).eps), dt


def run_inputs_case(ctx, case):
  """DTC / T2A / PADDED / T2MI."""
  from vizier.pyvizier import converters
  from vizier.pyvizier.converters import core
  from vizier._src.jax import types as vt
  R = Reporter(ctx, case)
  subject, o, desc, pts = case['subject'], case['opts'], case['desc'], case['points']
  dt = np_dtype(o)
  by_name = {p['name']: p for p in desc}
  models = {p['name']: model(p, o) for p in desc}
  n = len(pts)
  key = opt_key(subject, o)
  stage = 'build'
  try:
    problem = make_problem(desc)
    trials = make_trials(pts, case, ctx)
    if subject == 'DTC':
      pconvs = [core.DefaultModelInputConverter(
          pc, scale=bool(o['scale']), onehot_embed=bool(o['onehot']),
          pad_oovs=bool(o['pad_oovs']), max_discrete_indices=MDI[o['mdi']],
          float_dtype=dt, should_clip=bool(o['clip']))
                for pc in problem.search_space.parameters]
      conv = core.DefaultTrialConverter(pconvs)
      if (o['scale'], o['onehot'], o['pad_oovs'], o['mdi'], o['dtype'], o['clip']) == \
          (0, 0, 1, '10', 'f32', 1):
        # these are the defaults of the documented factory: use it
        conv = core.DefaultTrialConverter.from_study_config(problem)
        pconvs = conv.parameter_converters
        ctx.count('dtc_factory_used')
      specs = [c.output_spec for c in pconvs]
    elif subject == 'T2A':
      conv = core.TrialToArrayConverter.from_study_config(
          problem, scale=bool(o['scale']), pad_oovs=bool(o['pad_oovs']),
          max_discrete_indices=MDI[o['mdi']], should_clip=bool(o['clip']), dtype=dt)
      specs = list(conv.output_specs)
    elif subject == 'PADDED':
      conv = converters.PaddedTrialToArrayConverter.from_study_config(
          problem, scale=bool(o['scale']), pad_oovs=bool(o['pad_oovs']),
          max_discrete_indices=MDI[o['mdi']], dtype=dt, padding_schedule=_sched(o))
      specs = list(conv.output_specs)
    else:
      conv = converters.TrialToModelInputConverter.from_problem(
          problem, scale=bool(o['scale']), max_discrete_indices=MDI[o['mdi']],
          dtype=dt, padding_schedule=_sched(o))
      sp = conv.output_specs
      specs = list(sp.continuous) + list(sp.categorical)
    # ---- output specs ------------------------------------------------------
    stage = 'spec'
    ctx.count('specs_checked')
    T = core.NumpyArraySpecType
    kind_of = {'continuous': T.CONTINUOUS, 'continuified': T.CONTINUOUS,
               'index': T.DISCRETE, 'onehot': T.ONEHOT_EMBEDDING}
    if sorted(s.name for s in specs) != sorted(by_name):
      R.v('spec-names', f'output specs name {[s.name for s in specs]}', {'desc': desc})
      return False
    for s in specs:
      m = models[s.name]
      if s.type != kind_of[m['path']] or s.num_dimensions != m['dims']:
        R.v(f"spec-mismatch:{by_name[s.name]['kind']}:{m['path']}:m{o['mdi']}",
            f'{s.name}: output spec {s.type.name}/{s.num_dimensions} dims, documented '
            f"{kind_of[m['path']].name}/{m['dims']} for {n_feasible(by_name[s.name]) if by_name[s.name]['kind'] != 'DOUBLE' else 'inf'} "
            f"feasible values and max_discrete_indices={o['mdi']}", {'param': by_name[s.name], 'opts': o})
        return False
    # ---- encode ------------------------------------------------------------
    stage = 'to_features'
    tp0 = trial_params(trials)
    with np.errstate(all='ignore'):
      feats = conv.to_features(trials)
    ctx.count('encode_trials_unchanged_checked')
    if trial_params(trials) != tp0:
      R.v(f'encode-mutates-trials:{subject}', 'to_features changed the parameters of the trials '
          'it was given', {'opts': o})
      return False
    blocks = {}
    if subject == 'DTC':
      if list(feats.keys()) != [p['name'] for p in desc]:
        R.v('features-keys', f'to_features keys {list(feats.keys())}', {'desc': desc})
        return False
      blocks = {k: np.asarray(v) for k, v in feats.items()}
      flat = None
    elif subject in ('T2A', 'PADDED'):
      if subject == 'PADDED':
        ctx.count('padded_shapes_checked')
        full = np.asarray(feats.padded_array)
        d = sum(s.num_dimensions for s in specs)
        if not (padded_ok(o['sched'][0], n, full.shape[0]) and padded_ok(o['sched'][1], d, full.shape[1])):
          R.v(f"padding-shape:{'-'.join(o['sched'])}", f'padded feature shape {full.shape} for '
              f'({n},{d}) under schedule {o["sched"]}', {'opts': o})
          return False
        if not (np.all(np.isnan(full[n:, :])) and np.all(np.isnan(full[:, d:]))):
          R.v('padding-fill', 'padding area is not NaN', {'opts': o})
          return False
        unp = np.asarray(feats.unpad())
        if unp.shape != (n, d) or not np.array_equal(unp, full[:n, :d]):
          R.v('padding-unpad', f'unpad() shape {unp.shape} / content differs', {'opts': o})
          return False
        flat = full
        arr = full[:n, :d]
      else:
        arr = np.asarray(feats)
        flat = arr
        if arr.dtype != np.dtype(dt):
          R.v(f'feature-dtype:{subject}', f'feature dtype {arr.dtype} != {np.dtype(dt)}', {'opts': o})
          return False
      d = sum(s.num_dimensions for s in specs)
      if arr.ndim != 2 or arr.shape != (n, d):
        R.v(f'feature-shape:{subject}', f'features shape {arr.shape}, documented ({n},{d})', {'opts': o})
        return False
      c0 = 0
      for s in specs:
        blocks[s.name] = arr[:, c0:c0 + s.num_dimensions]
        c0 += s.num_dimensions
    else:  # T2MI
      ctx.count('padded_shapes_checked')
      cont_full = np.asarray(feats.continuous.padded_array)
      cat_full = np.asarray(feats.categorical.padded_array)
      nc, nk = len(sp.continuous), len(sp.categorical)
      for nm, full, dd in (('continuous', cont_full, nc), ('categorical', cat_full, nk)):
        if not (padded_ok(o['sched'][0], n, full.shape[0]) and padded_ok(o['sched'][1], dd, full.shape[1])):
          R.v(f"padding-shape:{'-'.join(o['sched'])}", f'padded {nm} shape {full.shape} for '
              f'({n},{dd}) under schedule {o["sched"]}', {'opts': o})
          return False
      if not (np.all(np.isnan(cont_full[n:, :])) and np.all(np.isnan(cont_full[:, nc:]))
              and np.all(cat_full[n:, :] == -1) and np.all(cat_full[:, nk:] == -1)):
        R.v('padding-fill', 'padding area is not NaN / -1', {'opts': o})
        return False
      if not np.issubdtype(cat_full.dtype, np.integer):
        R.v('index-dtype:T2MI', f'categorical dtype {cat_full.dtype}', {'opts': o})
        return False
      for j, s in enumerate(sp.continuous):
        blocks[s.name] = cont_full[:n, j:j + 1]
      for j, s in enumerate(sp.categorical):
        blocks[s.name] = cat_full[:n, j:j + 1]
      flat = None
    # ---- feature oracles -----------------------------------------------------
    stage = 'feature-oracle'
    unrep = {}
    eps_by = {}
    for p in desc:
      b = blocks[p['name']]
      eps, dt_eff = eps_of(b.dtype, o) if np.issubdtype(b.dtype, np.floating) else (float(np.finfo(dt).eps), dt)
      eps_by[p['name']] = (eps, dt_eff)
      if subject in ('DTC',) and models[p['name']]['path'] != 'index' and b.dtype != np.dtype(dt):
        R.v('feature-dtype:DTC', f"{p['name']}: feature dtype {b.dtype} != {np.dtype(dt)}", {'opts': o})
        return False
      u = check_feature_block(R, p, models[p['name']], o, b, [pt[p['name']] for pt in pts],
                              eps, dt_eff)
      if u is None:
        return False
      unrep[p['name']] = u
    # ---- decode the encoded points -------------------------------------------
    stage = 'to_parameters'
    dec_in = feats if subject in ('DTC', 'T2MI') else arr if subject == 'T2A' else flat
    snap = frozen(dec_in)
    with np.errstate(all='ignore'):
      pd = conv.to_parameters(dec_in)
      if not check_pure(R, 'decode', f'{subject}:encoded-points', snap, dec_in):
        return False
      # decoding is a function of the array: the same array decodes the same way again
      stage = 'to_parameters-again'
      pd_again = conv.to_parameters(dec_in)
      stage = 'to_parameters'
    ctx.count('decode_repeat_checked')
    if plain_dicts(pd_again) != plain_dicts(pd):
      R.v(f'decode-not-repeatable:{subject}', 'to_parameters gives different parameters when '
          'called a second time on the same feature array', {'opts': o})
      return False
    if subject == 'PADDED':
      pd = pd[:n]
    if len(pd) != n:
      R.v(f'decode-count:{subject}', f'{len(pd)} parameter dicts for {n} rows', {'opts': o})
      return False
    ctx.count('roundtrips')
    ctx.count('rt:' + key)
    nontrivial = False
    for p in desc:
      extra = [k for k in pd[0].keys() if k not in by_name]
      if extra:
        R.v('decode-extra-parameter', f'decoded unknown parameters {extra}', {'opts': o})
        return False
      eps, dt_eff = eps_by[p['name']]
      nt = check_roundtrip_param(R, p, models[p['name']], o, [pt[p['name']] for pt in pts],
                                 decoded_column(pd, p['name']), eps, dt_eff, unrep[p['name']])
      nontrivial = nontrivial or nt
      if R.fired:
        return nontrivial
    # ---- to_trials without labels (DTC, (n,1) blocks only) ---------------------
    if subject == 'DTC' and not o['onehot'] and case['index'] % 3 == 0:
      stage = 'to_trials'
      with np.errstate(all='ignore'):
        back = conv.to_trials(feats)
      ctx.count('dtc_to_trials_checked')
      got = [{k: raw(v) for k, v in t.parameters.items()} for t in back]
      want = [{k: raw(v) for k, v in d.items()} for d in pd]
      if got != want or any(t.final_measurement is not None for t in back):
        R.v('to-trials-differs-from-to-parameters', 'to_trials(features) does not carry the '
            'parameters of to_parameters(features)', {'opts': o})
        return nontrivial
    # ---- to_trials (T2MI) ----------------------------------------------------
    if subject == 'T2MI' and case['index'] % 2 == 0:
      stage = 'to_trials'
      with np.errstate(all='ignore'):
        labels = conv.to_labels(trials)
        back = conv.to_trials(vt.ModelData(features=feats, labels=labels))
      ctx.count('t2mi_to_trials_checked')
      if len(back) != n:
        R.v('to-trials-count', f'{len(back)} trials for {n}', {'opts': o})
        return nontrivial
      for p in desc:
        eps, dt_eff = eps_by[p['name']]
        check_roundtrip_param(R, p, models[p['name']], o, [pt[p['name']] for pt in pts],
                              decoded_column([t.parameters for t in back], p['name']),
                              eps, dt_eff, unrep[p['name']])
        if R.fired:
          return nontrivial
    # ---- OOV index decodes to "missing" (documented) ----------------------------
    if subject == 'DTC' and not o['onehot']:
      for pc_, p in zip(pconvs, desc):
        if models[p['name']]['path'] == 'index':
          stage = 'oov-index'
          got = pc_.to_parameter_values(np.array([[n_feasible(p)]], dtype=np.int32))
          ctx.count('oov_index_decodes_missing')
          if got != [None]:
            R.v(f'oov-index-decoded:{p["kind"]}', f"{p['name']}: out-of-vocabulary index "
                f'{n_feasible(p)} decodes to {got!r}, documented: missing', {'param': p})
            return nontrivial
          break
    # ---- arbitrary arrays -------------------------------------------------------
    if not o['clip']:
      ctx.count('clip_off_cases_without_membership_claim')
      return nontrivial
    stage = 'arbitrary'
    nrng = np.random.default_rng(case['aseed'])
    rows = 6
    for cls in ARRAY_CLASSES:
      cols = {}
      for p in desc:
        m = models[p['name']]
        if m['path'] == 'index':
          cols[p['name']] = nrng.integers(0, m['n'], (rows, 1)).astype(np.int32)
        else:
          c = cls
          if cls in ('big', 'extreme', 'subnormal') and nrng.random() < 0.3:
            c = 'uniform'   # mix ordinary columns in
          cols[p['name']] = np.stack([gen_column(nrng, c, rows, dt) for _ in range(m['dims'])], axis=1)
      with np.errstate(all='ignore'):
        if subject == 'DTC':
          snap = frozen(cols)
          pd = conv.to_parameters(cols)
          if not check_pure(R, 'decode', f'{subject}:arbitrary-array', snap, cols):
            R.case.setdefault('fired_class', cls)
            return nontrivial
        elif subject in ('T2A', 'PADDED'):
          a = np.concatenate([cols[s.name] for s in specs], axis=1)
          if subject == 'PADDED':
            extra_cols = flat.shape[1] - a.shape[1]
            if extra_cols:
              a = np.concatenate([a, gen_column(nrng, 'uniform', rows * extra_cols, dt).reshape(rows, -1)], axis=1)
          snap = frozen(a)
          pd = conv.to_parameters(a)
          if not check_pure(R, 'decode', f'{subject}:arbitrary-array', snap, a):
            R.case.setdefault('fired_class', cls)
            return nontrivial
        else:
          sch = _sched(o)
          cc = (np.concatenate([cols[s.name] for s in sp.continuous], axis=1)
                if sp.continuous else np.zeros((rows, 0), dtype=dt))
          kk = (np.concatenate([cols[s.name] for s in sp.categorical], axis=1)
                if sp.categorical else np.zeros((rows, 0), dtype=np.int32))
          mi = vt.ContinuousAndCategorical(sch.pad_features(cc), sch.pad_features(kk))
          # what jax actually stored (float64 may have been narrowed)
          stored = np.asarray(mi.continuous.padded_array)[:rows]
          for j, s in enumerate(sp.continuous):
            cols[s.name] = stored[:, j:j + 1]
          pd = conv.to_parameters(mi)
      ctx.count('arbitrary_arrays_decoded')
      ctx.count('arb:' + key)
      ctx.count('arbitrary_class:' + cls)
      ctx.case([subject, key, cls, gen.space_shape(desc)], nontrivial=True)
      if len(pd) != rows:
        R.v(f'decode-count:{subject}', f'{len(pd)} parameter dicts for {rows} rows', {'opts': o})
        return nontrivial
      for p in desc:
        m = models[p['name']]
        col = cols[p['name']]
        if m['path'] == 'index':
          fl = [int(x) for x in col[:, 0]]
        elif m['path'] == 'onehot':
          fl = [[float(x) for x in row] for row in col]
        else:
          if not np.all(np.isfinite(col)):
            continue    # narrowed by jax into inf: not a finite array any more
          fl = [float(x) for x in col[:, 0]]
        eps, dt_eff = eps_of(col.dtype, o) if np.issubdtype(col.dtype, np.floating) else (float(np.finfo(dt).eps), dt)
        check_decode_param(R, p, m, o, fl, decoded_column(pd, p['name']), eps, dt_eff, cls)
        if R.fired:
          R.case.setdefault('fired_class', cls)
          return nontrivial
    return nontrivial
  except Exception as e:  # pylint: disable=broad-except
    import traceback
    tb = traceback.extract_tb(e.__traceback__)
    where = next((f'{f.name}' for f in reversed(tb) if '/vizier/' in f.filename), 'harness')
    if where == 'harness':
      raise
    R.v(f'exception:{subject}:{stage}:{type(e).__name__}:{where}',
        f'{subject} raised {type(e).__name__}: {e} during {stage}', {'opts': o})
    return False


# ---------------------------------------------------------------------------
def run_scaler_case(ctx, case):
  from vizier.pyvizier import converters
  from vizier import pyvizier as vz
  R = Reporter(ctx, case)
  o, desc, pts = case['opts'], case['desc'], case['points']
  dt = np.float32
  eps = float(np.finfo(dt).eps)
  models = {p['name']: model(p, o) for p in desc}
  stage = 'build'
  try:
    problem = make_problem(desc)
    # scaled DISCRETE feasible values must stay distinct in float32, otherwise
    # the embedded space cannot be built: not representable
    for p in desc:
      if p['kind'] == 'DISCRETE' and len(p['values']) > 1:
        m = models[p['name']]
        fs = []
        for v in feasible(p):
          if m['lo'] == m['hi']:
            fs.append((0.5, 0.0))
          else:
            ref, tol_u = ref_feature(m, v)
            fs.append((ref, tol_u * eps))
        fs.sort()
        if any(b[0] - a[0] <= 4 * (a[1] + b[1]) for a, b in zip(fs, fs[1:])):
          ctx.count('scaler_space_unrepresentable')
          ctx.case(['SCALER', 'unrepresentable', gen.space_shape(desc)], nontrivial=False)
          return False
    with np.errstate(all='ignore'):
      scaler = converters.ProblemAndTrialsScaler(problem)
    stage = 'map'
    trials = make_trials(pts, case, ctx)
    tp0 = trial_params(trials)
    with np.errstate(all='ignore'):
      mapped = scaler.map(trials)
    ctx.count('encode_trials_unchanged_checked')
    if trial_params(trials) != tp0:
      R.v('encode-mutates-trials:SCALER', 'ProblemAndTrialsScaler.map changed the parameters '
          'of the trials it was given', {'opts': o})
      return False
    emb = scaler.problem_statement.search_space
    unrep = {}
    for p in desc:
      m = models[p['name']]
      vals = [pt[p['name']] for pt in pts]
      got = [raw(t.parameters[p['name']]) if p['name'] in t.parameters else None for t in mapped]
      if any(g is None for g in got):
        R.v('scaler-map-missing', f"{p['name']} missing after map", {'param': p})
        return False
      if p['kind'] in ('CATEGORICAL', 'BOOL'):
        ctx.count('scaler_categorical_unchanged_checked')
        if [canon(g) for g in got] != vals:
          R.v('scaler-categorical-changed', f"{p['name']}: {vals} -> {got}", {'param': p})
          return False
        unrep[p['name']] = [False] * len(vals)
        continue
      block = np.array(got, dtype=np.float64).reshape(-1, 1)
      u = check_feature_block(R, p, m, o, block, vals, eps, dt)
      if u is None:
        return False
      unrep[p['name']] = u
      # mapped values live in the embedded space
      epc = emb.get(p['name'])
      ctx.count('scaler_embedded_membership_checked')
      if p['kind'] == 'DISCRETE':
        ef = [float(x) for x in epc.feasible_values]
        bad = [g for g in got if float(g) not in ef]
      else:
        b0, b1 = epc.bounds
        bad = [g for g in got if not b0 <= g <= b1]
        if not (0.0 <= b0 <= b1 <= 1.0):
          R.v('scaler-embedded-bounds', f"{p['name']}: embedded bounds {epc.bounds}", {'param': p})
          return False
      if bad:
        k = got.index(bad[0])
        excess = max(b0 - bad[0], bad[0] - b1) if p['kind'] != 'DISCRETE' else float('inf')
        at_bound = p['kind'] != 'DISCRETE' and float(vals[k]) in (m['lo'], m['hi'])
        within = excess <= ref_feature(m, float(vals[k]))[1] * eps
        shape = ('rounding-at-bound' if at_bound and within else
                 'rounding-interior' if within else 'gross')
        mech = f'scaler-mapped-outside-embedded:{p["kind"]}:{m["scale"]}:{shape}'
        if shape == 'gross':
          R.v(mech, f"{p['name']}: mapped value {bad[0]!r} is outside the embedded search space",
              {'param': p})
          return False
        if mech not in R.soft:
          R.soft.add(mech)
          ctx.violation(mech, f"{p['name']}: feasible value {vals[k]!r} is mapped to {bad[0]!r}, "
                        f'outside the embedded search space {epc.bounds} that '
                        'ProblemAndTrialsScaler itself publishes', case,
                        {'param': p, 'value': vals[k], 'mapped': bad[0]})
        ctx.count('scaler_mapped_outside_by_rounding')
    stage = 'unmap'
    tp0 = trial_params(mapped)
    with np.errstate(all='ignore'):
      back = scaler.unmap(mapped)
    ctx.count('decode_trials_unchanged_checked')
    if trial_params(mapped) != tp0:
      R.v('decode-mutates-input:SCALER:mapped-trials', 'ProblemAndTrialsScaler.unmap changed '
          'the parameters of the (embedded) trials it was given', {'opts': o})
      return False
    ctx.count('scaler_unmap_roundtrips')
    ctx.count('roundtrips')
    nontrivial = False
    for p in desc:
      if p['kind'] in ('CATEGORICAL', 'BOOL'):
        got = [raw(t.parameters[p['name']]) for t in back]
        if [canon(g) for g in got] != [pt[p['name']] for pt in pts]:
          R.v('scaler-categorical-changed', f"{p['name']} changed by unmap", {'param': p})
          return nontrivial
        continue
      nt = check_roundtrip_param(R, p, models[p['name']], o, [pt[p['name']] for pt in pts],
                                 decoded_column([t.parameters for t in back], p['name']),
                                 eps, dt, unrep[p['name']])
      nontrivial = nontrivial or nt
      if R.fired:
        return nontrivial
    # arbitrary embedded values in [0,1] for numeric parameters
    stage = 'unmap-arbitrary'
    nrng = np.random.default_rng(case['aseed'])
    for cls in ('unit', 'edges', 'uniform'):
      rows = 5
      cols = {p['name']: gen_column(nrng, cls, rows, dt) for p in desc
              if p['kind'] not in ('CATEGORICAL', 'BOOL')}
      ts = []
      for r in range(rows):
        prm = {}
        for p in desc:
          if p['name'] in cols:
            prm[p['name']] = float(cols[p['name']][r])
          else:
            prm[p['name']] = pts[r][p['name']]
        ts.append(vz.Trial(parameters=prm))
      with np.errstate(all='ignore'):
        back = scaler.unmap(ts)
      ctx.count('arbitrary_arrays_decoded')
      ctx.case(['SCALER', cls, gen.space_shape(desc)], nontrivial=True)
      for p in desc:
        if p['name'] not in cols:
          continue
        check_decode_param(R, p, models[p['name']], o, [float(x) for x in cols[p['name']]],
                           decoded_column([t.parameters for t in back], p['name']), eps, dt, cls)
        if R.fired:
          return nontrivial
    return nontrivial
  except Exception as e:  # pylint: disable=broad-except
    import traceback
    tb = traceback.extract_tb(e.__traceback__)
    where = next((f'{f.name}' for f in reversed(tb) if '/vizier/' in f.filename), 'harness')
    if where == 'harness':
      raise
    R.v(f'exception:SCALER:{stage}:{type(e).__name__}:{where}',
        f'ProblemAndTrialsScaler raised {type(e).__name__}: {e} during {stage}', {'opts': o})
    return False


def run_fmap_case(ctx, case):
  from vizier.pyvizier.converters import core, feature_mapper
  from vizier._src.jax import types as vt
  R = Reporter(ctx, case)
  o, desc, pts = case['opts'], case['desc'], case['points']
  dt = np_dtype(o)
  models = {p['name']: model(p, o) for p in desc}
  stage = 'build'
  try:
    problem = make_problem(desc)
    conv = core.TrialToArrayConverter.from_study_config(
        problem, scale=bool(o['scale']), pad_oovs=bool(o['pad_oovs']),
        max_discrete_indices=MDI[o['mdi']], dtype=dt)
    fm = feature_mapper.ContinuousCategoricalFeatureMapper(conv)
    with np.errstate(all='ignore'):
      arr = conv.to_features(make_trials(pts, case, ctx))
      stage = 'map'
      mapped = fm.map(arr)
    cont = np.asarray(mapped.continuous)
    cat = np.asarray(mapped.categorical)
    specs = list(conv.output_specs)
    ci = ki = c0 = 0
    for s in specs:
      p = next(q for q in desc if q['name'] == s.name)
      m = models[s.name]
      vals = [pt[s.name] for pt in pts]
      if m['path'] == 'onehot':
        exp = [index_of(p, v) for v in vals]
        got = [int(x) for x in cat[:, ki]]
        ctx.count('fmap_indices_checked')
        if exp != got:
          R.v(f'fmap-index-wrong:{p["kind"]}:pad{o["pad_oovs"]}', f'{s.name}: mapped categorical '
              f'indices {got} != {exp}', {'param': p, 'opts': o})
          return False
        ki += 1
      else:
        if not np.array_equal(cont[:, ci], arr[:, c0]):
          R.v('fmap-continuous-changed', f'{s.name}: continuous column changed by map', {'opts': o})
          return False
        ci += 1
      c0 += s.num_dimensions
    stage = 'unmap'
    with np.errstate(all='ignore'):
      un = np.asarray(fm.unmap(mapped))
    ctx.count('fmap_roundtrips')
    eps = max(float(np.finfo(un.dtype).eps), float(np.finfo(dt).eps)) if np.issubdtype(un.dtype, np.floating) else 1.0
    if un.shape != arr.shape or not np.all(np.abs(un - arr) <= eps * np.abs(arr)):
      R.v('fmap-roundtrip-mismatch', 'unmap(map(features)) != features', {'opts': o, 'features': arr, 'unmapped': un})
      return False
    with np.errstate(all='ignore'):
      pd = conv.to_parameters(un.astype(dt))
    nontrivial = False
    e2, dt_eff = eps_of(un.dtype, o) if np.issubdtype(un.dtype, np.floating) else (float(np.finfo(dt).eps), dt)
    for p in desc:
      nt = check_roundtrip_param(R, p, models[p['name']], o, [pt[p['name']] for pt in pts],
                                 decoded_column(pd, p['name']), e2, dt_eff, None)
      nontrivial = nontrivial or nt
      if R.fired:
        return nontrivial
    ctx.count('roundtrips')
    return nontrivial
  except Exception as e:  # pylint: disable=broad-except
    import traceback
    tb = traceback.extract_tb(e.__traceback__)
    where = next((f'{f.name}' for f in reversed(tb) if '/vizier/' in f.filename), 'harness')
    if where == 'harness':
      raise
    R.v(f'exception:FMAP:{stage}:{type(e).__name__}:{where}',
        f'feature mapper raised {type(e).__name__}: {e} during {stage}', {'opts': o})
    return False


# ---------------------------------------------------------------------------
# metrics
# ---------------------------------------------------------------------------
VALUE_CLASSES = ['uniform', 'wide', 'ints', 'zero', 'neg', 'huge', 'tiny', 'withnan', 'missing']


def gen_metric_case(rng, i):
  cls = VALUE_CLASSES[i % len(VALUE_CLASSES)]
  n = rng.choice([1, 2, 3, 5, 8])
  vals = []
  for _ in range(n):
    if cls == 'uniform':
      v = rng.uniform(-10, 10)
    elif cls == 'wide':
      v = rng.choice([-1, 1]) * rng.uniform(1, 10) * 10 ** rng.randint(-30, 30)
    elif cls == 'ints':
      v = float(rng.randint(-1000, 1000))
    elif cls == 'zero':
      v = rng.choice([0.0, -0.0, 1.0])
    elif cls == 'neg':
      v = -rng.uniform(0, 1e6)
    elif cls == 'huge':
      v = rng.choice([-1, 1]) * rng.uniform(1, 9) * 10 ** rng.choice([38, 39, 100, 300])
    elif cls == 'tiny':
      v = rng.choice([-1, 1]) * rng.uniform(1, 9) * 10 ** rng.choice([-38, -44, -46, -300, -320])
    elif cls == 'withnan':
      v = rng.choice([float('nan'), rng.uniform(-5, 5), float('inf'), float('-inf')])
    else:
      v = rng.choice([None, rng.uniform(-5, 5)])
    vals.append(v)
  return {'subject': 'METRIC', 'class': cls, 'index': i,
          'goal': ['MINIMIZE', 'MAXIMIZE'][(i // 2) % 2], 'flip': i % 2,
          'dtype': ['f32', 'f64', 'float'][(i // 4) % 3],
          'via': ['direct', 'direct1d', 'dtc', 't2a', 'padded'][(i // 12) % 5],
          # the per-metric converter of t2a / padded gets the documented (num,) shape
          # in every other block of 60 cases
          'shape1d': (i // 60) % 2,
          'with_safety': int(rng.random() < 0.3),
          'raise_missing': int(cls == 'missing' and rng.random() < 0.3),
          'values': [None if v is None else repr(float(v)) for v in vals]}


def decode_labels(R, oc, arg, tagk):
  """to_metrics(arg) with the purity monitors: the label array is only read, and the
  same labels decode to the same metric values again. Returns values or None (fired)."""
  ctx = R.ctx
  shape = f'{arg.ndim}d'
  snap = frozen(arg)
  back = [None if b is None else b.value for b in oc.to_metrics(arg)]
  ctx.count('label_decode_pure_checked:' + shape)
  ctx.count('label_decode_pure_checked:' + tagk)
  if frozen(arg) != snap:
    R.v(f'label-decode-mutates-input:{tagk}:{shape}', f'to_metrics modified the {shape} label '
        'array it was given in place: converting the same labels back again returns '
        'different metric values', {'labels_before': np.frombuffer(snap[2], dtype=snap[1]),
                                    'labels_after': arg})
    return None
  again = [None if b is None else b.value for b in oc.to_metrics(arg)]
  if repr(again) != repr(back):
    R.v(f'label-decode-not-repeatable:{tagk}:{shape}', f'labels {arg!r} decode to {back!r} and, '
        f'on a second call with the same array, to {again!r}', None)
    return None
  return back


def run_metric_case(ctx, case):
  from vizier import pyvizier as vz
  from vizier.pyvizier import converters
  from vizier.pyvizier.converters import core, padding
  R = Reporter(ctx, case)
  goal = getattr(vz.ObjectiveMetricGoal, case['goal'])
  flip = bool(case['flip'])
  dt = {'f32': np.float32, 'f64': np.float64, 'float': float}[case['dtype']]
  ndt = np.float32 if case['dtype'] == 'f32' else np.float64
  fi = np.finfo(ndt)
  vals = [None if v is None else float(v) for v in case['values']]
  via = case['via']
  tagk = f"{case['goal']}:{'flip' if flip else 'noflip'}"
  mi = vz.MetricInformation(name='obj', goal=goal)
  metrics_cfg = [mi]
  if case['with_safety']:
    metrics_cfg.append(vz.MetricInformation(name='safe', goal=vz.ObjectiveMetricGoal.MAXIMIZE,
                                            safety_threshold=0.5))
  meas = []
  for v in vals:
    d = {}
    if v is not None:
      d['obj'] = vz.Metric(value=v)
    if case['with_safety']:
      d['safe'] = vz.Metric(value=0.7)
    meas.append(vz.Measurement(metrics=d))
  sign = -1.0 if (flip and case['goal'] == 'MINIMIZE') else 1.0
  stage = 'build'
  try:
    with np.errstate(all='ignore'):
      if via in ('direct', 'direct1d'):
        oc = core.DefaultModelOutputConverter(
            mi, flip_sign_for_minimization_metrics=flip, dtype=dt,
            raise_errors_for_missing_metrics=bool(case['raise_missing']))
        stage = 'convert'
        if case['raise_missing'] and any(v is None for v in vals):
          try:
            oc.convert(meas)
          except KeyError:
            ctx.count('missing_metric_raises_checked')
            ctx.case(['METRIC', 'raise', tagk], nontrivial=False)
            return False
          R.v('label-missing-not-raised', 'raise_errors_for_missing_metrics=True did not raise', None)
          return False
        labels = oc.convert(meas)
        info = oc.metric_information
        stage = 'to_metrics'
        arg = labels.copy()
        arg = arg[:, 0] if via == 'direct1d' else arg
        back = decode_labels(R, oc, arg, tagk)
        if back is None:
          return False
        lab = np.asarray(labels)
        # convert() is a function of the measurements: a second call gives the same
        # labels, whatever happened to the first result in between
        ctx.count('label_encode_repeat_checked')
        if frozen(np.asarray(oc.convert(meas))) != frozen(lab):
          R.v(f'label-encode-not-repeatable:{tagk}', 'convert(measurements) gives different labels '
              'when called a second time', None)
          return False
      else:
        desc = [{'name': 'x', 'kind': 'DOUBLE', 'lo': 0.0, 'hi': 1.0, 'scale': None, 'default': None}]
        problem = make_problem(desc, metrics_cfg)
        trials = []
        for k, ms in enumerate(meas):
          t = vz.Trial(parameters={'x': 0.25})
          t.complete(ms)
          trials.append(t)
        if via == 'dtc':
          conv = core.DefaultTrialConverter(
              [core.DefaultModelInputConverter(pc) for pc in problem.search_space.parameters],
              [core.DefaultModelOutputConverter(m_, flip_sign_for_minimization_metrics=flip, dtype=dt)
               for m_ in metrics_cfg])
          stage = 'to_labels'
          ld = conv.to_labels(trials)
          lab = np.asarray(ld['obj'])
          info = conv.metric_information['obj']
          stage = 'to_trials'
          fd = conv.to_features(trials)
          snap = (frozen(dict(ld)), frozen(dict(fd)))

          def _objs(ts):
            return [t.final_measurement.metrics['obj'].value
                    if t.final_measurement and 'obj' in t.final_measurement.metrics else None
                    for t in ts]
          back = _objs(conv.to_trials(fd, ld))
          ctx.count('label_decode_pure_checked:2d')
          ctx.count('label_decode_pure_checked:' + tagk)
          if (frozen(dict(ld)), frozen(dict(fd))) != snap:
            R.v(f'label-decode-mutates-input:{tagk}:dtc', 'to_trials modified the label / feature '
                'arrays it was given in place', None)
            return False
          if repr(_objs(conv.to_trials(fd, ld))) != repr(back):
            R.v(f'label-decode-not-repeatable:{tagk}:dtc', 'to_trials gives different metric '
                'values when called a second time on the same labels', None)
            return False
        else:
          if via == 't2a':
            conv = core.TrialToArrayConverter.from_study_config(
                problem, flip_sign_for_minimization_metrics=flip, dtype=ndt)
            stage = 'to_labels'
            la = np.asarray(conv.to_labels(trials))
          else:
            sched = padding.PaddingSchedule(num_trials=padding.PaddingType.POWERS_OF_2,
                                            num_metrics=padding.PaddingType.MULTIPLES_OF_10)
            conv = converters.PaddedTrialToArrayConverter.from_study_config(
                problem, flip_sign_for_minimization_metrics=flip, dtype=ndt,
                padding_schedule=sched)
            stage = 'to_labels'
            pl = conv.to_labels(trials)
            full = np.asarray(pl.padded_array)
            if full.shape[1] != 10 or not padded_ok('P2', len(trials), full.shape[0]) or \
                not np.all(np.isnan(full[len(trials):])) or not np.all(np.isnan(full[:, len(metrics_cfg):])):
              R.v('padding-labels', f'padded labels shape {full.shape} / fill wrong', None)
              return False
            la = np.asarray(pl.unpad())
            ctx.count('padded_shapes_checked')
          if la.shape != (len(trials), len(metrics_cfg)):
            R.v(f'label-shape:{via}', f'labels shape {la.shape}', None)
            return False
          lab = la[:, :1]
          info = conv.metric_specs[0]
          stage = 'to_metrics'
          oc = conv._impl.metric_converters[0] if via == 't2a' else conv._impl._impl.metric_converters[0]
          arg = lab.copy()
          back = decode_labels(R, oc, arg[:, 0] if case.get('shape1d') else arg, tagk)
          if back is None:
            return False
    # ---- oracles -----------------------------------------------------------------
    if lab.shape != (len(vals), 1):
      R.v(f'label-shape:{via}', f'labels shape {lab.shape}, documented ({len(vals)},1)', None)
      return False
    exp_goal = 'MAXIMIZE' if (flip or case['goal'] == 'MAXIMIZE') else 'MINIMIZE'
    ctx.count('label_goal_checked')
    if info.goal.name != exp_goal:
      R.v(f'label-goal-info:{tagk}', f'converter reports goal {info.goal.name}, labels follow {exp_goal}', None)
      return False
    eps = float(np.finfo(lab.dtype).eps) if np.issubdtype(lab.dtype, np.floating) else float(fi.eps)
    eps = max(eps, float(fi.eps))
    lim_hi = float(np.finfo(lab.dtype).max) if np.issubdtype(lab.dtype, np.floating) else float(fi.max)
    lim_hi = min(lim_hi, float(fi.max))
    lim_lo = max(float(fi.tiny), float(np.finfo(lab.dtype).tiny) if np.issubdtype(lab.dtype, np.floating) else 0.0)
    nontrivial = False
    for r, v in enumerate(vals):
      l = float(lab[r, 0])
      b = back[r]
      if v is None or v != v:
        ctx.count('label_missing_or_nan_checked')
        if l == l or b is not None:
          R.v('label-missing-not-nan', f'missing / NaN metric gave label {l!r}, metric {b!r}', None)
          return False
        continue
      if math.isinf(v) or abs(v) > lim_hi or (v != 0 and abs(v) < lim_lo):
        ctx.count('label_values_unrepresentable')
        continue
      ctx.count('label_sign_checked')
      if abs(l - sign * v) > 2 * eps * abs(v):
        R.v(f'label-sign:{tagk}', f'value {v!r} -> label {l!r}, documented {sign * v!r}', None)
        return False
      ctx.count('label_roundtrips:' + tagk)
      ctx.count('label_roundtrips_via:' + via)
      if b is None or abs(b - v) > 2 * eps * abs(v):
        R.v(f'label-roundtrip:{tagk}', f'value {v!r} -> label {l!r} -> metric {b!r}', None)
        return False
      nontrivial = True
    ctx.case(['METRIC', via, tagk, case['dtype'], case['class'], len(vals), case['with_safety']],
             nontrivial=nontrivial)
    return nontrivial
  except Exception as e:  # pylint: disable=broad-except
    import traceback
    tb = traceback.extract_tb(e.__traceback__)
    where = next((f'{f.name}' for f in reversed(tb) if '/vizier/' in f.filename), 'harness')
    if where == 'harness':
      raise
    R.v(f'exception:METRIC:{via}:{stage}:{type(e).__name__}:{where}',
        f'label conversion raised {type(e).__name__}: {e} during {stage}', None)
    return False


# ---------------------------------------------------------------------------
def run_case(ctx, case):
  s = case['subject']
  if s == 'METRIC':
    return run_metric_case(ctx, case)
  if s == 'SCALER':
    nt = run_scaler_case(ctx, case)
  elif s == 'FMAP':
    nt = run_fmap_case(ctx, case)
  else:
    nt = run_inputs_case(ctx, case)
  ctx.case([s, opt_key(s, case['opts']), gen.space_shape(case['desc'])], nontrivial=bool(nt))
  ctx.count('cases:' + s)
  return nt


def _enable_x64():
  import jax
  jax.config.update('jax_enable_x64', True)


def run_shard(ctx):
  _enable_x64()
  n_cases = 3360 if ctx.tier == 'quick' else 400000
  n_metric = 1800 if ctx.tier == 'quick' else 60000
  # metric cases first (cheap), then the input converters
  for i in range(n_metric):
    if not ctx.mine(i):
      continue
    if ctx.out_of_time():
      break
    case = gen_metric_case(ctx.rng(i, 'metric'), i)
    run_metric_case(ctx, case)
  for i in range(n_cases):
    if not ctx.mine(i):
      continue
    if ctx.out_of_time():
      ctx.note(f'time budget reached at case {i}')
      break
    case = gen_case(ctx.rng(i), i, ctx.tier)
    run_case(ctx, case)
    if i < 2 * ctx.nshards:
      ctx.sample({'subject': case['subject'], 'opts': case['opts'],
                  'space': [(p['kind'], p.get('scale')) for p in case['desc']],
                  'points': len(case['points'])})
  _emit_headroom(ctx)


def _emit_headroom(ctx):
  for k, r in sorted(HEADROOM.items()):
    b = 'le_1/8' if r <= 0.125 else 'le_1/4' if r <= 0.25 else 'le_1/2' if r <= 0.5 else 'le_1'
    ctx.count(f'headroom:{k}:{b}')


def replay(ctx, case):
  _enable_x64()
  run_case(ctx, case)
