"""C16 family 'life': add_trial decides against the space the study has *now*.

"Adding a trial through the client is refused when it is outside the space" is a
statement about the study that exists under the resource name at the time of
the call. A study name does not identify one immutable study: the study can be
deleted and created again under the same owner / study id (by another handle,
i.e. another worker) with another space; `from_study_config` on an existing
study ignores the config it is given; several studies with different spaces are
served by one service. So the refusal must not depend on

  * which handle is used (one that was opened / used before a delete + re-create,
    one opened afterwards, one obtained through from_study_config /
    from_owner_and_id / from_resource_name / a plain VizierClient),
  * what the handle did before (add_trial calls that were accepted or refused),
  * a config that was passed when the handle was made but that the service
    ignored, or the space of another study of the same service.

A case is a small *program* over one fresh local servicer (RAM or in-memory
SQL; installed as the implicit local servicer through the documented
`vizier_client.environment_variables` knob so that the public classmethods reach
it): create / open / delete / add ops on up to two study ids. The executor keeps
a model (current description per study id, generation counter, stored count)
and decides every add_trial with the independent oracle against the model's
current description. Assignments are drawn from the current space (all classes
of c16_member) and, deliberately, from the *other* descriptions of the case
(the replaced space, the ignored config, the sibling study) so that an answer
computed from the wrong space is visible in both directions.
"""
import copy

from vv import gen
from vv import c16_member
from vv.c16_util import enc, dec, xmember

ROUTES = ['direct', 'classmethod']
_SEQ = [0]


# ---------------------------------------------------------------------------
# generation
# ---------------------------------------------------------------------------
def _sanitize(p):
  """Keeps scale / default of a mutated parameter description valid."""
  k = p['kind']
  if k in ('DOUBLE', 'INTEGER'):
    if p.get('scale') in ('LOG', 'REVERSE_LOG') and not (p['lo'] > 0 and p['hi'] > p['lo']):
      p['scale'] = None
  elif k == 'DISCRETE':
    if p.get('scale') in ('LOG', 'REVERSE_LOG') and not (p['values'][0] > 0
                                                         and len(p['values']) > 1):
      p['scale'] = None
  if k != 'BOOL' and p.get('default') is not None and not gen.member1(p, p['default']):
    p['default'] = None
  return p


def mutate_desc(rng, desc):
  """A description related to `desc` (what a re-created study plausibly gets)."""
  desc = copy.deepcopy(desc)
  want = rng.choice(['narrowed', 'narrowed', 'narrowed', 'widened', 'shifted', 'param-dropped',
                     'param-added', 'param-renamed', 'kind-changed', 'fresh'])
  idx = list(range(len(desc)))
  rng.shuffle(idx)
  if want == 'narrowed':
    for j in idx:
      p = desc[j]
      if p['kind'] == 'DOUBLE' and p['hi'] > p['lo']:
        cut = p['lo'] + (p['hi'] - p['lo']) * rng.uniform(0.1, 0.9)
        if p['lo'] < cut < p['hi']:
          if rng.random() < 0.5:
            p['hi'] = cut
          else:
            p['lo'] = cut
          _sanitize(p)
          return desc, want
      elif p['kind'] == 'INTEGER' and p['hi'] > p['lo']:
        if rng.random() < 0.5:
          p['hi'] = rng.randint(p['lo'], p['hi'] - 1)
        else:
          p['lo'] = rng.randint(p['lo'] + 1, p['hi'])
        _sanitize(p)
        return desc, want
      elif p['kind'] in ('DISCRETE', 'CATEGORICAL') and len(p['values']) >= 2:
        p['values'] = list(p['values'])
        p['values'].remove(rng.choice(p['values']))
        _sanitize(p)
        return desc, want
  elif want == 'widened':
    for j in idx:
      p = desc[j]
      if p['kind'] == 'DOUBLE' and abs(p['hi']) < 1e11:
        p['hi'] = p['hi'] + max(1.0, abs(p['hi']))
        return desc, want
      elif p['kind'] == 'INTEGER':
        if rng.random() < 0.5:
          p['hi'] += rng.randint(1, 5)
        else:
          p['lo'] -= rng.randint(1, 5)
        _sanitize(p)
        return desc, want
      elif p['kind'] == 'DISCRETE':
        p['values'] = sorted(list(p['values']) + [max(p['values']) + 1.0])
        return desc, want
      elif p['kind'] == 'CATEGORICAL':
        p['values'] = sorted(list(p['values']) + ['zz' + str(len(p['values']))])
        return desc, want
  elif want == 'shifted':
    for j in idx:
      p = desc[j]
      if p['kind'] == 'DOUBLE' and abs(p['hi']) < 1e11:
        w = max(p['hi'] - p['lo'], 1.0)
        p['lo'], p['hi'] = p['hi'] + 1.0, p['hi'] + 1.0 + w
        _sanitize(p)
        return desc, want
      elif p['kind'] == 'INTEGER':
        w = p['hi'] - p['lo']
        p['lo'], p['hi'] = p['hi'] + 1, p['hi'] + 1 + w
        _sanitize(p)
        return desc, want
  elif want == 'param-dropped' and len(desc) >= 2:
    del desc[idx[0]]
    return desc, want
  elif want == 'param-added':
    desc.append(gen.gen_param(rng, f'added{len(desc)}', max_int_width=10 ** 4))
    return desc, want
  elif want == 'param-renamed':
    desc[idx[0]]['name'] = desc[idx[0]]['name'] + 'r'
    return desc, want
  elif want == 'kind-changed':
    p = desc[idx[0]]
    kinds = [k for k in gen.KINDS if k != p['kind']]
    desc[idx[0]] = gen.gen_param(rng, p['name'], kinds=kinds, max_int_width=10 ** 4)
    return desc, want
  return gen.gen_space(rng, 1, 3, max_int_width=10 ** 4), 'fresh'


def _gen_add(rng, cur, others):
  """(assignment, labels, cls). `others`: descriptions an implementation could
  wrongly decide against."""
  r = rng.random()
  if cur is None:
    d = rng.choice(others)
    a, lab = c16_member.gen_assignment(rng, d, 'feasible')
    return a, lab, 'other-space-feasible'
  if others and r < 0.45:
    o = rng.choice(others)
    for _ in range(8):
      cls = rng.choice(['feasible', 'feasible', 'boundary'])
      a, lab = c16_member.gen_assignment(rng, o, cls)
      if xmember(cur, a) is False:
        break
    return a, lab, 'other-space-' + cls
  if others and r < 0.65:
    o = rng.choice(others)
    for _ in range(8):
      cls = rng.choice(['feasible', 'feasible', 'boundary'])
      a, lab = c16_member.gen_assignment(rng, cur, cls)
      if xmember(o, a) is False:
        break
    return a, lab, cls
  cls = 'feasible' if r < 0.75 else rng.choice(c16_member.CLASSES)
  a, lab = c16_member.gen_assignment(rng, cur, cls)
  return a, lab, cls


def gen_life_case(rng):
  backend = rng.choice(['ram', 'sql'])
  ops = []
  model = {'a': None, 'b': None}      # current description per study id
  seen = {'a': [], 'b': []}           # every description ever tied to the id
  handles = []                        # study id per handle

  def create(key, desc):
    ops.append(['create', key, desc, rng.choice(ROUTES)])
    handles.append(key)
    if model[key] is None:
      model[key] = desc
    seen[key].append(desc)

  def open_(key):
    ops.append(['open', key, rng.choice(ROUTES)])
    handles.append(key)

  def add(h=None, force=None):
    live = [j for j, k in enumerate(handles) if model[k] is not None]
    if h is None:
      h = rng.choice(live) if live and rng.random() < 0.95 else rng.randrange(len(handles))
    cur = model[handles[h]]
    others = [d for k in seen for d in seen[k] if d is not cur]
    if force and cur is not None:
      a, lab = c16_member.gen_assignment(rng, cur, force)
      cls = force
    else:
      a, lab, cls = _gen_add(rng, cur, others)
    ops.append(['add', h, enc(a), lab, cls])

  create('a', gen.gen_space(rng, 1, 3, max_int_width=10 ** 4))
  if rng.random() < 0.4:
    open_('a')
  # usually every early handle has one accepted add_trial behind it
  for h in range(len(handles)):
    if rng.random() < 0.8:
      add(h, 'feasible')
  for _ in range(rng.randint(0, 2)):
    add()
  for _ in range(rng.randint(1, 3)):
    step = rng.choice(['recreate', 'recreate', 'recreate', 'reload', 'other-study', 'reopen'])
    if step == 'recreate' and model['a'] is not None:
      on_a = [j for j, k in enumerate(handles) if k == 'a']
      how = rng.choice(['handle', 'handle', 'raw'])
      if how == 'handle':
        if len(on_a) == 1 and rng.random() < 0.7:
          open_('a')                         # "another worker" does the delete
          on_a.append(len(handles) - 1)
          ops.append(['delete', on_a[-1]])
        else:
          ops.append(['delete', rng.choice(on_a)])
      else:
        ops.append(['delete-raw', 'a'])
      old = model['a']
      model['a'] = None
      if rng.random() < 0.15:
        add(rng.choice(on_a))
      create('a', mutate_desc(rng, old)[0])
    elif step == 'reload' and model['a'] is not None:
      create('a', mutate_desc(rng, model['a'])[0])   # existing study: config is ignored
    elif step == 'other-study':
      base = model['a'] or seen['a'][-1]
      create('b', mutate_desc(rng, base)[0])
    else:
      key = rng.choice([k for k in model if model[k] is not None] or ['a'])
      if model[key] is not None:
        open_(key)
    for _ in range(rng.randint(2, 4)):
      add()
  return {'family': 'life', 'backend': backend, 'ops': ops}


# ---------------------------------------------------------------------------
# execution
# ---------------------------------------------------------------------------
def _install_servicer(backend):
  """A fresh local servicer that is also the implicit one of the public classmethods."""
  from vizier._src.service import constants, vizier_client
  env = vizier_client.environment_variables
  env.server_endpoint = constants.NO_ENDPOINT
  env.servicer_kwargs['database_url'] = None if backend == 'ram' else constants.SQL_MEMORY_URL
  vizier_client._create_local_vizier_servicer.cache_clear()   # pylint: disable=protected-access
  return vizier_client.create_vizier_servicer_or_stub()


def _uninstall_servicer():
  from vizier._src.service import vizier_client
  vizier_client.environment_variables.servicer_use_sql_ram()   # never the on-disk default
  vizier_client._create_local_vizier_servicer.cache_clear()    # pylint: disable=protected-access


def _config(desc):
  from vizier.service import pyvizier as vz
  sc = vz.StudyConfig(search_space=gen.build_space(desc), algorithm='RANDOM_SEARCH')
  sc.metric_information.append(
      vz.MetricInformation(name='m', goal=vz.ObjectiveMetricGoal.MAXIMIZE))
  return sc


def _shape(ops):
  out = []
  for op in ops:
    if op[0] == 'create':
      out.append(('create', op[1], gen.space_shape(op[2]), op[3]))
    elif op[0] == 'add':
      out.append(('add', op[1], op[4], sorted(op[3].values())))
    else:
      out.append(tuple(op))
  return out


def exec_life(ctx, backend, ops):
  from vizier.service import pyvizier as vz
  from vizier._src.service import clients, resources, study_pb2, vizier_client
  from vizier._src.service import vizier_service_pb2
  case = {'family': 'life', 'backend': backend, 'ops': ops}
  ctx.case(['life', backend, _shape(ops)], True)
  _SEQ[0] += 1
  owner = f'vvlife{_SEQ[0]}'
  try:
    service = _install_servicer(backend)
  except Exception as e:  # pylint: disable=broad-except
    ctx.count(f'life_servicer_not_installable:{type(e).__name__}')
    return
  model = {}      # key -> {'desc', 'gen', 'stored'} | None
  gens = {}       # key -> generations created so far
  replaced = {}   # key -> descriptions of earlier generations
  gen_desc = {}   # (key, generation) -> description of a replaced generation
  handles = []    # {'study', 'key', 'gen', 'used', 'ignored'}
  name_of = lambda key: resources.StudyResource(owner, key).name

  def reader(key):
    return clients.Study(vizier_client.VizierClient(name_of(key), 'vv-reader', service))

  def n_stored(key):
    return len(list(reader(key).trials().get()))

  def handle(key, route, desc=None):
    """Creates (desc given) or opens the study `key`; returns a handle."""
    if desc is not None:
      if route == 'direct':
        st = study_pb2.Study(display_name=key, study_spec=_config(desc).to_proto())
        st = service.CreateStudy(vizier_service_pb2.CreateStudyRequest(
            parent=resources.OwnerResource(owner).name, study=st))
        return clients.Study(vizier_client.VizierClient(st.name, 'vv-client', service))
      return clients.Study.from_study_config(_config(desc), owner=owner, study_id=key)
    if route == 'direct':
      return clients.Study(vizier_client.VizierClient(name_of(key), 'vv-client', service))
    if len(handles) % 2:
      return clients.Study.from_owner_and_id(owner, key)
    return clients.Study.from_resource_name(name_of(key))

  try:
    for step, op in enumerate(ops):
      kind = op[0]
      if kind in ('create', 'open'):
        key, route = op[1], op[-1]
        desc = op[2] if kind == 'create' else None
        try:
          st = handle(key, route, desc)
        except Exception as e:  # pylint: disable=broad-except
          ctx.count(f'life_op_failed:{kind}:{route}:{type(e).__name__}')
          return
        if st.resource_name != name_of(key):
          ctx.count('life_unexpected_resource_name')
          return
        ignored = None
        if kind == 'create':
          if model.get(key) is None:
            gens[key] = gens.get(key, 0) + 1
            model[key] = {'desc': desc, 'gen': gens[key], 'stored': 0}
            ctx.count('life_studies_created' if gens[key] == 1 else 'life_studies_recreated')
          else:
            ignored = desc
            ctx.count('life_existing_study_loaded_with_other_config')
        handles.append({'study': st, 'key': key, 'gen': gens.get(key, 0), 'used': False,
                        'ignored': ignored, 'route': route})
        continue
      if kind in ('delete', 'delete-raw'):
        key = handles[op[1]]['key'] if kind == 'delete' else op[1]
        try:
          if kind == 'delete':
            handles[op[1]]['study'].delete()
          else:
            service.DeleteStudy(vizier_service_pb2.DeleteStudyRequest(name=name_of(key)))
        except Exception as e:  # pylint: disable=broad-except
          ctx.count(f'life_op_failed:{kind}:{type(e).__name__}')
          return
        if model.get(key) is not None:
          replaced.setdefault(key, []).append(model[key]['desc'])
          gen_desc[(key, model[key]['gen'])] = model[key]['desc']
        model[key] = None
        ctx.count('life_studies_deleted')
        continue
      # ---- add ------------------------------------------------------------------
      h = handles[op[1]]
      a, labels, cls = dec(op[2]), op[3], op[4]
      key = h['key']
      m = model.get(key)
      try:
        trial = vz.Trial(parameters=a)
      except Exception:  # pylint: disable=broad-except
        ctx.count('life_assignments_not_representable')
        continue
      try:
        t = h['study'].add_trial(trial)
        err = None
      except Exception as e:  # pylint: disable=broad-except
        t, err = None, e
      if m is None:
        ctx.count('life_add_to_deleted_study_' + ('refused' if err is not None else 'accepted'))
        continue
      exp = xmember(m['desc'], a)
      n_after = n_stored(key)
      was_used, h['used'] = h['used'], True
      if exp is None:
        ctx.count('life_unspecified_bool_assignments')
        m['stored'] = n_after
        continue
      # which wrong space would explain a wrong answer (mechanism id only)
      stale = h['gen'] < m['gen']
      # spaces an out-of-date answer could come from: the generations the handle
      # has lived through (any replaced one for a handle of the current generation)
      cands = ([gen_desc[(key, g)] for g in range(h['gen'], m['gen'])] if stale
               else replaced.get(key, []))
      in_replaced = any(xmember(d, a) for d in cands)
      not_replaced = any(xmember(d, a) is False for d in cands)
      in_ignored = h['ignored'] is not None and bool(xmember(h['ignored'], a))
      siblings = [model[k]['desc'] for k in model if k != key and model[k] is not None]
      in_sibling = any(xmember(d, a) for d in siblings)
      if h['gen'] < m['gen']:
        hstate = 'handle-predates-recreate'
      elif h['ignored'] is not None:
        hstate = 'handle-loaded-with-other-config'
      else:
        hstate = ('used-handle' if was_used else 'fresh-handle') + (
            '-of-recreated-study' if m['gen'] > 1 else '')
      bad = sorted(l for l in labels.values() if l not in ('feasible', 'boundary'))
      tag = f'{cls}:{bad[0] if bad else "feasible"}'
      ctx.count('life_adds_checked')
      ctx.count('life_adds:' + hstate)
      if not exp:
        rel = ('member-of-replaced-space' if in_replaced else
               'member-of-ignored-config' if in_ignored else
               'member-of-other-study-space' if in_sibling else tag)
        if err is None:
          ctx.violation(f'add_trial:accepted-nonmember:{hstate}:{rel}',
                        f'Study.add_trial (handle #{op[1]} via {h["route"]}, {hstate}) accepted a '
                        f'trial outside the space the study {name_of(key)} has now '
                        f'({gen.why_not_member(m["desc"], a) if sorted(a) == sorted(p["name"] for p in m["desc"]) else "key set differs"})',
                        case, {'step': step, 'current_space': m['desc'], 'assignment': enc(a)})
          m['stored'] = n_after
          continue
        ctx.count('life_refusals')
        if stale and in_replaced:
          ctx.count('life_stale_handle_refusals')
        elif in_replaced:
          ctx.count('life_recreated_study_refusals')
        if in_ignored:
          ctx.count('life_ignored_config_refusals')
        if in_sibling:
          ctx.count('life_other_study_space_refusals')
        if n_after != m['stored']:
          ctx.violation(f'add_trial:stored-despite-refusal:{hstate}',
                        f'trial count went {m["stored"]} -> {n_after} although add_trial raised',
                        case, {'step': step})
        m['stored'] = n_after
        continue
      not_ignored = h['ignored'] is not None and not in_ignored
      if err is not None:
        rel = ('nonmember-of-replaced-space' if not_replaced else
               'nonmember-of-ignored-config' if not_ignored else tag)
        ctx.violation(f'add_trial:rejected-member:{hstate}:{rel}:{type(err).__name__}',
                      f'Study.add_trial (handle #{op[1]} via {h["route"]}, {hstate}) refused a '
                      f'trial inside the space the study {name_of(key)} has now: '
                      f'{type(err).__name__}: {err}', case,
                      {'step': step, 'current_space': m['desc'], 'assignment': enc(a)})
        m['stored'] = n_after
        continue
      ctx.count('life_members_accepted')
      if stale and not_replaced:
        ctx.count('life_stale_handle_accepts')
      if not_ignored:
        ctx.count('life_ignored_config_accepts')
      if n_after != m['stored'] + 1:
        ctx.violation(f'add_trial:member-not-stored:{hstate}',
                      f'trial count of {name_of(key)} went {m["stored"]} -> {n_after} after an '
                      'accepted add_trial', case, {'step': step})
      else:
        got = reader(key).get_trial(t.id).materialize().parameters.as_dict()
        if sorted(got) != sorted(a) or any(got[k] != a[k] for k in a):
          ctx.violation(f'add_trial:stored-values-differ:{hstate}',
                        f'stored {got} != given {a}', case, {'step': step})
      m['stored'] = n_after
    ctx.count('life_programs_completed')
  finally:
    _uninstall_servicer()


def replay_life(ctx, case):
  exec_life(ctx, case['backend'], case['ops'])
